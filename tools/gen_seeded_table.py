"""Regenerates the table of seeded changes in DESIGN.md (between the SEEDED-TABLE markers) from seeded/*/meta.json."""
import json, os, re
V = os.path.dirname(os.path.dirname(os.path.abspath(__file__)))
rows = []
for d in sorted(os.listdir(os.path.join(V, "seeded"))):
    mp = os.path.join(V, "seeded", d, "meta.json")
    if not os.path.exists(mp):
        continue
    m = json.load(open(mp))
    fired = m.get("checks_fired") or {}
    own = m.get("property")
    rules = []
    for p in ([own] if own in fired else []) + sorted(k for k in fired if k != own):
        lines = fired[p] if isinstance(fired[p], list) else fired[p].get("lines", []) if isinstance(fired[p], dict) else []
        rs = sorted({mm.group(1) for l in lines for mm in [re.search(r"\b" + p + r"-(R\d+|T)\b", l)] if mm})
        rules.append(p + ("-" + "/".join(rs) if rs else ""))
    def clip(s, n):
        s = " ".join(str(s or "").split()).replace("|", "/")
        return s if len(s) <= n else s[: n - 3] + "..."
    rows.append(f"| {d} | {clip(m.get('summary'), 150)} | {clip(m.get('needs'), 110)} | {', '.join(rules) or '(none)'} |")
table = "| seed | change | needs | reported by |\n|---|---|---|---|\n" + "\n".join(rows)
p = os.path.join(V, "DESIGN.md")
s = open(p).read()
b, e = "<!-- SEEDED-TABLE-BEGIN -->", "<!-- SEEDED-TABLE-END -->"
if b in s:
    s = s[: s.index(b) + len(b)] + "\n" + table + "\n" + s[s.index(e):]
    open(p, "w").write(s)
    print(len(rows), "rows written")
else:
    print("markers not found")
