"""Cross-rule provisos, recomputed in every run: the discharge rules D-SPEC,
D-KNOWN, D-TREE, D-REG and the cursor invariant are only available while the
rule that establishes them holds on the current tree."""
from __future__ import annotations

import ast
from typing import List, Tuple

from .core import Report
from .model import AnalysisError, norm
from .types import RULE_Q


def cursor_pairs(ctx) -> List[Tuple[str, str, str]]:
    """(class, index field, list field) for every `self.L[self.i ...]` in class Rule"""
    ci = ctx.prog.classes.get(RULE_Q)
    out = []
    if ci is None:
        return out
    for m in ci.methods.values():
        if not m.bound or m.kind == "class" or not m.params:
            continue
        s = m.params[0]
        for n in ast.walk(m.node):
            if isinstance(n, ast.Subscript) and isinstance(n.value, ast.Attribute) and isinstance(n.value.value, ast.Name) \
                    and n.value.value.id == s:
                for x in ast.walk(n.slice):
                    if isinstance(x, ast.Attribute) and isinstance(x.value, ast.Name) and x.value.id == s:
                        pair = (ci.qname, x.attr, n.value.attr)
                        if pair not in out:
                            out.append(pair)
    return out


def cursor_invariant(ctx):
    """C01-R1(i): 0 <= cursor <= len(names) is an invariant of class Rule.
    Returns (proven pairs, problems) where problems are (func, node, reason)."""
    def make():
        from .escape import Engine
        from . import facts as F
        pairs = cursor_pairs(ctx)
        ci = ctx.prog.classes.get(RULE_Q)
        proven, problems, sites = [], [], []
        eng = Engine(ctx, invariants=[], spec_ok=False, closure_ok=False)
        for (cq, ifield, lfield) in pairs:
            ok = True
            for m in ci.methods.values():
                if not m.bound or m.kind == "class" or not m.params:
                    continue
                s = m.params[0]
                ip, lp = f"{s}.{ifield}", f"{s}.{lfield}"
                summ = None
                for body_owner in ast.walk(m.node):
                    for fld in ("body", "orelse", "finalbody"):
                        stmts = getattr(body_owner, fld, None)
                        if not isinstance(stmts, list):
                            continue
                        for k, st in enumerate(stmts):
                            if not isinstance(st, ast.stmt):
                                continue
                            # writes to the cursor
                            tg = st.targets if isinstance(st, ast.Assign) else [st.target] if isinstance(st, (ast.AugAssign, ast.AnnAssign)) else []
                            for t in tg:
                                if isinstance(t, ast.Attribute) and isinstance(t.value, ast.Name) and t.value.id == s and t.attr == ifield:
                                    sites.append((m.qname, norm(st)))
                                    if isinstance(st, ast.Assign) and isinstance(st.value, ast.Constant) and st.value.value == 0:
                                        continue
                                    if isinstance(st, ast.AugAssign) and isinstance(st.op, ast.Add) and isinstance(st.value, ast.Constant) and st.value.value == 1:
                                        if summ is None:
                                            summ = eng.entry(m, frozenset())
                                        pre = summ.pre.get(id(st))
                                        k_ub = F.best(pre, "ub", ip, lp) if pre is not None else None
                                        if k_ub is not None and k_ub >= 1:
                                            continue
                                        ok = False
                                        problems.append((m, st, f"`{norm(st)}` is not dominated by `{ip} < len({lp})`: the cursor may pass the end of the list"))
                                        continue
                                    ok = False
                                    problems.append((m, st, f"cursor write `{norm(st)}` is neither `= 0` nor a guarded `+= 1`"))
                                # re-binding of the list
                                if isinstance(t, ast.Attribute) and isinstance(t.value, ast.Name) and t.value.id == s and t.attr == lfield:
                                    sites.append((m.qname, norm(st)))
                                    reset = False
                                    for nxt in stmts[k + 1:]:
                                        if isinstance(nxt, ast.Assign) and any(isinstance(x, ast.Attribute) and x.attr == ifield for x in nxt.targets) \
                                                and isinstance(nxt.value, ast.Constant) and nxt.value.value == 0:
                                            reset = True
                                            break
                                        if not isinstance(nxt, (ast.Assign, ast.AnnAssign)) or any(isinstance(c, ast.Call) for c in ast.walk(nxt)):
                                            break
                                    if not reset:
                                        if summ is None:
                                            summ = eng.entry(m, frozenset())
                                        pre = summ.pre.get(id(st))
                                        if pre is not None and ("eqc", ip, 0) in pre:
                                            reset = True  # the cursor is 0 when the list is re-bound
                                    if not reset:
                                        ok = False
                                        problems.append((m, st, f"`{norm(st)}` re-binds the name list while the cursor is not known to be 0 (and is not reset next)"))
                for n in ast.walk(m.node):
                    if isinstance(n, ast.Call) and isinstance(n.func, ast.Attribute) and n.func.attr in ("remove", "pop", "clear") \
                            and isinstance(n.func.value, ast.Attribute) and n.func.value.attr == lfield:
                        ok = False
                        problems.append((m, n, f"`{norm(n)}` shrinks the name list under the cursor"))
                    if isinstance(n, ast.Delete):
                        for t in n.targets:
                            if isinstance(t, ast.Subscript) and isinstance(t.value, ast.Attribute) and t.value.attr == lfield:
                                ok = False
                                problems.append((m, n, f"`{norm(n)}` shrinks the name list under the cursor"))
            if ok:
                proven.append((cq, ifield, lfield))
        return proven, problems, sites
    return ctx.get("cursor_invariant", make)


def tables_ok(ctx):
    """(spec_ok, closure_ok): does the C10 table check pass in this run?"""
    def make():
        from .props import c10
        rep = Report("C10")
        c10.run(ctx, rep)  # an AnalysisError here is an analysis error of the caller too, never a silent loss of D-SPEC
        r1 = [f for f in rep.findings if f.rule == "R1"]
        r2 = [f for f in rep.findings if f.rule == "R2"]
        return (not r2), (not r1)
    return ctx.get("tables_ok", make)


def tree_invariant_ok(ctx) -> bool:
    def make():
        try:
            from .props import c09
        except ImportError:
            return True
        if not hasattr(c09, "rule_r1"):
            return True
        rep = Report("C09")
        c09.rule_r1(ctx, rep)
        return not rep.findings
    return ctx.get("tree_invariant_ok", make)


def registry_invariant_ok(ctx) -> bool:
    def make():
        try:
            from .props import c14
        except ImportError:
            return True
        if not hasattr(c14, "rule_r1_r2"):
            return True
        rep = Report("C14")
        c14.rule_r1_r2(ctx, rep)
        return not rep.findings
    return ctx.get("registry_invariant_ok", make)


def engine(ctx):
    """the escape engine with every proviso evaluated on the current tree"""
    def make():
        from .escape import Engine
        from .specfold import spec_total
        proven, _problems, _sites = cursor_invariant(ctx)
        spec_ok, closure_ok = tables_ok(ctx)
        eng = Engine(ctx, invariants=proven, tree_invariant=tree_invariant_ok(ctx),
                     registry_invariant=registry_invariant_ok(ctx), spec_ok=spec_ok, closure_ok=closure_ok)
        eng.spec_total = spec_total(ctx) if spec_ok else {}
        eng.provisos = {"cursor_invariant": [f"{a.rsplit('.', 1)[-1]}.{b} <= len({c})" for a, b, c in proven],
                        "D-SPEC (C10-R2 holds)": spec_ok, "D-KNOWN (C10-R1 holds)": closure_ok,
                        "D-TREE (C09-R1 holds)": eng.tree_invariant, "D-REG (C14-R1/R2 hold)": eng.registry_invariant}
        return eng
    return ctx.get("engine", make)
