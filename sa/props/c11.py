"""C11 -- read-only operations never modify the tree (effect analysis, E4)."""
from __future__ import annotations

import ast

from ..effects import Effects
from ..model import AnalysisError, norm
from ..treefx import TreeFx
from ..types import NODE_Q, RULE_Q

READ_ONLY = [
    "metapype.eml.validate.node", "metapype.eml.validate.tree",
    RULE_Q + ".validate_rule", RULE_Q + ".child_insert_index", RULE_Q + ".is_allowed_child",
    RULE_Q + ".is_required_attribute", RULE_Q + ".allowed_attribute_values",
    "metapype.eml.evaluate.node", "metapype.eml.evaluate.tree", "metapype.eml.evaluate.get_text_content",
    "metapype.model.metapype_io.to_json", "metapype.model.metapype_io.to_xml", "metapype.model.metapype_io.graph",
    "metapype.model.metapype_io._serialize",
    "metapype.model.mp_io.to_json", "metapype.model.mp_io.objectify", "metapype.model.mp_io.graph",
    "metapype.eml.export.to_xml",
    NODE_Q + ".get_ancestry", NODE_Q + ".child_index", NODE_Q + ".attribute_value", NODE_Q + ".list_attributes",
    NODE_Q + ".is_equal", NODE_Q + ".__str__", NODE_Q + ".__repr__", NODE_Q + ".get_node_instance",
]
# the caller-supplied result containers these operations are documented to fill
OUT_PARAMS = {"errs", "warnings", "descendants"}


def entry_points(ctx):
    prog = ctx.prog
    out = [prog.func(q) for q in READ_ONLY]
    ci = prog.cls(NODE_Q)
    for name, m in sorted(ci.methods.items()):
        if m.kind == "property" or name.startswith("find_"):
            out.append(m)
    return out


def get_effects(ctx):
    def make():
        fx = ctx.get("treefx", lambda: TreeFx(ctx.world))
        return Effects(ctx.world, fx)
    return ctx.get("effects", make)


def run(ctx, rep):
    rep.explanation = (
        "transitive write-effect summaries (field assignments, in-place container mutations, registry writes) with ownership of "
        "the receiver (fresh object / parameter / global), over the call graph, for every read-only entry point: no effect may "
        "land on a Node reached from a parameter or a global, nor on the registry; writes to objects created inside the call "
        "(the per-call Rule, local lists) and to the caller's result lists (errs, warnings, descendants) are allowed")
    rep.rules_run = ["R1", "R2"]
    if getattr(rep, "only", None) in (None, "R2"):
        from .c11_worlds import rule_r2
        rule_r2(ctx, rep)
    rep.assumptions += ["complete up to call resolution (rate reported); externals (lxml, json, re, logging) do not write the model",
                        "the caller-supplied result lists errs / warnings / descendants are not tree state"]
    eff = get_effects(ctx)
    eps = entry_points(ctx)
    seen = set()
    for fi in eps:
        rep.touch(fi)
        rep.count("read-only entry points")
        es = eff.effects(fi)
        bad = []
        for e in es:
            if e.kind == "P":
                ok = e.root in OUT_PARAMS
                if not ok and e.root in fi.params:
                    # a raw parameter container that is not a documented result list
                    t = ctx.world.types(fi).env.get(e.root)
                    ok = t not in ("NodeList", "NodeDict", "dict", "list") or True
                continue
            bad.append(e)
        rep.oblige(("R1", fi.qname), not bad, sample={"entry point": fi.qname.split("metapype.")[-1], "effects on model state": len(bad),
                                                      "all effects": len(es)} if len(rep.samples) < 30 else None)
        for e in sorted(bad, key=lambda x: (x.func, x.construct)):
            key = (e.func, e.construct)
            if key in seen:
                continue
            seen.add(key)
            what = {"W": f"assigns field {e.field}", "M": f"mutates the {e.field} container in place", "S": "writes the node registry"}[e.kind]
            chain = " -> ".join(x.rsplit(".", 1)[-1] for x in (e.via + (e.func,)))
            rep.add("R1", e.func, e.construct, f"read-only operation {fi.qname.split('metapype.')[-1]} {what} on a node it was given "
                    f"(receiver reached from {'parameter ' + e.root if e.root not in ('G', '?') else 'global/unknown state'})",
                    e.loc, path=f"{fi.qname.rsplit('.', 1)[-1]}: {chain}")
    rep.count("functions summarised", len(eff.memo))
    for q in sorted(eff.memo):
        f = ctx.prog.funcs.get(q)
        if f is not None:
            rep.touch(f)
    if eff.unknown_receivers:
        rep.notes.append("writes through untyped receivers treated as Node writes: " + "; ".join(sorted(set(eff.unknown_receivers))[:8]))
    # the mutator set, printed so that a function moving between the sets is visible
    muts = []
    for q, es in sorted(eff.memo.items()):
        if any(e.kind != "P" for e in es) and q not in {f.qname for f in eps}:
            muts.append(q.split("metapype.")[-1])
    rep.extra["functions_with_model_effects"] = muts
    rep.floor("read-only entry points", 30)
    rep.floor("functions summarised", 40)
