"""C02 -- content validation decides exactly as the content constraints require (partial).

Decided: dispatch exhaustiveness and arm/checker kind agreement (R1), checker
totality in both modes (R2), error codes exist (R3), range / NaN / infinity
verdicts of the ranged kinds over an abstract float domain with the interval
constants propagated from the dispatch arm (R4), the mixed-content waiver of
the non-empty check (R5).  Not decided: what Python's float/int/strptime/
fromisoformat and rfc3986 accept lexically."""
from __future__ import annotations

import ast
import math

from .. import prereq
from ..anchors import content_dispatch, rule_method
from ..condeval import enclosing_ifs, eval_at
from ..model import UNKNOWN, AnalysisError, EnumMember, iter_funcs_in_module, norm
from ..peval import Opaque, PEval, PEvalUnsupported, Raised
from ..types import RULE_Q
from ..valslice import RULE_ERR, VERR, mode_params, reachable, report_sites

EWARN = "metapype.eml.evaluation_warnings.EvaluationWarning"

# the property's table: content-rule name -> (parse primitive of its predicate, collected error code)
KINDS = {
    "emptyContent": (None, "CONTENT_EXPECTED_EMPTY"),
    "floatContent": ("float", "CONTENT_EXPECTED_FLOAT"),
    "floatRangeContent_EW": ("float", "CONTENT_EXPECTED_RANGE"),
    "floatRangeContent_NS": ("float", "CONTENT_EXPECTED_RANGE"),
    "floatContent_Nonnegative": ("float", "CONTENT_EXPECTED_RANGE"),
    "intContent": ("int", "CONTENT_EXPECTED_INT"),
    "nonEmptyContent": (None, "CONTENT_EXPECTED_NONEMPTY"),
    "strContent": ("encode", "CONTENT_EXPECTED_STRING"),
    "timeContent": ("fromisoformat", "CONTENT_EXPECTED_TIME_FORMAT"),
    "uriContent": ("rfc3986", "CONTENT_EXPECTED_URI"),
    "yearDateContent": ("strptime", "CONTENT_EXPECTED_YEAR_FORMAT"),
}
RANGES = {
    "floatRangeContent_EW": (-180.0, 180.0),
    "floatRangeContent_NS": (-90.0, 90.0),
    "floatContent_Nonnegative": (0.0, math.inf),
}


def primitives_of(ctx, fi, depth=0, seen=None):
    """parse primitives a function (transitively, inside class Rule) applies"""
    seen = seen if seen is not None else set()
    if fi.qname in seen or depth > 6:
        return set()
    seen.add(fi.qname)
    w = ctx.world
    ft = w.types(fi)
    out = set()
    for n in ast.walk(fi.node):
        if not isinstance(n, ast.Call):
            continue
        for tg in w.resolve_call(ft, n):
            if tg.kind == "builtin" and tg.name in ("float", "int"):
                out.add(tg.name)
            elif tg.kind == "ext":
                if tg.name.endswith(".fromisoformat"):
                    out.add("fromisoformat")
                elif tg.name.endswith(".strptime"):
                    out.add("strptime")
                elif "rfc3986" in tg.name and tg.name.endswith(".validate"):
                    out.add("rfc3986")
            elif tg.kind == "method" and tg.name == "encode":
                out.add("encode")
            elif tg.func is not None and tg.func.cls is not None and tg.func.cls.qname == RULE_Q:
                out |= primitives_of(ctx, tg.func, depth + 1, seen)
    return out


def arm_chain(ctx, fi, arm_stmts):
    """functions reachable from the statements of a dispatch arm (inside Rule)"""
    w = ctx.world
    ft = w.types(fi)
    roots = []
    for s in arm_stmts:
        for n in ast.walk(s):
            if isinstance(n, ast.Call):
                for tg in w.resolve_call(ft, n):
                    if tg.func is not None:
                        roots.append((tg.func, n))
    return roots


def rule_r1(ctx, rep):
    prog = ctx.prog
    fi, loop, var, arms, fall = content_dispatch(prog)
    rep.touch(fi)
    used = set()
    for rname, r in ctx.tables.rules.items():
        if isinstance(r, list) and len(r) == 3 and isinstance(r[2], dict):
            used |= {c for c in (r[2].get("content_rules") or []) if isinstance(c, str)}
    for name in sorted(used):
        rep.count("content-rule names in the table")
        ok = name in arms
        rep.oblige(("R1", "arm", name), ok)
        if not ok:
            rep.add("R1", fi.qname, f"content rule '{name}'", "rules.json uses this content-rule name but the dispatch has no arm for it", fi.loc(loop))
    sl_all = reachable(ctx, [fi])
    mps = mode_params(ctx, sl_all)
    for name, stmts in sorted(arms.items()):
        rep.count("dispatch arms")
        roots = arm_chain(ctx, fi, stmts)
        if not roots:
            is_noop = all(isinstance(s, (ast.Pass, ast.Continue)) for s in stmts)
            ok = is_noop and name not in KINDS
            rep.oblige(("R1", "noop", name), ok)
            if not ok:
                rep.add("R1", fi.qname, f"arm '{name}'", "dispatch arm calls no checker" + ("" if name not in KINDS else
                        f" although '{name}' is a checked content kind"), fi.loc(stmts[0]))
            continue
        if name not in KINDS:
            rep.notes.append(f"dispatch arm '{name}' is not in the property's table of content kinds; not classified")
            continue
        prim_want, code_want = KINDS[name]
        prims, codes = set(), set()
        for (f0, _call) in roots:
            prims |= primitives_of(ctx, f0)
            for g in reachable(ctx, [f0]):
                if g.qname in mps and g.cls is not None and g.cls.qname == RULE_Q:
                    ps, _ = report_sites(ctx, g, mps[g.qname])
                    codes |= {p.code.member for p in ps if isinstance(p.code, EnumMember)}
                    rep.touch(g)
        ok = (prim_want is None or prim_want in prims) and code_want in codes
        # a typed arm must not rely on a different type's parser only
        foreign = {p for p in prims if p in ("float", "int", "fromisoformat", "strptime", "rfc3986") and p != prim_want}
        if prim_want in ("float", "int", "fromisoformat", "strptime", "rfc3986") and foreign and prim_want not in prims:
            ok = False
        rep.oblige(("R1", "kind", name), ok, sample={"arm": name, "parse primitives": sorted(prims), "codes": sorted(codes)})
        if not ok:
            rep.add("R1", fi.qname, f"arm '{name}'",
                    f"the arm's checker applies {sorted(prims) or 'no parser'} and records {sorted(codes) or 'nothing'}; "
                    f"'{name}' requires {prim_want or 'no parser'} / {code_want}", fi.loc(stmts[0]))
    # fall-through
    rep.count("fall-through arm")
    ok = False
    if fall:
        mp = mps.get(fi.qname)
        ps, _ = report_sites(ctx, fi, mp) if mp else ([], [])
        for p in ps:
            if any(any(x is p.if_node for x in ast.walk(s)) for s in fall) and isinstance(p.code, EnumMember) and p.code.member == "UNKNOWN_CONTENT_RULE":
                ok = True
        # ... or through a private reporting function called from the fall-through arm
        for (f0, _call) in arm_chain(ctx, fi, fall):
            for g in reachable(ctx, [f0]):
                if g.qname in mps or mode_params(ctx, [g]).get(g.qname):
                    gp, _ = report_sites(ctx, g, mps.get(g.qname) or mode_params(ctx, [g]).get(g.qname))
                    if any(isinstance(p.code, EnumMember) and p.code.member == "UNKNOWN_CONTENT_RULE" for p in gp):
                        ok = True
    rep.oblige(("R1", "fallthrough"), ok)
    if not ok:
        rep.add("R1", fi.qname, "fall-through arm", "an unrecognised content-rule name is not reported as UNKNOWN_CONTENT_RULE", fi.loc(loop))
    # content_enum consulted iff present
    rep.count("enumeration hook")
    w = ctx.world
    ft = w.types(fi)
    enum_ok = False
    for n in ast.walk(fi.node):
        if isinstance(n, ast.If) and not any(x is n for x in ast.walk(loop)):
            txt = norm(n.test)
            if "content_enum" in txt or "has_enum_content" in txt:
                for c in ast.walk(n):
                    if isinstance(c, ast.Call):
                        for tg in w.resolve_call(ft, c):
                            if tg.func is not None and tg.func.qname in mps:
                                ps, _ = report_sites(ctx, tg.func, mps[tg.func.qname])
                                if any(isinstance(p.code, EnumMember) and p.code.member == "CONTENT_EXPECTED_ENUM" for p in ps):
                                    enum_ok = True
    rep.oblige(("R1", "enum"), enum_ok)
    if not enum_ok:
        rep.add("R1", fi.qname, "content_enum", "the enumerated-content check is not applied when the rule declares content_enum", fi.loc())
    # constants of the date and URI predicates: every format handed to strptime in is_yeardate (directly, or as the
    # variable of a loop over a constant sequence)
    yd = rule_method(prog, "is_yeardate")
    formats, opaque = set(), []
    for n in ast.walk(yd.node):
        if isinstance(n, ast.Call) and isinstance(n.func, ast.Attribute) and n.func.attr == "strptime" and len(n.args) == 2:
            f = n.args[1]
            v = prog.const(yd.module, f)
            if isinstance(v, str):
                formats.add(v)
                continue
            seq = None
            if isinstance(f, ast.Name):
                for lp in ast.walk(yd.node):
                    if isinstance(lp, ast.For) and isinstance(lp.target, ast.Name) and lp.target.id == f.id and any(x is n for x in ast.walk(lp)):
                        seq = prog.const(yd.module, lp.iter)
            if isinstance(seq, (list, tuple)) and all(isinstance(x, str) for x in seq):
                formats |= set(seq)
            else:
                opaque.append(n)
    rep.count("format constants")
    ok = formats == {"%Y", "%Y-%m-%d"} and not opaque
    rep.oblige(("R1", "yeardate formats"), ok)
    if not ok and (formats or opaque):
        rep.add("R1", RULE_Q + ".is_yeardate", "strptime formats", f"year/date formats {sorted(formats)}{' (+ non-constant)' if opaque else ''} differ from "
                "{'%Y', '%Y-%m-%d'}", yd.loc())
    uri = rule_method(prog, "is_uri")
    # the validator may be built inside the predicate or once at module level (a constant the predicate refers to)
    scan = list(ast.walk(uri.node))
    for nm_ in {x.id for x in ast.walk(uri.node) if isinstance(x, ast.Name)}:
        cv = uri.module.consts.get(nm_)
        if cv is not None and uri.module.const_multi.get(nm_, 0) == 1 and isinstance(cv, ast.Call):
            scan.extend(ast.walk(cv))
    for n in scan:
        if isinstance(n, ast.Call) and isinstance(n.func, ast.Attribute):
            vals = []
            for a in n.args:
                if isinstance(a, ast.Starred):
                    sv = prog.const(uri.module, a.value)
                    vals.extend(sv if isinstance(sv, (list, tuple)) else [None])
                else:
                    vals.append(prog.const(uri.module, a))
            if n.func.attr == "allow_schemes":
                rep.count("format constants")
                ok = set(vals) == {"http", "https", "ftp"}
                rep.oblige(("R1", "uri schemes"), ok)
                if not ok:
                    rep.add("R1", uri.qname, n, "allowed URI schemes differ from http/https/ftp", uri.loc(n))
            if n.func.attr == "require_presence_of":
                rep.count("format constants")
                ok = {"scheme", "host"} <= set(vals)
                rep.oblige(("R1", "uri presence"), ok)
                if not ok:
                    rep.add("R1", uri.qname, n, "a URI must be required to have a scheme and a host", uri.loc(n))
    rep.floor("content-rule names in the table", 11)
    rep.floor("dispatch arms", 8)
    rep.floor("format constants", 3)


def rule_r2(ctx, rep):
    eng = prereq.engine(ctx)
    prog = ctx.prog
    h = ctx.hier
    fi = rule_method(prog, "_validate_content")
    mp = mode_params(ctx, reachable(ctx, [fi])).get(fi.qname)
    for mode, k in (("FF", "none"), ("COLLECT", "nn")):
        s = eng.entry(fi, frozenset({(k, mp)}) if mp else frozenset())
        rep.count("content entry x mode")
        for key, esc in s.escapes.items():
            ok = mode == "FF" and h.issub(esc.cls, RULE_ERR)
            rep.oblige(("R2", mode, esc.cls, esc.origin[:2]), ok)
            if not ok:
                rep.add("R2", esc.origin[0], esc.origin[1], f"{h.short(esc.cls)} escapes content validation ({mode} mode): {esc.origin[2]}", esc.loc)
    ci = prog.cls(RULE_Q)
    n_conv = 0
    for m in ci.methods.values():
        if m.kind == "static" and m.name.startswith("is_"):
            rep.count("typed predicates")
            # validation only ever hands a non-None string to a predicate (the checkers test `is not None` first);
            # totality on None is not part of the property (is_uri(None) raises TypeError, its siblings return False: noted)
            s = eng.entry(m, frozenset({("nn", p) for p in m.params}))
            s_none = eng.entry(m, frozenset())
            if s_none.escapes and not s.escapes:
                rep.notes.append(f"sibling disagreement (not a violation of C02): {m.name}(None) may raise "
                                 f"{sorted({h.short(e.cls) for e in s_none.escapes.values()})}, the other predicates return False")
            rep.touch(m)
            for key, esc in s.escapes.items():
                rep.oblige(("R2p", m.qname, esc.cls), False)
                rep.add("R2", esc.origin[0], esc.origin[1], f"predicate {m.name} is not total on strings: {h.short(esc.cls)} "
                        f"({esc.origin[2]})", esc.loc)
            if not s.escapes:
                rep.oblige(("R2p", m.qname), True)
    for (q, cf), s in eng.memo.items():
        for r in s.ledger:
            if r["op"] in ("float(x)", "int(x)", "strptime", "fromisoformat", "str.encode(strict)", "rfc3986 Validator.validate"):
                n_conv += 1
                if len(rep.samples) < 30:
                    rep.sample({"conversion": r["construct"][:60], "in": r["func"].rsplit(".", 1)[-1], "discharged by": r["discharge"]})
    rep.count("conversions of content", len({(r["func"], r["construct"]) for (q, cf), s in eng.memo.items() for r in s.ledger
                                             if r["op"] in ("float(x)", "int(x)", "strptime", "fromisoformat", "str.encode(strict)", "rfc3986 Validator.validate")}))
    rep.floor("typed predicates", 4)
    rep.floor("conversions of content", 4)
    rep.assumed_total |= eng.assumed_total


def rule_r3(ctx, rep):
    prog = ctx.prog
    for enum_q in (VERR, EWARN):
        ci = prog.cls(enum_q)
        members = set(prog.enum_members(ci))
        for mi in prog.modules.values():
            for fi in iter_funcs_in_module(mi):
                for n in ast.walk(fi.node):
                    if isinstance(n, ast.Attribute) and isinstance(n.value, (ast.Name, ast.Attribute)):
                        r = prog.resolve_name_expr(mi, n.value)
                        if r and r[0] == "class" and r[1].qname == enum_q:
                            if n.attr.startswith("__") or n.attr in ("name", "value"):
                                continue
                            rep.count("error/warning code references")
                            ok = n.attr in members
                            rep.oblige(("R3", enum_q.rsplit(".", 1)[-1], n.attr), ok)
                            if not ok:
                                rep.add("R3", fi.qname, n, f"{ci.name} declares no member {n.attr} (AttributeError when this line runs)", fi.loc(n))
    rep.floor("error/warning code references", 25)


def _range_sites(ctx, fi, env, depth, out, chain):
    """follow the call chain from a dispatch arm, binding parameters to folded constants;
    collect (function, guard If, env) for every CONTENT_EXPECTED_RANGE report"""
    if depth > 6:
        return
    w = ctx.world
    prog = ctx.prog
    ft = w.types(fi)
    mps = mode_params(ctx, reachable(ctx, [fi]))
    mp = mps.get(fi.qname)
    if mp:
        ps, _ = report_sites(ctx, fi, mp)
        for p in ps:
            if isinstance(p.code, EnumMember) and p.code.member == "CONTENT_EXPECTED_RANGE":
                out.append((fi, p, dict(env), list(chain)))
    for n in ast.walk(fi.node):
        if isinstance(n, ast.Call):
            for tg in w.resolve_call(ft, n):
                if tg.func is None or tg.func.cls is None or tg.func.cls.qname != RULE_Q or tg.func.qname == fi.qname:
                    continue
                env2 = {}
                for pn, a in w.arg_map(tg, n).items():
                    v = prog.const(fi.module, a, local={k: v for k, v in env.items() if not isinstance(v, Opaque)})
                    if v is not UNKNOWN:
                        env2[pn] = v
                _range_sites(ctx, tg.func, env2, depth + 1, out, chain + [tg.func.name])


def rule_r4(ctx, rep):
    prog = ctx.prog
    fi, loop, var, arms, fall = content_dispatch(prog)
    big = 1e300
    for name, (lo, hi) in sorted(RANGES.items()):
        rep.count("ranged content kinds")
        if name not in arms:
            continue
        sites = []
        for (f0, call) in arm_chain(ctx, fi, arms[name]):
            # constants handed over by the arm's own call (a wrapper that used to carry them may have been dissolved)
            env0 = {}
            for tg in ctx.world.resolve_call(ctx.world.types(fi), call):
                if tg.func is f0:
                    for pn, a in ctx.world.arg_map(tg, call).items():
                        v = prog.const(fi.module, a)
                        if v is not UNKNOWN:
                            env0[pn] = v
            _range_sites(ctx, f0, env0, 0, sites, [f0.name])
        if not sites:
            rep.oblige(("R4", name, "site"), False)
            rep.add("R4", fi.qname, f"arm '{name}'", "no range report (CONTENT_EXPECTED_RANGE) is reachable from this arm", fi.loc(arms[name][0]))
            continue
        g_fi, pair, env, chain = sites[0]
        guards = enclosing_ifs(g_fi, pair.if_node)
        if not guards:
            rep.add("R4", g_fi.qname, pair.append_call, "the range report is unconditional", g_fi.loc(pair.if_node))
            continue
        # the variable holding the parsed value: assigned from float(...)
        valvars = set()
        for n in ast.walk(g_fi.node):
            if isinstance(n, ast.Assign) and isinstance(n.value, ast.Call) and isinstance(n.value.func, ast.Name) and n.value.func.id == "float":
                for t in n.targets:
                    if isinstance(t, ast.Name):
                        valvars.add(t.id)
        finite = not math.isinf(hi)
        mid = (lo + hi) / 2 if finite else lo + 1000.0
        pts = [(-math.inf, True), (lo - 1e-9 if lo != 0 else -1e-9, True), (lo, False), (mid, False), (math.nan, True)]
        if finite:
            pts += [(hi, False), (hi + 1e-9, True), (math.inf, True), (-big, True), (big, True)]
        else:
            pts += [(big, False), (-big, True)]
        # locals bound once to a constant (hoisted bounds) are part of the environment
        consts = {}
        for n in ast.walk(g_fi.node):
            if isinstance(n, ast.Assign) and len(n.targets) == 1 and isinstance(n.targets[0], ast.Name) and n.targets[0].id not in valvars:
                nm_ = n.targets[0].id
                v_ = prog.const(g_fi.module, n.value)
                if isinstance(v_, (int, float)) and not isinstance(v_, bool) and sum(1 for m in ast.walk(g_fi.node) if isinstance(m, ast.Name) and m.id == nm_
                                                                                      and isinstance(m.ctx, ast.Store)) == 1:
                    consts[nm_] = v_
        g_mp = mode_params(ctx, reachable(ctx, [g_fi])).get(g_fi.qname)
        modes = [None, [], ["earlier error"]] if g_mp else [None]
        for (x, want_reject), mode_val in [(pt, mv) for pt in pts for mv in modes]:
            e = dict(consts)
            e.update(env)
            if g_mp:
                e[g_mp] = mode_val
            for v in valvars:
                e[v] = x
            verdict = True
            res = None
            # first choice: walk the function as written -- straight-line prefix assignments (unpacked bounds, the parsed value)
            # are executed, every enclosing test and guard clause is evaluated; the content is the literal of the float
            from ..condeval import guard_verdict as _gv
            nodeps = [p_ for p_ in g_fi.params if ctx.world.types(g_fi).env.get(p_) == "Node"]
            done_gv = False
            if nodeps:
                pe_ = PEval(ctx.world)
                for q_ in [m_.qname for m_ in prog.cls(RULE_Q).methods.values() if m_.kind == "static" and m_.name.startswith("is_")]:
                    pe_.stubs[q_] = True
                e2 = dict(e)
                for v in valvars:
                    e2.pop(v, None)
                e2[nodeps[0]] = {"__obj__": True, "content": repr(x), "_content": repr(x), "name": "n", "_name": "n", "children": [], "_children": []}
                try:
                    gv = _gv(ctx, g_fi, pair.if_node, e2, pe_)
                    verdict = None if isinstance(gv, tuple) else bool(gv)
                    if isinstance(gv, tuple):
                        res = gv
                    done_gv = True
                except PEvalUnsupported as _ex:
                    import os as _os
                    if _os.environ.get("SA_DEBUG"): print("gv unsupported:", _ex)
                    done_gv = False
            for (g, in_body) in ([] if done_gv else guards):
                # predicate guards on the raw content (is_float(...)) hold for every numeric point
                if any(isinstance(c, ast.Call) and not (isinstance(c.func, ast.Name) and c.func.id in ("float", "abs")) and
                       not (isinstance(c.func, ast.Attribute) and isinstance(c.func.value, ast.Name) and c.func.value.id == "math")
                       for c in ast.walk(g.test)):
                    continue
                try:
                    res = eval_at(ctx, g_fi, g.test, e)
                except PEvalUnsupported as ex:
                    raise AnalysisError(f"{g_fi.loc(g)}: cannot evaluate range guard `{norm(g.test)}`: {ex}")
                if res[0] == "raises":
                    verdict = None
                    break
                if res[1] != in_body:
                    verdict = False
                    break
            rep.count("range verdict points")
            ok = verdict is not None and verdict == want_reject
            rep.oblige(("R4", name, repr(x), repr(mode_val)), ok, sample={"kind": name, "value": repr(x), "rejected": verdict, "required": want_reject,
                                                          "via": " -> ".join(chain)} if x in (lo, hi) or x != x else None)
            if not ok:
                what = "raises " + str(res[1]) if verdict is None else ("rejected" if verdict else "accepted")
                rep.add("R4", g_fi.qname, guards[-1][0].test,
                        f"'{name}' value {x!r} is {what}{' when the error list already holds an error' if mode_val else ''}; the content constraint "
                        f"[{lo}, {'+inf' if not finite else hi}] requires it to be {'rejected' if want_reject else 'accepted'}",
                        g_fi.loc(guards[-1][0]))
                break
    rep.floor("ranged content kinds", 3)
    rep.floor("range verdict points", 15)


def rule_r5(ctx, rep):
    prog = ctx.prog
    fi = rule_method(prog, "_validate_non_empty_content")
    mp = mode_params(ctx, reachable(ctx, [fi])).get(fi.qname)
    ps, _ = report_sites(ctx, fi, mp) if mp else ([], [])
    ps = [p for p in ps if isinstance(p.code, EnumMember) and p.code.member == "CONTENT_EXPECTED_NONEMPTY"]
    if not ps:
        raise AnalysisError("anchor vanished: CONTENT_EXPECTED_NONEMPTY report in Rule._validate_non_empty_content")
    guards = enclosing_ifs(fi, ps[0].if_node)
    flag = [p for p in fi.params if p not in (mp,) and fi.params.index(p) > 0]
    nodep = fi.params[0]
    flagp = [p for p in fi.params if p not in (nodep, mp)]
    if len(flagp) != 1:
        raise AnalysisError("Rule._validate_non_empty_content: cannot single out the mixed-content parameter")
    for content in (None, "", "x"):
        for kids in ([], ["c"]):
            for fl in (False, True):
                env = {nodep: {"__obj__": True, "content": content, "_content": content, "children": kids, "_children": kids, "name": "n"},
                       flagp[0]: fl, mp: None}
                verdict = True
                for (g, in_body) in guards:
                    try:
                        res = eval_at(ctx, fi, g.test, env)
                    except PEvalUnsupported as ex:
                        raise AnalysisError(f"cannot evaluate `{norm(g.test)}`: {ex}")
                    if res[0] == "raises":
                        verdict = None
                        break
                    if res[1] != in_body:
                        verdict = False
                        break
                want = content in (None, "") and (not fl or not kids)
                rep.count("non-empty verdict points")
                ok = verdict == want
                rep.oblige(("R5", repr(content), len(kids), fl), ok)
                if not ok:
                    rep.add("R5", fi.qname, guards[-1][0].test,
                            f"content={content!r}, {len(kids)} child element(s), mixed-content={fl}: "
                            f"{'rejected' if verdict else 'raises' if verdict is None else 'accepted'}, the constraint requires "
                            f"{'rejection' if want else 'acceptance'} (child elements may stand in for text only in mixed-content rules)",
                            fi.loc(guards[-1][0]))
                    return
    rep.floor("non-empty verdict points", 12)


def rule_r6(ctx, rep):
    """the reject decision of the empty / enumerated / typed checkers over {no content, empty, listed, unlisted} x
    {predicate holds, fails}; the typed predicates themselves are stubbed (their lexical acceptance is not decided)"""
    from ..condeval import guard_verdict
    prog = ctx.prog
    w = ctx.world
    fi0, loop, var, arms, fall = content_dispatch(prog)
    sl = [f for f in reachable(ctx, [fi0]) if f.cls is not None and f.cls.qname == RULE_Q]
    mps = mode_params(ctx, sl)
    preds = {m.qname for m in prog.cls(RULE_Q).methods.values() if m.kind == "static" and m.name.startswith("is_")}
    typed = {"CONTENT_EXPECTED_FLOAT", "CONTENT_EXPECTED_INT", "CONTENT_EXPECTED_TIME_FORMAT", "CONTENT_EXPECTED_URI", "CONTENT_EXPECTED_YEAR_FORMAT"}
    seen = set()
    for fi in sl:
        if fi.qname not in mps:
            continue
        ps, _ = report_sites(ctx, fi, mps[fi.qname])
        for p in ps:
            if p.helper or not isinstance(p.code, EnumMember):
                continue
            code = p.code.member
            nodep = next((x for x in fi.params if w.types(fi).env.get(x) == "Node"), None)
            if nodep is None:
                continue
            cases = []
            if code == "CONTENT_EXPECTED_EMPTY":
                cases = [({"c": None}, False), ({"c": "x"}, True)]
            elif code == "CONTENT_EXPECTED_ENUM":
                cases = [({"c": "a"}, False), ({"c": "zz"}, True), ({"c": None}, True), ({"c": ""}, True)]
            elif code in typed:
                # the literal agrees with the stubbed predicate outcome, so a checker that parses the text itself (try: float(...))
                # is judged on the same points as one that asks the predicate
                good = {"CONTENT_EXPECTED_FLOAT": "1.5", "CONTENT_EXPECTED_INT": "15", "CONTENT_EXPECTED_TIME_FORMAT": "10:30:00",
                        "CONTENT_EXPECTED_URI": "http://a.b/c", "CONTENT_EXPECTED_YEAR_FORMAT": "2020"}[code]
                cases = [({"c": good, "pred": True}, False), ({"c": "x", "pred": False}, True),
                         ({"c": "", "pred": False}, True),     # the empty string is content, and no typed predicate accepts it
                         ({"c": None, "pred": False}, False)]  # absent content is not the typed checkers' business
            if not cases or (fi.qname, code) in seen:
                continue
            seen.add((fi.qname, code))
            for (case, want) in cases:
                pe = PEval(w)
                for q in preds:
                    pe.stubs[q] = case.get("pred", True)
                env = {nodep: {"__obj__": True, "content": case["c"], "_content": case["c"], "name": "n", "_name": "n", "children": [], "_children": []},
                       mps[fi.qname]: None}
                for x in fi.params:
                    if x not in env and x != fi.params[0] or (x not in env and not fi.bound):
                        env.setdefault(x, ["a", "b"] if "enum" in x else False)
                try:
                    v = guard_verdict(ctx, fi, p.if_node, env, pe)
                except PEvalUnsupported as ex:
                    rep.notes.append(f"{fi.qname}: guard of {code} not evaluated: {ex}")
                    break
                rep.count("checker verdict points")
                ok = v == want
                rep.oblige(("R6", fi.qname, code, repr(case)), ok, sample={"checker": fi.name, "content": case["c"], "predicate": case.get("pred"),
                                                                           "reports": v, "required": want})
                if not ok:
                    what = f"raises {v[1]}" if isinstance(v, tuple) else ("reported" if v else "accepted")
                    rep.add("R6", fi.qname, enclosing_ifs(fi, p.if_node)[-1][0].test if enclosing_ifs(fi, p.if_node) else p.append_call,
                            f"{code}: content {case['c']!r}" + (f" with the type predicate {'holding' if case.get('pred') else 'failing'}" if "pred" in case else "")
                            + f" is {what}; the constraint requires it to be {'reported' if want else 'accepted'}", fi.loc(p.if_node))
                    break
    rep.floor("checker verdict points", 20)


PARSERS = {"is_float": {"float"}, "is_int": {"int"}, "is_time": {"fromisoformat"}, "is_yeardate": {"strptime"},
           "is_uri": {"uri_reference", "validate", "URIReference", "from_string"}}


def rule_r7(ctx, rep):
    """a typed predicate decides by its parser alone: the value parameter is only type-tested, truth-tested, logged and
    handed to the designated parser; any other look at it (a regular expression, a string method, a length or character
    test, a comparison) narrows or widens the accepted lexical space relative to the parser the constraint is defined by"""
    prog = ctx.prog
    for pname, parsers in sorted(PARSERS.items()):
        fi = rule_method(prog, pname)
        rep.touch(fi)
        if not fi.params:
            continue
        vp = fi.params[0]
        # locals that carry the value on (v = val.strip() would already be a violation, v = val is an alias)
        carriers = {vp}
        for n in ast.walk(fi.node):
            if isinstance(n, ast.Assign) and isinstance(n.value, ast.Name) and n.value.id in carriers:
                for t in n.targets:
                    if isinstance(t, ast.Name):
                        carriers.add(t.id)
        parents = {}
        for n in ast.walk(fi.node):
            for c in ast.iter_child_nodes(n):
                parents[id(c)] = n
        for n in ast.walk(fi.node):
            if not (isinstance(n, ast.Name) and n.id in carriers and isinstance(n.ctx, ast.Load)):
                continue
            rep.count("uses of the value in typed predicates")
            par = parents.get(id(n))
            ok, what = False, norm(par) if par is not None else norm(n)
            if isinstance(par, ast.Call):
                fn = par.func
                fname = fn.id if isinstance(fn, ast.Name) else fn.attr if isinstance(fn, ast.Attribute) else ""
                is_arg = any(a is n for a in par.args) or any(k.value is n for k in par.keywords)
                if is_arg and (fname in parsers or fname in ("type", "isinstance", "str", "repr") or fname in ("debug", "info", "warning", "error", "exception")):
                    ok = True
            elif isinstance(par, (ast.If, ast.While, ast.IfExp)) and par.test is n:
                ok = True
            elif isinstance(par, ast.BoolOp) or (isinstance(par, ast.UnaryOp) and isinstance(par.op, ast.Not)):
                ok = True
            elif isinstance(par, ast.Compare):
                others = [par.left] + list(par.comparators)
                ok = all(o is n or (isinstance(o, ast.Constant) and o.value is None) for o in others) and all(isinstance(o, (ast.Is, ast.IsNot)) for o in par.ops)
            elif isinstance(par, (ast.FormattedValue, ast.JoinedStr)):
                ok = True
            elif isinstance(par, ast.Assign) and par.value is n:
                ok = True
            elif isinstance(par, ast.Return) and False:
                ok = False
            rep.oblige(("R7", pname, what[:60]), ok)
            if not ok:
                rep.add("R7", fi.qname, par if par is not None else n, f"{pname} looks at the value other than through its parser "
                        f"({'/'.join(sorted(parsers))}), a type test or a truth test: the accepted lexical space is no longer the parser's "
                        f"(values the parser accepts are rejected, or the other way round)", fi.loc(n))
    rep.floor("uses of the value in typed predicates", 10)


TYPED_ARMS = {"floatContent": "1.5", "floatRangeContent_EW": "1.5", "floatRangeContent_NS": "1.5", "floatContent_Nonnegative": "1.5", "intContent": "15",
              "timeContent": "10:30:00", "uriContent": "http://a.b/c", "yearDateContent": "2020"}


def rule_r8(ctx, rep):
    """the decision of a whole typed arm, as the dispatch calls it, over {predicate holds, fails} x {fail-fast, collecting}: text that
    is not of the type is rejected (a rule error raised / the error list grows), a canonical in-range value is accepted.  This ties
    the ranged checkers to the type check they delegate to: a ranged arm that only tests the range of what parses accepts `abc`."""
    prog = ctx.prog
    w = ctx.world
    fi, loop, var, arms, fall = content_dispatch(prog)
    h = ctx.hier
    preds = {m.qname for m in prog.cls(RULE_Q).methods.values() if m.kind == "static" and m.name.startswith("is_")}
    mp = mode_params(ctx, reachable(ctx, [fi])).get(fi.qname)
    nodep = next((x for x in fi.params if w.types(fi).env.get(x) == "Node"), None)
    if mp is None or nodep is None:
        raise AnalysisError("anchor vanished: mode / node parameter of Rule._validate_content")
    for name, good in sorted(TYPED_ARMS.items()):
        if name not in arms:
            continue
        for (content, holds, want_reject) in ((good, True, False), ("abc", False, True)):
            for mode in ("ff", "collect"):
                pe = PEval(w)
                for q in preds:
                    pe.stubs[q] = holds
                errs = None if mode == "ff" else []
                env = {nodep: {"__obj__": True, "content": content, "_content": content, "name": "n", "_name": "n", "children": [], "_children": []},
                       mp: errs, var: name}
                if fi.bound:
                    env[fi.params[0]] = {"__obj__": True}
                for x in fi.params:
                    env.setdefault(x, False)
                try:
                    pe.block(arms[name], env, fi, 0)
                    got = bool(errs)
                    how = "reported" if got else "accepted"
                except Raised as r:
                    cls = r.cls or ""
                    if h.issub(cls, RULE_ERR):
                        got, how = True, "rejected"
                    else:
                        continue  # an escaping non-rule exception is R2's finding, not a decision of the arm
                except PEvalUnsupported as ex:
                    rep.notes.append(f"arm '{name}' not folded for content {content!r}: {ex}")
                    continue
                except Exception as ex:  # loop-control signals of the folder (continue / break arms)
                    if type(ex).__name__ in ("_Cnt", "_Brk", "_Ret"):
                        got, how = bool(errs), ("reported" if errs else "accepted")
                    else:
                        raise
                rep.count("typed arm verdicts")
                ok = got == want_reject
                rep.oblige(("R8", name, content, mode), ok, sample={"arm": name, "content": content, "type predicate": holds, "mode": mode, "outcome": how})
                if not ok:
                    rep.add("R8", fi.qname, f"arm '{name}'", f"content {content!r} ({'of' if holds else 'not of'} the type) is {how} by the '{name}' arm in "
                            f"{'fail-fast' if mode == 'ff' else 'collecting'} mode; the constraint requires it to be {'rejected' if want_reject else 'accepted'}",
                            fi.loc(arms[name][0]))
    rep.floor("typed arm verdicts", 16)


def run(ctx, rep):
    rep.explanation = (
        "dispatch exhaustiveness against rules.json and kind agreement of every arm with its checker (parse primitive + error "
        "code, format/scheme constants folded); escape analysis of _validate_content and the typed predicates in both modes; "
        "every error/warning code reference names a declared member; the reject conditions of the ranged kinds and of the "
        "non-empty check evaluated over an abstract domain (boundaries, +-inf, NaN; content x children x flag) with interval "
        "constants propagated from the dispatch arm")
    rep.rules_run = ["R1", "R2", "R3", "R4", "R5", "R6", "R7", "R8"]
    rep.assumptions += [
        "NOT decided: the lexical acceptance of float(), int(), strptime, time.fromisoformat and rfc3986 (library semantics)",
        "R4 evaluates the guard conditions, not the parsers: a value is represented by the float it parses to",
    ]
    only = getattr(rep, "only", None)
    for name, fn in (("R1", rule_r1), ("R2", rule_r2), ("R3", rule_r3), ("R4", rule_r4), ("R5", rule_r5), ("R6", rule_r6), ("R7", rule_r7), ("R8", rule_r8)):
        if only in (None, name):
            fn(ctx, rep)
