"""C18 -- structural equality compares whole trees: field coverage (R1), the
child loop is universal (R2), dict comparisons are symmetric (R3), and every
early-exit guard is evaluated on equal / different values (R4)."""
from __future__ import annotations

import ast

from ..condeval import eval_at
from ..model import AnalysisError, norm
from ..peval import PEvalUnsupported
from ..types import NODE_Q

EXCLUDED = {"_id", "_parent"}


def _field_of(nm, e, params):
    """(param, field) when e is <param>.<field/property>"""
    if isinstance(e, ast.Attribute) and isinstance(e.value, ast.Name) and e.value.id in params:
        f = nm.canon(e.attr)
        if f is not None:
            return e.value.id, f
    return None


# R1-R5 read the shape of is_equal (which fields, which loop, which dict idiom, which guards); R6 folds it over every way two trees can differ
FOLDS = {"R6": {"count": "equality verdicts", "min": 80, "about": ("is_equal",)}}
SUBORDINATE = {"R1": "R6", "R2": "R6", "R3": "R6", "R4": "R6", "R5": "R6"}


def run(ctx, rep):
    rep.explanation = (
        "Node.is_equal: every state field except id and parent is compared on both arguments (derived field set); every return "
        "inside the child loop is a constant False conditional on the recursive comparison of the pair at the same index, and "
        "True is reachable only after the loop; each dict field is compared symmetrically (length + key-wise, or ==); every "
        "early-exit guard is evaluated on equal and on different field values")
    rep.rules_run = ["R1", "R2", "R3", "R4", "R5", "R6"]
    prog = ctx.prog
    w = ctx.world
    nm = w.nm
    fi = prog.func(NODE_Q + ".is_equal")
    rep.touch(fi)
    params = fi.params[:2]
    if len(params) != 2:
        raise AnalysisError("anchor vanished: Node.is_equal(node1, node2)")
    p1, p2 = params
    # ---- R1 coverage
    seen = {p1: set(), p2: set()}
    for n in ast.walk(fi.node):
        r = _field_of(nm, n, params)
        if r:
            seen[r[0]].add(r[1])
    for f in nm.fields:
        if f in EXCLUDED:
            continue
        rep.count("state fields to compare")
        ok = f in seen[p1] and f in seen[p2]
        rep.oblige(("R1", f), ok, sample={"field": f, "read on both arguments": ok})
        if not ok:
            rep.add("R1", fi.qname, f"field {f}", f"is_equal never compares {f}: two trees differing only there compare equal", fi.loc())
    rep.floor("state fields to compare", 8, rule="R1")
    # ---- R2 child loop
    rec = [n for n in ast.walk(fi.node) if isinstance(n, ast.Call) and any(tg.func is not None and tg.func.qname == fi.qname
                                                                            for tg in w.resolve_call(w.types(fi), n))]
    rep.count("recursive comparisons", len(rec))
    if not rec:
        rep.add("R2", fi.qname, "recursive comparison", "children are not compared recursively", fi.loc())
    loops = [n for n in ast.walk(fi.node) if isinstance(n, (ast.For, ast.While)) and any(any(x is r for x in ast.walk(n)) for r in rec)]
    gens = [n for n in ast.walk(fi.node) if isinstance(n, (ast.GeneratorExp, ast.ListComp)) and any(any(x is r for x in ast.walk(n)) for r in rec)]
    for lp in loops:
        rep.count("child loops")
        for n in ast.walk(lp):
            if isinstance(n, ast.Return):
                rep.count("returns inside the child loop")
                ok = isinstance(n.value, ast.Constant) and n.value.value is False
                rep.oblige(("R2", "const-false", norm(n)), ok)
                if not ok:
                    rep.add("R2", fi.qname, n, "a return inside the loop over the children is not a constant False: the comparison stops at "
                            "the first pair, so trees that differ in a later child compare equal", fi.loc(n))
                else:
                    # must be conditional on the recursive comparison
                    from ..condeval import enclosing_ifs
                    gs = [g for (g, b) in enclosing_ifs(fi, n) if any(x is g for x in ast.walk(lp))]
                    ok2 = any(any(x is r for x in ast.walk(g.test)) for g in gs for r in rec) or _flag_from_rec(fi, lp, gs, rec)
                    rep.oblige(("R2", "conditional", norm(n)), ok2)
                    if not ok2:
                        rep.add("R2", fi.qname, n, "an early False inside the child loop does not depend on the recursive comparison", fi.loc(n))
            if isinstance(n, (ast.Break,)):
                rep.add("R2", fi.qname, n, "the child loop is left early without a verdict on the remaining children", fi.loc(n))
        # same index on both sides
        for r in rec:
            if not any(x is r for x in ast.walk(lp)):
                continue
            ok = _same_index(fi, lp, r, nm, p1, p2)
            rep.oblige(("R2", "same-index", norm(r)), ok)
            if not ok:
                rep.add("R2", fi.qname, r, "the recursive comparison does not pair the children at the same position of both lists", fi.loc(r))
        # the loop ranges over all children
        if isinstance(lp, ast.For):
            it = norm(lp.iter).replace("_children", "children")
            ok = it in (f"range(len({p1}.children))", f"range(len({p2}.children))", f"zip({p1}.children, {p2}.children)", f"zip({p2}.children, {p1}.children)",
                        f"range(0, len({p1}.children))", f"enumerate({p1}.children)", f"enumerate({p2}.children)")
            rep.oblige(("R2", "range", it), ok)
            if not ok:
                rep.add("R2", fi.qname, lp.iter, "the child loop does not range over every child position", fi.loc(lp))
    for g in gens:
        rep.count("child loops")
        it = norm(g.generators[0].iter).replace("_children", "children")
        ok = it in (f"zip({p1}.children, {p2}.children)", f"zip({p2}.children, {p1}.children)") and not g.generators[0].ifs
        rep.oblige(("R2", "gen", it), ok)
        if not ok:
            rep.add("R2", fi.qname, g, "the children are not compared pairwise over both full lists", fi.loc(g))
    if rec and not loops and not gens:
        rep.add("R2", fi.qname, rec[0], "the recursive comparison is not inside a loop over the children", fi.loc(rec[0]))
    # length of the child lists compared
    len_cmp = any(isinstance(n, ast.Compare) and f"len({p1}.children)" in norm(n).replace("_children", "children")
                  and f"len({p2}.children)" in norm(n).replace("_children", "children") for n in ast.walk(fi.node))
    rep.oblige(("R2", "child-count"), len_cmp)
    if not len_cmp:
        rep.add("R2", fi.qname, "len(children)", "the numbers of children are not compared: a prefix of the other child list compares equal", fi.loc())
    rep.floor("recursive comparisons", 1, rule="R2")
    # ---- R3 dict symmetry
    for f, kind in nm.containers.items():
        if kind != "dict":
            continue
        rep.count("dict fields")
        prop = nm.field_prop.get(f, f)
        names = {f"{p}.{x}" for p in params for x in (f, prop)}
        direct = any(isinstance(n, ast.Compare) and isinstance(n.ops[0], (ast.Eq, ast.NotEq)) and norm(n.left) in names and norm(n.comparators[0]) in names
                     and norm(n.left).split(".")[0] != norm(n.comparators[0]).split(".")[0] for n in ast.walk(fi.node))
        length = any(isinstance(n, ast.Compare) and all(any(f"len({p}.{x})" in norm(n) for x in (f, prop)) for p in params) for n in ast.walk(fi.node))
        keywise = any(isinstance(n, ast.For) and norm(n.iter).replace(".keys()", "").replace(".items()", "") in names for n in ast.walk(fi.node))
        via_helper = False
        for c in ast.walk(fi.node):
            if isinstance(c, ast.Call) and len(c.args) == 2 and {norm(a) for a in c.args} <= names and norm(c.args[0]).split(".")[0] != norm(c.args[1]).split(".")[0]:
                for tg in w.resolve_call(w.types(fi), c):
                    H = tg.func
                    if H is None or H.qname == fi.qname:
                        continue
                    hp = [x for x in H.params if x not in ("self", "cls")][:2]
                    if len(hp) != 2:
                        continue
                    a, b = hp
                    h_direct = any(isinstance(n, ast.Compare) and isinstance(n.ops[0], (ast.Eq, ast.NotEq)) and {norm(n.left), norm(n.comparators[0])} == {a, b}
                                   for n in ast.walk(H.node))
                    h_len = any(isinstance(n, ast.Compare) and f"len({a})" in norm(n) and f"len({b})" in norm(n) for n in ast.walk(H.node))
                    h_key = any(isinstance(n, ast.For) and norm(n.iter).replace(".keys()", "").replace(".items()", "") in (a, b) for n in ast.walk(H.node))
                    # a lookup that cannot tell a missing key from a None value is not a comparison of the key sets
                    h_get = any(isinstance(n, ast.Call) and isinstance(n.func, ast.Attribute) and n.func.attr == "get" and norm(n.func.value) in (a, b)
                                for n in ast.walk(H.node))
                    if h_direct or (h_len and h_key and not h_get):
                        via_helper = True
                        rep.touch(H)
        # a lookup that cannot tell a missing key from a None value is not a comparison of the key sets
        get_used = any(isinstance(n, ast.Call) and isinstance(n.func, ast.Attribute) and n.func.attr == "get" and norm(n.func.value) in names for n in ast.walk(fi.node))
        ok = direct or (length and keywise and not get_used) or via_helper
        rep.oblige(("R3", f), ok, sample={"dict field": f, "compared by": "==" if direct else "length + key-wise" if ok else "one-sided"})
        if not ok:
            rep.add("R3", fi.qname, f"comparison of {prop}", f"{prop} is compared one-sidedly (key-wise without the length test, through a .get() lookup that cannot tell a missing key from a None value, or not at all): "
                    f"the answer is not symmetric", fi.loc())
    # ---- R4 guards evaluated on equal / different values
    for n in ast.walk(fi.node):
        if not isinstance(n, ast.If):
            continue
        body_false = len(n.body) == 1 and isinstance(n.body[0], ast.Return) and isinstance(n.body[0].value, ast.Constant) and n.body[0].value.value is False
        if not body_false:
            continue
        fields = set()
        for x in ast.walk(n.test):
            r = _field_of(nm, x, params)
            if r:
                fields.add(r[1])
        if len(fields) != 1 or any(isinstance(x, ast.Subscript) for x in ast.walk(n.test)):
            continue
        f = fields.pop()
        if f == "_children":
            vals = [(["a"], ["a"], False), (["a"], ["a", "b"], True), ([], ["a"], True)]
        elif f in nm.containers:
            vals = [({"k": "v"}, {"k": "v"}, False), ({"k": "v"}, {"k": "v", "j": "w"}, True), ({}, {"k": "v"}, True)]
        else:
            vals = [("a", "a", False), ("a", "b", True), (None, "a", True), (None, None, False), (None, "", True), ("", None, True), ("", "", False)]
        prop = nm.field_prop.get(f, f)
        for (v1, v2, want) in vals:
            env = {p1: {"__obj__": True, f: v1, prop: v1}, p2: {"__obj__": True, f: v2, prop: v2}}
            try:
                res = eval_at(ctx, fi, n.test, env)
            except PEvalUnsupported:
                break
            rep.count("guard verdicts")
            ok = res == ("value", want)
            rep.oblige(("R4", f, repr(v1), repr(v2)), ok)
            if not ok:
                rep.add("R4", fi.qname, n.test, f"with {prop} = {v1!r} / {v2!r} the guard {'rejects' if res[1] is True else 'raises ' + str(res[1]) if res[0] == 'raises' else 'does not reject'}; "
                        f"it must reject exactly when the two values differ", fi.loc(n))
                break
    # ---- R5 every field is compared on every path that answers True (no flag or state can switch a comparison off)
    from ..marks import MarkDomain, must_at, run_marks
    md = MarkDomain()
    for n in ast.walk(fi.node):
        if isinstance(n, ast.Compare):
            fs = {}
            for x in ast.walk(n):
                r = _field_of(nm, x, params)
                if r:
                    fs.setdefault(r[1], set()).add(r[0])
            for f, who in fs.items():
                if who == {p1, p2}:
                    md.mark(n, f"CMP:{f}")
        elif isinstance(n, ast.Call) and len(n.args) >= 2:
            # a comparison helper / zip over the two child lists / the recursive call compares what it is handed of both
            fs = {}
            for a in n.args[:2]:
                for x in ast.walk(a):
                    r = _field_of(nm, x, params)
                    if r:
                        fs.setdefault(r[1], set()).add(r[0])
            for f, who in fs.items():
                if who == {p1, p2}:
                    md.mark(n, f"CMP:{f}")
    trues = [n for n in ast.walk(fi.node) if isinstance(n, ast.Return) and isinstance(n.value, ast.Constant) and n.value.value is True]
    for t in trues:
        md.probe(t)
    run_marks(ctx, fi, md)
    same_obj = set()
    from ..condeval import enclosing_ifs as _eifs
    for t in trues:
        # the identity shortcut at the top (`if node1 is node2: return True`) is outside the property (distinct trees)
        gs = _eifs(fi, t)
        if gs and any(isinstance(g.test, ast.Compare) and (isinstance(g.test.ops[0], ast.Is) or "id(" in norm(g.test)) and b for g, b in gs):
            continue
        must = must_at(md, t)
        if must is None:
            continue
        rep.count("paths answering True")
        for f in nm.fields:
            if f in EXCLUDED:
                continue
            ok = f"CMP:{f}" in must
            rep.oblige(("R5", f, getattr(t, "lineno", 0)), ok)
            if not ok:
                rep.add("R5", fi.qname, t, f"is_equal can answer True on a path that never compares {f} of the two nodes (the comparison is switched off by a "
                        f"flag or a condition): trees that differ there compare equal, and not symmetrically", fi.loc(t))
    rep.floor("guard verdicts", 12, rule="R4")
    rep.floor("dict fields", 3, rule="R3")
    _verdict_worlds(ctx, rep, fi)


def _verdict_worlds(ctx, rep, fi):
    """R6: is_equal touches the two trees through ==, !=, len, key look-ups and indexing only, so its answer is a function of
    which fields agree.  It is folded over pairs of abstract nodes: all fields equal (must answer true), and, for every field,
    equal but for that field in each way two values of its kind can differ (must answer false) -- in both argument orders, at
    the root and one level down."""
    from ..peval import PEval, PEvalUnsupported, Raised
    import copy as _c

    def mk(name="a", content="c", tail="t", attributes=None, nsmap=None, prefix="p", extras=None, children=None):
        attributes = {"k": "v", "k2": "v2"} if attributes is None else attributes
        nsmap = {"p": "u", "q": "u2"} if nsmap is None else nsmap
        extras = {"{u}x": "1", "{u}y": "2"} if extras is None else extras
        children = [] if children is None else children
        d = {"__obj__": True, "id": object(), "parent": None}
        for k, v in (("name", name), ("content", content), ("tail", tail), ("attributes", attributes), ("nsmap", nsmap), ("prefix", prefix),
                     ("extras", extras), ("children", children)):
            d[k] = v
            d["_" + k] = v
        d["_id"] = d["id"]
        d["_parent"] = None
        for c in children:
            c["parent"] = c["_parent"] = d
        return d

    def kids(*names, **kw):
        return [mk(name=n, **kw) for n in names]
    variants = [("all fields equal", {}, {}, True)]
    for f, (a, b) in {"name": ("a", "b"), "content": ("c", "d"), "tail": ("t", "u"), "prefix": ("p", "q")}.items():
        variants.append((f"{f} differs", {f: a}, {f: b}, False))
        variants.append((f"{f} None vs text", {f: a}, {f: None}, False))
    for f, base in (("attributes", {"k": "v", "k2": "v2"}), ("nsmap", {"p": "u", "q": "u2"}), ("extras", {"{u}x": "1", "{u}y": "2"})):
        ks = list(base)
        variants.append((f"{f}: same keys, one value differs", {f: dict(base)}, {f: {ks[0]: base[ks[0]], ks[1]: "other"}}, False))
        variants.append((f"{f}: same size, one key differs", {f: dict(base)}, {f: {ks[0]: base[ks[0]], "zz": base[ks[1]]}}, False))
        variants.append((f"{f}: one entry more", {f: dict(base)}, {f: dict(base, extra="e")}, False))
        variants.append((f"{f}: empty vs one entry", {f: {}}, {f: {ks[0]: base[ks[0]]}}, False))
    for f, base in (("attributes", {"k": "v", "k2": "v2"}), ("nsmap", {"p": "u", "q": "u2"}), ("extras", {"{u}x": "1", "{u}y": "2"})):
        ks = list(base)
        # a None value under a key the other side does not have: a `.get()` look-up cannot tell the two apart
        variants.append((f"{f}: same size, the differing key carries None", {f: {ks[0]: base[ks[0]], "only-here": None}}, {f: {ks[0]: base[ks[0]], "only-there": None}}, False))
        variants.append((f"{f}: same size, a None value against a missing key", {f: {ks[0]: base[ks[0]], "n": None}}, {f: {ks[0]: base[ks[0]], "other": "x"}}, False))
    variants.append(("content None against the empty string", {"content": None}, {"content": ""}, False))
    variants.append(("tail None against the empty string", {"tail": None}, {"tail": ""}, False))
    variants.append(("grandchild tail None against the empty string", {"children": [mk(name="x", children=kids("g", tail=None))]},
                     {"children": [mk(name="x", children=kids("g", tail=""))]}, False))
    variants.append(("children: one more", {"children": kids("x", "y")}, {"children": kids("x", "y", "z")}, False))
    variants.append(("children: none vs one", {"children": []}, {"children": kids("x")}, False))
    variants.append(("children: first differs", {"children": kids("x", "y", "z")}, {"children": kids("w", "y", "z")}, False))
    variants.append(("children: last differs", {"children": kids("x", "y", "z")}, {"children": kids("x", "y", "w")}, False))
    variants.append(("children: same names, other order", {"children": kids("x", "y")}, {"children": kids("y", "x")}, False))
    variants.append(("children: equal lists", {"children": kids("x", "y")}, {"children": kids("x", "y")}, True))
    variants.append(("grandchild content differs", {"children": [mk(name="x", children=kids("g"))]},
                     {"children": [mk(name="x", children=kids("g", content="other"))]}, False))
    variants.append(("grandchild attribute differs", {"children": [mk(name="x", children=kids("g"))]},
                     {"children": [mk(name="x", children=kids("g", attributes={"k": "v", "k2": "zz"}))]}, False))
    def same_ids(n1, n2):
        # two distinct trees that carry the same node ids (a saved tree loaded twice)
        def walk(a, b):
            a["id"] = a["_id"] = b["id"] = b["_id"] = "id-" + a["name"]
            for x, y in zip(a["children"], b["children"]):
                walk(x, y)
        walk(n1, n2)

    def share_maps(n1, n2):
        # in the first tree every child shares its parent's map *object* (attached before the namespace was declared); the second differs below the root
        for c in n1["children"]:
            c["nsmap"] = c["_nsmap"] = n1["nsmap"]
    special = [("equal trees carrying the same node ids", {"children": kids("x", "y")}, {"children": kids("x", "y")}, True, same_ids),
               ("a child's nsmap differs while the first tree's child shares its parent's map object", {"children": kids("x")},
                {"children": kids("x", nsmap={"p": "u", "q": "OTHER"})}, False, share_maps)]
    for item in [v + (None,) for v in variants] + special:
        what, ka, kb, want, prep = item
        for swap in (False, True):
            n1, n2 = mk(**_c.deepcopy(ka)), mk(**_c.deepcopy(kb))
            if prep is not None:
                prep(n1, n2)
            if swap:
                n1, n2 = n2, n1
            pe = PEval(ctx.world)
            try:
                got = pe.call(fi, [n1, n2])
                if hasattr(got, "__class__") and got.__class__.__name__ == "Opaque":
                    raise PEvalUnsupported("opaque answer")
                got_b, how = bool(got), repr(got)
            except Raised as r:
                got_b, how = None, f"raises {r.cls}"
            except PEvalUnsupported as ex:
                rep.notes.append(f"is_equal not folded for '{what}': {ex}")
                continue
            rep.count("equality verdicts")
            ok = got_b is not None and got_b == want
            rep.oblige(("R6", what, swap), ok, sample={"pair": what, "swapped": swap, "answer": how, "required": want})
            if not ok:
                rep.add("R6", fi.qname, what, f"two trees with {what}{' (arguments swapped)' if swap else ''}: is_equal answers {how}; "
                        f"structural equality requires {want}", fi.loc())
                break
    # no floor: a form of is_equal the folder cannot follow leaves R6 undecided (noted in the evidence) and R1-R5 in charge


def _flag_from_rec(fi, lp, gs, rec):
    return False


def _same_index(fi, lp, r, nm, p1, p2):
    args = r.args
    if len(args) != 2:
        return False
    if isinstance(lp, ast.For) and isinstance(lp.iter, ast.Call) and isinstance(lp.iter.func, ast.Name) and lp.iter.func.id == "zip":
        t = lp.target
        return isinstance(t, ast.Tuple) and len(t.elts) == 2 and {norm(a) for a in args} == {norm(x) for x in t.elts}

    def resolve(a):
        # a local assigned from <param>.children[idx]
        if isinstance(a, ast.Name):
            for n in ast.walk(lp):
                if isinstance(n, ast.Assign) and any(isinstance(t, ast.Name) and t.id == a.id for t in n.targets):
                    return n.value
        return a
    ra, rb = resolve(args[0]), resolve(args[1])
    if all(isinstance(x, ast.Subscript) and isinstance(x.value, ast.Attribute) and nm.canon(x.value.attr) == "_children" for x in (ra, rb)):
        owners = {norm(ra.value.value), norm(rb.value.value)}
        return owners == {p1, p2} and norm(ra.slice) == norm(rb.slice)
    return False
