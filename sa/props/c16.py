"""C16 -- reference expansion substitutes independent copies, atomically (partial):
atomic failure (R1), in place and in order (R2), copies not originals (R3),
every reference replaced and unregistered (R4)."""
from __future__ import annotations

import ast

from .. import prereq
from ..exc import resolve_exc_class
from ..marks import MarkDomain, may_at, must_at, run_marks
from ..model import AnalysisError, norm
from ..types import NODE_Q, T_NODE, T_OPT
from .c11 import get_effects
from .c14 import _path, _resolves_to, delete_sites, discard_sites
from .c15 import live_iteration_problems

EXPAND = "metapype.eml.references.expand"


def _model_writes(ctx, fi):
    """calls in fi that change the tree or the registry"""
    eff = get_effects(ctx)
    w = ctx.world
    ft = w.types(fi)
    out = []
    for n in ast.walk(fi.node):
        if isinstance(n, ast.Call):
            for tg in w.resolve_call(ft, n):
                if tg.func is None:
                    continue
                es = eff.effects(tg.func)
                if tg.kind == "class":
                    continue
                if any(e.kind in ("W", "M", "S") for e in es) and not (tg.func.name == "copy" and tg.func.cls is not None and tg.func.cls.qname == NODE_Q):
                    out.append(n)
    return out


def rule_r1(ctx, rep):
    eng = prereq.engine(ctx)
    h = ctx.hier
    prog = ctx.prog
    fi = prog.func(EXPAND)
    rep.touch(fi)
    s = eng.entry(fi, frozenset())
    writes = _model_writes(ctx, fi)
    rep.count("model writes in expand", len(writes))
    md = MarkDomain()
    for wn in writes:
        md.mark(wn, "WROTE")
    sites = {}
    for key, esc in s.escapes.items():
        sites.setdefault(esc.site, []).append(esc)
    probes = []
    for n in ast.walk(fi.node):
        t = None
        if isinstance(n, ast.Raise) and n.exc is not None:
            cls = resolve_exc_class(prog, fi.module, n.exc)
            t = f"raise {h.short(cls)}" if cls else None
        elif isinstance(n, ast.expr):
            t = norm(n)
        if t in sites:
            probes.append((n, t))
            md.probe(n)
    run_marks(ctx, fi, md)
    for (n, t) in probes:
        may = may_at(md, n)
        if may is None:
            continue
        rep.count("failure points of expand")
        ok = "WROTE" not in may
        e = sites[t][0]
        rep.oblige(("R1", t), ok, sample={"may fail at": t, "with": h.short(e.cls), "reachable after a tree write": not ok})
        if not ok:
            rep.add("R1", fi.qname, t, f"{h.short(e.cls)} can be raised here after earlier references have already been expanded "
                    f"(loop back edge included): a failing expansion must leave the tree as it was", fi.loc(n))
    for key, esc in s.escapes.items():
        ok = esc.cls == "ValueError" and esc.origin[2] == "raise"
        rep.oblige(("R1", "class", esc.cls, esc.origin[:2]), ok)
        if not ok:
            rep.add("R1", esc.origin[0], esc.origin[1], f"{h.short(esc.cls)} may escape expand; only the documented ValueError (duplicate id, "
                    f"dangling reference) may: {esc.origin[2]}", esc.loc)
    rep.assumed_total |= eng.assumed_total
    rep.floor("model writes in expand", 2)
    rep.floor("failure points of expand", 2)


def rule_r2_r3_r4(ctx, rep):
    prog = ctx.prog
    w = ctx.world
    nm = w.nm
    fi = prog.func(EXPAND)
    ft = w.types(fi)
    adds = []
    for n in ast.walk(fi.node):
        if isinstance(n, ast.Call):
            tg = _resolves_to(ctx, fi, n, NODE_Q + ".add_child")
            if tg:
                adds.append((n, w.arg_map(tg, n), tg))
    if not adds:
        raise AnalysisError("anchor vanished: add_child in references.expand")
    discards = discard_sites(ctx, fi)
    if not discards:
        rep.add("R4", fi.qname, "remove_child(reference)", "the references node is never removed from its parent", fi.loc())
        return
    rm_call, refvar, _how = discards[0]
    rm_tg = _resolves_to(ctx, fi, rm_call, NODE_Q + ".remove_child")
    parent_expr = rm_tg.bound_recv
    for (call, am, tg) in adds:
        rep.count("insertions of copies")
        child = am.get("child")
        idx = am.get("index")
        # ---- R3: what is attached is a copy of a child of the referenced element
        def is_copy(e):
            if isinstance(e, ast.Call) and isinstance(e.func, ast.Attribute) and e.func.attr == "copy" and not e.args and ft.type_of(e.func.value) in (T_NODE, T_OPT):
                return True
            if isinstance(e, ast.Name):
                defs = [x.value for x in ast.walk(fi.node) if isinstance(x, ast.Assign) and any(isinstance(t, ast.Name) and t.id == e.id for t in x.targets)]
                return bool(defs) and all(is_copy(d) for d in defs)
            return False
        ok = child is not None and is_copy(child)
        rep.oblige(("R3", norm(call)), ok)
        if not ok:
            rep.add("R3", fi.qname, call, "what is attached in place of the reference is not a deep copy of the referenced element's child: the "
                    "referenced element is changed (its child moves) or shares nodes with the expansion", fi.loc(call))
        # ---- R2: inserted at the position of the references node
        if idx is None:
            rep.oblige(("R2", norm(call)), False)
            rep.add("R2", fi.qname, call, "the copies are appended at the end of the parent instead of being put in the place of the references "
                    "node: siblings that followed it now precede the expansion (a valid tree can become invalid)", fi.loc(call))
            continue
        base = idx
        offset_var = None
        if isinstance(idx, ast.BinOp) and isinstance(idx.op, ast.Add):
            base, offset_var = idx.left, idx.right
        if not isinstance(base, ast.Name):
            rep.oblige(("R2", norm(call)), False)
            rep.add("R2", fi.qname, call, f"cannot relate the insertion index `{norm(idx)}` to the position of the references node", fi.loc(call))
            continue
        v = base.id
        enum_adv = False
        for lp_ in ast.walk(fi.node):
            if isinstance(lp_, ast.For) and isinstance(lp_.iter, ast.Call) and isinstance(lp_.iter.func, ast.Name) and lp_.iter.func.id == "enumerate" \
                    and isinstance(lp_.target, ast.Tuple) and lp_.target.elts and isinstance(lp_.target.elts[0], ast.Name) and lp_.target.elts[0].id == v \
                    and any(x is call for x in ast.walk(lp_)):
                start = lp_.iter.args[1] if len(lp_.iter.args) > 1 else next((k.value for k in lp_.iter.keywords if k.arg == "start"), None)
                if isinstance(start, ast.Name):
                    v = start.id  # the counter starts at this variable and advances by one per element
                    enum_adv = True
        defs = [x for x in ast.walk(fi.node) if isinstance(x, ast.Assign) and any(isinstance(t, ast.Name) and t.id == v for t in x.targets)]
        pos_defs = []
        for d in defs:
            val = d.value
            if isinstance(val, ast.Call) and isinstance(val.func, ast.Attribute) and val.func.attr in ("index", "child_index") and val.args \
                    and _path(val.args[0]) == refvar:
                pos_defs.append(d)
        ok_def = bool(pos_defs) and len(pos_defs) == len(defs)
        md = MarkDomain()
        for d in pos_defs:
            md.mark(d, "IDX")
        md.mark(rm_call, "REMOVED")
        md.probe(rm_call)
        for d in pos_defs:
            md.probe(d)
        md.probe(call)
        run_marks(ctx, fi, md)
        before = "IDX" in (must_at(md, rm_call) or frozenset())
        at_call = "IDX" in (must_at(md, call) or frozenset())
        ok = ok_def and before and at_call
        rep.oblige(("R2", "position", norm(call)), ok, sample={"insertion": norm(call), "index from": norm(pos_defs[0]) if pos_defs else None,
                                                                "taken before the removal": before})
        # ... and it is looked up in the round that uses it: a position computed before earlier references of the same parent were
        # expanded is stale (the child list has grown or shrunk since)
        mut_loops = [n for n in ast.walk(fi.node) if isinstance(n, ast.For) and any(x is rm_call for x in ast.walk(n))]
        fresh = all(any(any(x is d for x in ast.walk(lp_)) for d in pos_defs) for lp_ in mut_loops) if pos_defs else True
        rebound = any(isinstance(lp_, ast.For) and any(isinstance(x, ast.Name) and x.id == v for x in ast.walk(lp_.target)) and any(x is call for x in ast.walk(lp_))
                      and not enum_adv for lp_ in ast.walk(fi.node))
        if ok_def and (not fresh or rebound):
            rep.oblige(("R2", "fresh position", norm(call)), False)
            rep.add("R2", fi.qname, pos_defs[0], "the position of the references node is looked up before the loop that expands the references: when an "
                    "earlier reference of the same parent expands to a number of children other than one, the stored position is stale and the "
                    "copies land in the wrong place", fi.loc(pos_defs[0]))
        if not ok_def:
            rep.add("R2", fi.qname, call, f"the insertion index `{v}` is not the position of the references node in its parent", fi.loc(call))
        elif not before:
            rep.add("R2", fi.qname, pos_defs[0], "the position of the references node is looked up after it has been removed", fi.loc(pos_defs[0]))
        # advances by one per inserted copy
        loop = None
        for n in ast.walk(fi.node):
            if isinstance(n, ast.For) and any(x is call for x in ast.walk(n)):
                loop = n
        adv = enum_adv
        if loop is not None:
            if offset_var is not None and isinstance(loop.iter, ast.Call) and isinstance(loop.iter.func, ast.Name) and loop.iter.func.id == "enumerate" \
                    and isinstance(loop.target, ast.Tuple) and norm(loop.target.elts[0]) == norm(offset_var):
                adv = True
            seen_call = False
            for st in loop.body:
                if any(x is call for x in ast.walk(st)):
                    seen_call = isinstance(st, ast.Expr)
                    continue
                if seen_call and isinstance(st, ast.AugAssign) and isinstance(st.op, ast.Add) and norm(st.target) == v \
                        and isinstance(st.value, ast.Constant) and st.value.value == 1:
                    adv = True
                if seen_call and any(isinstance(x, (ast.Continue, ast.Break)) for x in ast.walk(st)) and not adv:
                    break
        rep.oblige(("R2", "advance", norm(call)), adv)
        if not adv:
            rep.add("R2", fi.qname, call, f"the insertion index does not advance by one per inserted copy: the copies end up in reverse order "
                    f"or interleaved", fi.loc(call))
    # ---- R3 (cont.): the copies go into the tree as they were copied: nothing expand calls on a copy, and no statement of
    # expand, writes a field of the copy (other than attaching it)
    from .c11 import get_effects as _ge
    eff_ = _ge(ctx)
    copy_vars = set()
    for n in ast.walk(fi.node):
        if isinstance(n, ast.Assign) and len(n.targets) == 1 and isinstance(n.targets[0], ast.Name) and isinstance(n.value, ast.Call) \
                and isinstance(n.value.func, ast.Attribute) and n.value.func.attr == "copy" and not n.value.args and ft.type_of(n.value.func.value) in (T_NODE, T_OPT):
            copy_vars.add(n.targets[0].id)
    # nodes below a copy (loop variables over its children) are part of the copy
    for _ in range(3):
        for n in ast.walk(fi.node):
            if isinstance(n, ast.For) and isinstance(n.target, ast.Name):
                b_ = n.iter
                while isinstance(b_, (ast.Attribute, ast.Subscript, ast.Call)):
                    b_ = b_.func.value if isinstance(b_, ast.Call) and isinstance(b_.func, ast.Attribute) else (b_.args[0] if isinstance(b_, ast.Call) and b_.args else getattr(b_, "value", None))
                    if b_ is None:
                        break
                if isinstance(b_, ast.Name) and b_.id in copy_vars:
                    copy_vars.add(n.target.id)
    from ..types import MUTATING_METHODS as _MM
    for n in ast.walk(fi.node):
        if isinstance(n, ast.Call) and isinstance(n.func, ast.Attribute) and n.func.attr in _MM:
            b_ = n.func.value
            depth_ = 0
            while isinstance(b_, (ast.Attribute, ast.Subscript)):
                b_, depth_ = b_.value, depth_ + 1
            if isinstance(b_, ast.Name) and b_.id in copy_vars and depth_ >= 1:
                rep.oblige(("R3", "untouched", norm(n)[:50]), False)
                rep.add("R3", fi.qname, n, "expand changes a container of a copy before attaching it: what takes the place of the references node is no longer a "
                        "copy of the referenced element's child", fi.loc(n))
    for n in ast.walk(fi.node):
        if isinstance(n, ast.Call):
            for tg in w.resolve_call(ft, n):
                H = tg.func
                if H is None or H.name in ("add_child", "copy") or tg.kind == "class":
                    continue
                am_ = w.arg_map(tg, n)
                hit = {p_ for p_, a_ in am_.items() if isinstance(a_, ast.Name) and a_.id in copy_vars}
                if not hit:
                    continue
                bad_e = [e for e in eff_.effects(H) if e.root in hit and e.kind in ("W", "M")]
                rep.oblige(("R3", "untouched", norm(n)[:50]), not bad_e)
                if bad_e:
                    e = bad_e[0]
                    rep.add("R3", fi.qname, n, f"expand hands a copy to {H.name}, which rewrites its {e.field} ({e.construct} at {e.loc}): what takes the place "
                            f"of the references node is no longer a copy of the referenced element's child", fi.loc(n))
        elif isinstance(n, (ast.Assign, ast.AugAssign)):
            for t in (n.targets if isinstance(n, ast.Assign) else [n.target]):
                b_ = t
                while isinstance(b_, (ast.Attribute, ast.Subscript)):
                    b_ = b_.value
                if isinstance(t, (ast.Attribute, ast.Subscript)) and isinstance(b_, ast.Name) and b_.id in copy_vars:
                    rep.oblige(("R3", "untouched", norm(n)[:50]), False)
                    rep.add("R3", fi.qname, n, "expand changes a copy before attaching it: what takes the place of the references node is no longer a copy of "
                            "the referenced element's child", fi.loc(n))
    # ---- R3: the referenced element is only read
    # (the effect summary of expand restricted to the source element: add_child's receiver must be the reference's parent)
    for (call, am, tg) in adds:
        recv = tg.bound_recv
        ok = recv is not None and parent_expr is not None and norm(recv) == norm(parent_expr)
        rep.oblige(("R3", "receiver", norm(call)), ok)
        if not ok:
            rep.add("R3", fi.qname, call, "the copies are not attached to the parent of the references node", fi.loc(call))
    # ---- R4: every collected reference is processed, removed and unregistered
    ref_loops = [n for n in ast.walk(fi.node) if isinstance(n, ast.For) and any(x is rm_call for x in ast.walk(n))]
    rep.count("expansion loops", len(ref_loops))
    for lp in ref_loops[:1]:
        bad = [x for x in ast.walk(lp) if isinstance(x, (ast.Break, ast.Return))]
        rep.oblige(("R4", "no-break"), not bad)
        if bad:
            rep.add("R4", fi.qname, bad[0], "the expansion loop is left early: later references stay in the tree", fi.loc(bad[0]))
        conds = []
        from ..condeval import enclosing_ifs
        for (g, b) in enclosing_ifs(fi, rm_call):
            if any(x is g for x in ast.walk(lp)):
                conds.append(g)
        rep.oblige(("R4", "unconditional"), not conds)
        if conds:
            rep.add("R4", fi.qname, conds[0].test, "a references node is replaced only under a condition: some references are left behind", fi.loc(conds[0]))
    dels = [d for (d, own, keep) in delete_sites(ctx, fi) if own == refvar]
    rep.oblige(("R4", "unregistered"), bool(dels))
    if not dels:
        rep.add("R4", fi.qname, rm_call, "the removed references node is not unregistered", fi.loc(rm_call))
    for lp in live_iteration_problems(ctx, fi):
        rep.add("R4", fi.qname, lp.iter, "a live child list is iterated while the loop body changes it", fi.loc(lp))
    # the collection of references covers the whole tree
    coll = [n for n in ast.walk(fi.node) if isinstance(n, ast.Call) and _resolves_to(ctx, fi, n, NODE_Q + ".find_all_descendants")]
    rep.count("reference collection", len(coll))
    ok = any(isinstance(c.func, ast.Attribute) and isinstance(c.func.value, ast.Name) and c.func.value.id == fi.params[0] and c.args
             and ctx.prog.const(fi.module, c.args[0]) == "references" for c in coll)
    rep.oblige(("R4", "collection"), ok)
    if not ok:
        rep.add("R4", fi.qname, "find_all_descendants(names.REFERENCES, ...)", "the references nodes are not collected from the whole tree", fi.loc())
    rep.floor("insertions of copies", 1)
    rep.floor("expansion loops", 1)


def rule_r5(ctx, rep):
    """an id used twice is reported: every key that enters the id register of _register_ids either enters an empty register or is
    tested against it first, the test raising ValueError"""
    prog = ctx.prog
    fi = prog.func("metapype.eml.references._register_ids")
    rep.touch(fi)
    rets = {norm(r.value) for r in ast.walk(fi.node) if isinstance(r, ast.Return) and r.value is not None}
    if len(rets) != 1:
        raise AnalysisError("_register_ids: cannot single out the register it returns")
    reg = rets.pop()
    stores, merges = [], []
    for n in ast.walk(fi.node):
        if isinstance(n, ast.Assign):
            for t in n.targets:
                if isinstance(t, ast.Subscript) and norm(t.value) == reg:
                    stores.append((n, norm(t.slice)))
                if isinstance(t, ast.Name) and t.id == reg and isinstance(n.value, ast.Dict) and any(k is None for k in n.value.keys):
                    others = [norm(v) for k, v in zip(n.value.keys, n.value.values) if k is None and norm(v) != reg]
                    merges.append((n, others))
        if isinstance(n, ast.Call) and isinstance(n.func, ast.Attribute) and n.func.attr == "update" and norm(n.func.value) == reg and n.args:
            merges.append((n, [norm(n.args[0])]))
    rep.count("entries into the id register", len(stores) + len(merges))
    md = MarkDomain()
    for (n, _k) in stores:
        md.probe(n)
        md.mark(n, "NONEMPTY")
    for (n, _o) in merges:
        md.probe(n)
        md.mark(n, "NONEMPTY")
    # guards: `k in reg` (true branch raises ValueError)
    for n in ast.walk(fi.node):
        if isinstance(n, ast.If) and isinstance(n.test, ast.Compare) and len(n.test.ops) == 1 and isinstance(n.test.ops[0], (ast.In, ast.NotIn)) \
                and norm(n.test.comparators[0]) == reg:
            raising = n.body if isinstance(n.test.ops[0], ast.In) else n.orelse
            ok_raise = any(isinstance(x, ast.Raise) and resolve_exc_class(prog, fi.module, x.exc) == "ValueError" for s_ in raising for x in ast.walk(s_))
            if ok_raise:
                key = norm(n.test.left)
                if isinstance(n.test.ops[0], ast.In):
                    md.mark_test(n.test, if_false=[f"CHK:{key}"])
                else:
                    md.mark_test(n.test, if_true=[f"CHK:{key}"])
                # a loop `for k in X(.keys())` whose body is this guard checks every key of X
                for lp in ast.walk(fi.node):
                    if isinstance(lp, ast.For) and isinstance(lp.target, ast.Name) and lp.target.id == key and any(x is n for x in ast.walk(lp)):
                        src = norm(lp.iter).replace(".keys()", "")
                        md.mark(lp.iter, f"CHKALL:{src}")
    run_marks(ctx, fi, md)
    for (n, key) in stores:
        may, must = may_at(md, n), must_at(md, n)
        if may is None:
            continue
        # a store under `a == "id"` inside the loop over the node's own attributes happens at most once (dict keys are unique)
        own_once = any(isinstance(lp, ast.For) and any(x is n for x in ast.walk(lp)) and "attributes" in norm(lp.iter) for lp in ast.walk(fi.node))
        empty_before = "NONEMPTY" not in may or (own_once and not any(("NONEMPTY" in (may_at(md, m) or ())) and m is not n and m.lineno < n.lineno for (m, _k) in stores + merges))
        ok = empty_before or f"CHK:{key}" in (must or frozenset())
        rep.oblige(("R5", "store", norm(n)), ok)
        if not ok:
            rep.add("R5", fi.qname, n, f"the id `{key}` is entered into a register that may already hold it, without a test that raises ValueError: "
                    f"an id shared by two elements (e.g. an element and one of its descendants) goes unnoticed", fi.loc(n))
    for (n, others) in merges:
        may, must = may_at(md, n), must_at(md, n)
        if may is None:
            continue
        ok = all(f"CHKALL:{o}" in (must or frozenset()) for o in others)
        rep.oblige(("R5", "merge", norm(n)), ok)
        if not ok:
            rep.add("R5", fi.qname, n, "the ids of a child subtree are merged into the register without testing each of them against it first", fi.loc(n))
    # every element's id enters the register: the entry may depend on the element (has it an id?) and on the register
    # (is the id already there?), not on anything else the caller passes in
    from ..condeval import enclosing_ifs
    nodep = fi.params[0]
    own = {nodep, reg}
    for _ in range(4):
        for n in ast.walk(fi.node):
            if isinstance(n, ast.Assign) and all(isinstance(x, ast.Name) and x.id in own or not isinstance(x, ast.Name) or x.id in ("None", "True", "False", "str", "len")
                                                 for x in ast.walk(n.value) if isinstance(x, ast.Name) and isinstance(x.ctx, ast.Load)):
                for t in n.targets:
                    for x in ast.walk(t):
                        if isinstance(x, ast.Name) and isinstance(x.ctx, ast.Store):
                            own.add(x.id)
            if isinstance(n, ast.For) and all(x.id in own for x in ast.walk(n.iter) if isinstance(x, ast.Name) and isinstance(x.ctx, ast.Load)):
                for x in ast.walk(n.target):
                    if isinstance(x, ast.Name):
                        own.add(x.id)
    for (n, key) in stores:
        for (g, _b) in enclosing_ifs(fi, n):
            foreign = sorted({x.id for x in ast.walk(g.test) if isinstance(x, ast.Name) and x.id not in own and x.id in fi.params})
            rep.oblige(("R5", "unconditional", norm(n), norm(g.test)[:40]), not foreign)
            if foreign:
                rep.add("R5", fi.qname, g.test, f"whether an element's id is registered depends on `{', '.join(foreign)}`: ids that are not registered "
                        f"are not checked for duplicates, so an id used twice no longer raises ValueError", fi.loc(g))
    rep.floor("entries into the id register", 1)


# R2-R5 read the shape of expand / _register_ids (insertion index, copy provenance, loop shape, guarded register entries); R6 folds expand on
# documents holding every situation those clauses are about.  R1 (no failure point after a write, for every input) stays on its own.
FOLDS = {"R6": {"count": "expansion verdicts", "min": 11, "about": ("expand",)}}
SUBORDINATE = {"R2": "R6", "R3": "R6", "R4": "R6", "R5": "R6"}


def run(ctx, rep):
    rep.explanation = (
        "references.expand: no failure point (explicit raise or undischarged partial operation, from the escape analysis) is reachable "
        "after a write to the tree, loop back edges included (may-dataflow of a WROTE marker); the copies are inserted with an index "
        "that is the position of the references node taken before its removal and advanced per copy; what is attached is a recursive "
        "copy and goes to the reference's parent; every collected reference is removed unconditionally and unregistered")
    rep.rules_run = ["R1", "R2", "R3", "R4", "R5", "R6"]
    rep.assumptions += ["NOT decided: that the expanded tree validates (needs C01 semantics); independence of the copies is C12"]
    only = getattr(rep, "only", None)
    if only in (None, "R1"):
        rule_r1(ctx, rep)
    if only in (None, "R2", "R3", "R4"):
        rep.guarded("R2", rule_r2_r3_r4, ctx, rep)
    if only in (None, "R5"):
        rep.guarded("R5", rule_r5, ctx, rep)
    if only in (None, "R6"):
        from .c16_worlds import rule_r6
        rule_r6(ctx, rep)
