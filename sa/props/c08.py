"""C08 -- XML import mirrors the document (partial, the thinnest claim): field
provenance (R1), raw mode is the identity and text/tail are treated alike (R2),
child coverage and order (R3), attribute split (R4), reserved xml: prefix (R5).
What lxml parses and what strip/split/regex do to every string is not decided."""
from __future__ import annotations

import ast
import copy

from ..condeval import enclosing_ifs, eval_at
from ..model import UNKNOWN, AnalysisError, norm
from ..peval import PEvalUnsupported

PE = "metapype.model.metapype_io._process_element"
FE = "metapype.model.metapype_io._format_extras"
FX = "metapype.model.metapype_io.from_xml"
XML_NS = "http://www.w3.org/XML/1998/namespace"
EXPECT = {"_name": {"tag"}, "_prefix": {"prefix"}, "_nsmap": {"nsmap"}, "_content": {"text"}, "_tail": {"tail"},
          "_attributes": {"attrib"}, "_extras": {"attrib"}}


def sources(fi, e, ep, local_src, nodevar, nm):
    """infoset items of the element parameter an expression derives from"""
    out = set()
    for n in ast.walk(e):
        if isinstance(n, ast.Attribute) and isinstance(n.value, ast.Name) and n.value.id == ep:
            out.add(n.attr)
        if isinstance(n, ast.Name) and n.id in local_src:
            out |= local_src[n.id]
        if isinstance(n, ast.Attribute) and isinstance(n.value, ast.Name) and n.value.id == nodevar:
            f = nm.canon(n.attr)
            if f:
                out.add("field:" + f)
    return out


# R1-R6 read the shape of _process_element (provenance of every store, raw identity, text / tail sibling agreement, the child loop, the attribute
# split); R9 folds it over every class of element the whitespace policy and the attribute / namespace / comment handling distinguish
FOLDS = {"R9": {"count": "import verdicts", "min": 318, "about": ("_process_element",)}}
SUBORDINATE = {"R1": "R9", "R2": "R9", "R3": "R9", "R4": "R9", "R5": "R9", "R6": "R9"}


def run(ctx, rep):
    rep.guarded("R1", _structural, ctx, rep)
    only = getattr(rep, "only", None)
    from .c08_worlds import rule_r9, rule_r10
    if only in (None, "R9"):
        rule_r9(ctx, rep)
    if only in (None, "R10"):
        rule_r10(ctx, rep)
    for r in ("R9", "R10"):
        if r not in rep.rules_run:
            rep.rules_run.append(r)


def _structural(ctx, rep):
    rep.explanation = (
        "_process_element: for every store into a Node field, the set of infoset items of the same element the stored expression "
        "derives from must be the item that field mirrors (tag, prefix, nsmap, text, tail, attrib); the raw path assigns text and "
        "tail untransformed; the clean-mode treatment of tail is the same code as that of text (sibling agreement); one unfiltered "
        "loop over the element attaches every non-comment child in order with the same flags; attributes are split on the Clark "
        "brace; the reserved xml namespace is translated to the xml: prefix")
    rep.rules_run = ["R1", "R2", "R3", "R4", "R5", "R6", "R7", "R8"]
    rep.assumptions += ["NOT decided: what lxml parses; what strip/split/the whitespace regex do to every string (R9 decides the policy per class of text); "
                        "import-export-import stability beyond the seven folded documents of R10"]
    prog = ctx.prog
    w = ctx.world
    nm = w.nm
    fi = prog.func(PE)
    rep.touch(fi)
    ep = fi.params[0]
    flags = fi.params[1:]
    # node under construction and local variables derived from the element
    nodevar, ctor = None, None
    for n in ast.walk(fi.node):
        if isinstance(n, ast.Assign) and isinstance(n.value, ast.Call) and isinstance(n.value.func, ast.Name) and n.value.func.id == "Node" \
                and isinstance(n.targets[0], ast.Name):
            nodevar, ctor = n.targets[0].id, n.value
    if nodevar is None:
        raise AnalysisError("anchor vanished: Node(...) in _process_element")
    local_src = {}
    for _ in range(3):
        for n in ast.walk(fi.node):
            if isinstance(n, ast.Assign) and len(n.targets) == 1 and isinstance(n.targets[0], ast.Name) and n.targets[0].id != nodevar:
                s = sources(fi, n.value, ep, local_src, nodevar, nm)
                s = {x for x in s if not x.startswith("field:")}
                if s:
                    local_src[n.targets[0].id] = local_src.get(n.targets[0].id, set()) | s
            if isinstance(n, ast.For) and isinstance(n.target, ast.Tuple):
                s = sources(fi, n.iter, ep, local_src, nodevar, nm)
                s = {x for x in s if not x.startswith("field:")}
                for t in n.target.elts:
                    if isinstance(t, ast.Name) and s:
                        local_src[t.id] = local_src.get(t.id, set()) | s
    # ---- R1 provenance
    stores = []  # (field, expr, node)
    from ..layout import init_param_fields, method_field
    ipf = init_param_fields(ctx)
    init = nm.ci.methods["__init__"]
    for i, a in enumerate(ctor.args):
        p = init.params[1:][i] if i < len(init.params) - 1 else None
        if p in ipf:
            stores.append((ipf[p], a, ctor))
    for kw in ctor.keywords:
        if kw.arg in ipf:
            stores.append((ipf[kw.arg], kw.value, ctor))
    for n in ast.walk(fi.node):
        if isinstance(n, ast.Assign):
            for t in n.targets:
                if isinstance(t, ast.Attribute) and isinstance(t.value, ast.Name) and t.value.id == nodevar and nm.canon(t.attr):
                    stores.append((nm.canon(t.attr), n.value, n))
        if isinstance(n, ast.Call) and isinstance(n.func, ast.Attribute) and isinstance(n.func.value, ast.Name) and n.func.value.id == nodevar \
                and n.func.attr in ("add_attribute", "add_extras", "add_namespace"):
            f = method_field(ctx, n.func.attr)
            for a in n.args:
                stores.append((f, a, n))
    populated = set()
    for (f, expr, node) in stores:
        if f not in EXPECT:
            continue
        rep.count("stores into node fields")
        src = sources(fi, expr, ep, local_src, nodevar, nm)
        own = {x for x in src if x.startswith("field:")}
        src -= own
        const_only = not src and not own
        ok = src <= EXPECT[f] and all(x == "field:" + f or (f == "_extras" and x == "field:_nsmap") for x in own)
        if src:
            populated.add(f)
        rep.oblige(("R1", f, norm(node)[:70]), ok, sample={"field": f, "stored expression": norm(expr)[:60], "derives from": sorted(src) or "constant"})
        if not ok:
            rep.add("R1", fi.qname, node, f"node.{f[1:]} is computed from the element's {sorted(src - EXPECT[f]) or sorted(own)}; it must mirror "
                    f"{sorted(EXPECT[f])} of the same element", fi.loc(node))
    for f in EXPECT:
        rep.oblige(("R1", "populated", f), f in populated)
        if f not in populated:
            rep.add("R1", fi.qname, f"node.{f[1:]}", f"node.{f[1:]} is never filled from the element", fi.loc())
    rep.floor("stores into node fields", 8)
    # ---- R2 raw mode identity + sibling agreement
    cleanp = flags[0] if flags else None
    clean_if = None
    for n in ast.walk(fi.node):
        if isinstance(n, ast.If):
            t = n.test
            neg = False
            if isinstance(t, ast.UnaryOp) and isinstance(t.op, ast.Not):
                t, neg = t.operand, True
            if isinstance(t, ast.Name) and t.id == cleanp:
                clean_if = (n, neg)
                break
    if clean_if is None:
        raise AnalysisError("anchor vanished: test of the clean flag in _process_element")
    n_if, neg = clean_if
    raw = n_if.body if neg else n_if.orelse
    cln = n_if.orelse if neg else n_if.body
    # helpers the clean path hands e.text / e.tail to (their first parameter stands for the text)
    helpers = {}
    for n in ast.walk(ast.Module(body=cln, type_ignores=[])):
        if isinstance(n, ast.Call) and n.args and isinstance(n.args[0], ast.Attribute) and isinstance(n.args[0].value, ast.Name) \
                and n.args[0].value.id == ep and n.args[0].attr in ("text", "tail"):
            for tg in w.resolve_call(w.types(fi), n):
                if tg.func is not None and tg.func.module is fi.module:
                    helpers.setdefault(tg.func.qname, (tg.func, set()))[1].add(n.args[0].attr)
    for (f, item) in (("_content", "text"), ("_tail", "tail")):
        rep.count("raw-mode assignments")
        direct = [s for s in raw if isinstance(s, ast.Assign) and any(isinstance(t, ast.Attribute) and nm.canon(t.attr) == f for t in s.targets)]
        ok = len(direct) == 1 and isinstance(direct[0].value, ast.Attribute) and isinstance(direct[0].value.value, ast.Name) \
            and direct[0].value.value.id == ep and direct[0].value.attr == item
        others = [s for s in ast.walk(ast.Module(body=raw, type_ignores=[])) if isinstance(s, ast.Assign) and s not in direct
                  and any(isinstance(t, ast.Attribute) and nm.canon(t.attr) == f for t in s.targets)]
        rep.oblige(("R2", "raw", f), ok and not others)
        if not (ok and not others):
            rep.add("R2", fi.qname, direct[0] if direct else f"raw-mode node.{f[1:]}", f"in raw mode node.{f[1:]} must be exactly the element's {item}, "
                    f"untransformed", fi.loc(direct[0]) if direct else fi.loc(n_if))
    # ---- clean path, decided on the guarded-value form of the block (sa/guarded.py): for node.content and node.tail the set
    # of (atomic path conditions, final value) over all paths, locals and temporaries substituted.  The shape of the control
    # flow (nested ifs, elif chains, guard clauses, merged tests) does not matter.
    from ..guarded import guarded_values
    litp = flags[2] if len(flags) > 2 else None

    def place_key(n):
        if isinstance(n, ast.Attribute) and isinstance(n.value, ast.Name) and n.value.id == nodevar and nm.canon(n.attr):
            return ("F", nm.canon(n.attr))
        return None

    def regex_of(call):
        f_ = call.func
        if not isinstance(f_, ast.Attribute) or f_.attr not in ("search", "match", "fullmatch"):
            return None
        r_ = prog.resolve_name_expr(fi.module, f_.value) if isinstance(f_.value, (ast.Name, ast.Attribute)) else None
        if r_ and r_[0] == "external" and r_[1] == "re" and len(call.args) >= 2:
            pat = prog.const(fi.module, call.args[0])
            return (pat, f_.attr, call.args[1]) if isinstance(pat, str) else None
        if r_ and r_[0] == "const" and call.args:
            c_ = r_[1].consts.get(r_[2])
            if isinstance(c_, ast.Call) and isinstance(c_.func, ast.Attribute) and c_.func.attr == "compile" and c_.args:
                pat = prog.const(r_[1], c_.args[0])
                return (pat, f_.attr, call.args[0]) if isinstance(pat, str) else None
        return None

    def relevant(field):
        """top-level statements of the clean block that matter for node.<field> (stores to it, and locals it reads)"""
        keep, need = [], set()
        for s_ in reversed(cln):
            stores_f = any(isinstance(x, ast.Attribute) and isinstance(x.ctx, ast.Store) and place_key(x) == ("F", field) for x in ast.walk(s_))
            binds = {x.id for x in ast.walk(s_) if isinstance(x, ast.Name) and isinstance(x.ctx, ast.Store)}
            if stores_f or (binds & need):
                keep.append(s_)
                need |= {x.id for x in ast.walk(s_) if isinstance(x, ast.Name) and isinstance(x.ctx, ast.Load)}
        return list(reversed(keep))

    def canon_paths(field, item):
        try:
            paths = guarded_values(relevant(field), place_key, ("F", field), regex_of=regex_of)
        except AnalysisError as ex:
            raise AnalysisError(f"{fi.loc(n_if)}: clean-mode block of node.{field[1:]}: {ex}")
        out = []
        src = f"{ep}.{item}"
        for conds, val in paths:
            cs = tuple((a.replace(src, "ITEM"), p) for a, p in conds)
            out.append((cs, val.replace(src, "ITEM") if val is not None else None))
        return out
    tp, lp_ = canon_paths("_content", "text"), canon_paths("_tail", "tail")
    rep.count("whitespace-policy blocks", int(bool(tp)) + int(bool(lp_)))
    rep.count("clean-mode paths", len(tp) + len(lp_))
    assigned_t = any(v is not None for _c, v in tp)
    assigned_l = any(v is not None for _c, v in lp_)
    if not (assigned_t and assigned_l):
        rep.add("R2", fi.qname, "clean-mode blocks", "clean mode does not treat both text and tail", fi.loc(n_if))
    else:
        def is_lit(atom):
            return litp is not None and atom.endswith(f" In {litp}")
        lit_true = [(c, v) for c, v in tp if any(is_lit(a) and p for a, p in c)]
        lit_ok = bool(lit_true) and all(v == "ITEM" for _c, v in lit_true)
        rep.count("literal-element branch")
        rep.oblige(("R2", "literals"), lit_ok)
        if not lit_ok:
            rep.add("R2", fi.qname, "tag in literals", "listed literal elements must keep their text untouched in clean mode", fi.loc(n_if))
        # tail must not consult the literal list at all (the exemption is about the element's own text)
        if any(is_lit(a) for c, _v in lp_ for a, _p in c):
            rep.add("R2", fi.qname, "tail of a literal element", "the tail that follows a listed literal element is text of the parent, not of the literal "
                    "element: it must be cleaned like any other tail", fi.loc(n_if))
        rest_t = {(tuple((a, p) for a, p in c if not is_lit(a)), v) for c, v in tp if not any(is_lit(a) and p for a, p in c)}
        rest_l = {(c, v) for c, v in lp_}
        ok = rest_t == rest_l
        rep.oblige(("R2", "siblings"), ok, sample={"paths for text (outside literal elements)": len(rest_t), "paths for tail": len(rest_l), "same guarded values": ok})
        if not ok:
            diff = sorted(rest_t ^ rest_l, key=repr)[:2]
            rep.add("R2", fi.qname, "clean-mode treatment of tail vs text", "the whitespace policy applied to tail differs from the one applied to "
                    f"text (guarded-value forms differ, e.g. {diff})", fi.loc(n_if))
    # ---- R6 the "keep blank-only text verbatim" test matches whole strings of spaces / tabs / non-breaking spaces only
    import re as _re
    try:
        import re._parser as _sre
        import re._constants as _src
    except ImportError:  # pragma: no cover
        import sre_parse as _sre
        import sre_constants as _src
    allowed = {0x20, 0xA0, 0x09}

    def pattern_of(call, _fi=None):
        """(pattern string, method) for re.search/match/fullmatch(pat, s) or COMPILED.search/match/fullmatch(s)"""
        f = call.func
        if not isinstance(f, ast.Attribute) or f.attr not in ("search", "match", "fullmatch"):
            return None
        r = prog.resolve_name_expr(fi.module, f.value) if isinstance(f.value, (ast.Name, ast.Attribute)) else None
        if r and r[0] == "external" and r[1] == "re" and call.args:
            pat = prog.const(fi.module, call.args[0])
            return (pat, f.attr) if isinstance(pat, str) else None
        if r and r[0] == "const":
            c = r[1].consts.get(r[2])
            if isinstance(c, ast.Call) and isinstance(c.func, ast.Attribute) and c.func.attr == "compile" and c.args:
                pat = prog.const(r[1], c.args[0])
                return (pat, f.attr) if isinstance(pat, str) else None
        return None

    def whole_blank(pat, method):
        try:
            items = list(_sre.parse(pat))
        except Exception:
            return False
        begin = end = False
        if items and items[0][0] == _src.AT and items[0][1] in (_src.AT_BEGINNING, _src.AT_BEGINNING_STRING):
            begin = True
            items = items[1:]
        if items and items[-1][0] == _src.AT and items[-1][1] in (_src.AT_END, _src.AT_END_STRING):
            end = True
            items = items[:-1]
        if len(items) != 1 or items[0][0] not in (_src.MAX_REPEAT, _src.MIN_REPEAT):
            return False
        lo, hi, sub = items[0][1]
        if lo < 1 or hi != _src.MAXREPEAT or len(sub) != 1:
            return False
        op, arg = sub[0]
        chars = set()
        if op == _src.LITERAL:
            chars = {arg}
        elif op == _src.IN:
            for (o2, a2) in arg:
                if o2 == _src.LITERAL:
                    chars.add(a2)
                else:
                    return False
        else:
            return False
        if not chars <= allowed:
            return False
        return {"search": begin and end, "match": end, "fullmatch": True}[method]

    keepers = 0
    scan = [(fi, ast.Module(body=cln, type_ignores=[]), None)] + [(h, h.node, h.params[0] if h.params else None) for (h, _k) in helpers.values()]
    for (sfi, root, tparam) in scan:
        for n in ast.walk(root):
            if not isinstance(n, ast.If) or len(n.body) != 1:
                continue
            b0 = n.body[0]
            kept = None
            if isinstance(b0, ast.Assign) and isinstance(b0.value, ast.Attribute) and isinstance(b0.value.value, ast.Name) and b0.value.value.id == ep \
                    and b0.value.attr in ("text", "tail"):
                kept = b0.value.attr
            if tparam is not None and isinstance(b0, ast.Return) and isinstance(b0.value, ast.Name) and b0.value.id == tparam:
                kept = "/".join(sorted(helpers[sfi.qname][1]))
            if kept is None:
                continue
            calls_ = [c for c in ast.walk(n.test) if isinstance(c, ast.Call) and pattern_of(c)]
            if not calls_:
                continue
            keepers += 1 if tparam is None else len(helpers[sfi.qname][1])
            pat, method = pattern_of(calls_[0])
            ok = whole_blank(pat, method)
            rep.oblige(("R6", norm(n.test)[:60]), ok, sample={"keep-verbatim test": norm(n.test)[:70], "pattern": pat, "method": method})
            if not ok:
                rep.add("R6", sfi.qname, n.test, f"clean mode keeps the element's {kept} verbatim whenever `{pat}` {method}es; it may do so only for "
                        f"text consisting entirely of spaces, tabs and non-breaking spaces (anchored at both ends)", sfi.loc(n))
    rep.count("keep-verbatim tests", keepers)
    rep.floor("keep-verbatim tests", 2)
    # ---- R3 children
    loops = [n for n in ast.walk(fi.node) if isinstance(n, ast.For) and isinstance(n.iter, ast.Name) and n.iter.id == ep]
    rep.count("child loops", len(loops))
    if len(loops) != 1:
        rep.add("R3", fi.qname, f"for _ in {ep}", "there must be exactly one loop over the element's children", fi.loc())
    else:
        lp = loops[0]
        cv = lp.target.id if isinstance(lp.target, ast.Name) else None
        calls = [n for n in ast.walk(lp) if isinstance(n, ast.Call) and isinstance(n.func, ast.Attribute) and n.func.attr == "add_child"
                 and isinstance(n.func.value, ast.Name) and n.func.value.id == nodevar]
        ok = len(calls) == 1 and len(calls[0].args) == 1 and not calls[0].keywords
        rec_ok = False
        if ok:
            a = calls[0].args[0]
            if isinstance(a, ast.Name):
                # a local bound once, inside the loop, to the converted sub-element
                defs = [x.value for x in ast.walk(lp) if isinstance(x, ast.Assign) and len(x.targets) == 1 and isinstance(x.targets[0], ast.Name) and x.targets[0].id == a.id]
                if len(defs) == 1:
                    a = defs[0]
            rec_ok = isinstance(a, ast.Call) and any(tg.func is not None and tg.func.qname == fi.qname for tg in w.resolve_call(w.types(fi), a)) and \
                [norm(x) for x in a.args] == [cv] + flags and not a.keywords
        g_pairs = [(g, b) for (g, b) in enclosing_ifs(fi, calls[0]) if any(x is g for x in ast.walk(lp))] if calls else []
        guards = [g for (g, b) in g_pairs]
        only_comment = len(guards) <= 1 and all(isinstance(g.test, ast.Compare) and len(g.test.ops) == 1 and "Comment" in norm(g.test)
                                                and cv in norm(g.test) for g in guards)
        # `continue` is fine as the body of the comment guard clause (skip a comment); any other early exit is not
        guard_bodies = {id(x) for g in guards for blk in (g.body, g.orelse) for s_ in blk for x in ast.walk(s_)}
        bad = [x for x in ast.walk(lp) if isinstance(x, (ast.Break, ast.Return)) or (isinstance(x, ast.Continue) and id(x) not in guard_bodies)]
        rep.oblige(("R3", "attach"), ok and rec_ok and only_comment and not bad)
        if not ok:
            rep.add("R3", fi.qname, lp.iter, "sub-elements are not appended one by one through add_child (document order)", fi.loc(lp))
        elif not rec_ok:
            rep.add("R3", fi.qname, calls[0], "the recursive conversion does not pass the sub-element and the same clean/collapse/literals flags", fi.loc(calls[0]))
        if not only_comment:
            rep.add("R3", fi.qname, guards[0].test if guards else lp.iter, "sub-elements are filtered by something other than the comment test", fi.loc(lp))
        if bad:
            rep.add("R3", fi.qname, bad[0], "the child loop is left early", fi.loc(bad[0]))
        if guards and only_comment:
            # polarity of the comment filter: a non-comment element must be attached
            t = guards[0].test
            is_not = isinstance(t, ast.Compare) and isinstance(t.ops[0], (ast.IsNot, ast.NotEq))
            in_body = g_pairs[0][1]   # the side of the test on which the attachment is reached (guard clauses included)
            okp = is_not == in_body
            rep.oblige(("R3", "comment-polarity"), okp)
            if not okp:
                rep.add("R3", fi.qname, t, "the comment test is inverted: comments are attached and elements dropped", fi.loc(guards[0]))
    # ---- R4 attribute split
    aloops = [n for n in ast.walk(fi.node) if isinstance(n, ast.For) and "attrib" in norm(n.iter) and isinstance(n.target, ast.Tuple)]
    rep.count("attribute loops", len(aloops))
    if len(aloops) != 1:
        rep.add("R4", fi.qname, f"{ep}.attrib.items()", "there must be exactly one loop over the element's attributes", fi.loc())
    else:
        lp = aloops[0]
        kv = [t.id for t in lp.target.elts if isinstance(t, ast.Name)]
        adds = {m: [n for n in ast.walk(lp) if isinstance(n, ast.Call) and isinstance(n.func, ast.Attribute) and n.func.attr == m]
                for m in ("add_attribute", "add_extras")}
        ok = all(len(v) == 1 for v in adds.values()) and len(kv) == 2
        rep.oblige(("R4", "sinks"), ok)
        if not ok:
            rep.add("R4", fi.qname, lp.iter, "attributes must go to add_attribute or add_extras, one call each", fi.loc(lp))
        else:
            for m, want_plain in (("add_attribute", True), ("add_extras", False)):
                c = adds[m][0]
                for (nm_, plain) in (("lang", True), ("{u}lang", False)):
                    verdict = True
                    for (g, in_body) in enclosing_ifs(fi, c):
                        if not any(x is g for x in ast.walk(lp)):
                            continue
                        try:
                            res = eval_at(ctx, fi, g.test, {kv[0]: nm_, kv[1]: "v"})
                        except PEvalUnsupported as ex:
                            raise AnalysisError(f"cannot evaluate the attribute split `{norm(g.test)}`: {ex}")
                        if res != ("value", in_body):
                            verdict = False
                    want = plain == want_plain
                    rep.count("attribute split verdicts")
                    rep.oblige(("R4", m, nm_), verdict == want)
                    if verdict != want:
                        rep.add("R4", fi.qname, c, f"attribute name '{nm_}' {'reaches' if verdict else 'does not reach'} {m}; unqualified names "
                                f"are attributes, Clark-qualified names are extras", fi.loc(c))
            ex = adds["add_extras"][0]
            def is_fe_call(c_):
                """a call that resolves to the prefixed-name helper (whatever it is called or wherever it lives now)"""
                return isinstance(c_, ast.Call) and any(tg.func is not None and tg.func.qname == FE for tg in w.resolve_call(w.types(fi), c_))
            ok2 = ex.args and (isinstance(ex.args[0], ast.Name) and any(
                isinstance(n, ast.Assign) and isinstance(n.targets[0], ast.Name) and n.targets[0].id == ex.args[0].id and is_fe_call(n.value)
                and [norm(a).replace("_nsmap", "nsmap") for a in n.value.args] == [kv[0], f"{nodevar}.nsmap"]
                for n in ast.walk(lp)) or (is_fe_call(ex.args[0]) and [norm(a).replace("_nsmap", "nsmap") for a in ex.args[0].args] == [kv[0], f"{nodevar}.nsmap"]))
            rep.oblige(("R4", "format"), bool(ok2))
            if not ok2:
                rep.add("R4", fi.qname, ex, "a qualified attribute is not stored under the name _format_extras(name, node.nsmap) gives it", fi.loc(ex))
    # ---- R5 reserved prefix
    fe = prog.func(FE)
    rep.touch(fe)
    mentions = False
    for n in ast.walk(fe.node):
        if isinstance(n, (ast.Name, ast.Attribute, ast.Constant)):
            v = prog.const(fe.module, n)
            if v == XML_NS or (isinstance(v, dict) and (XML_NS in v.values() or XML_NS in v)):
                mentions = True
    for n in ast.walk(fi.node):
        if isinstance(n, (ast.Name, ast.Attribute, ast.Constant)):
            v = prog.const(fi.module, n)
            if v == XML_NS or (isinstance(v, dict) and (XML_NS in v.values() or XML_NS in v)):
                mentions = True
    rep.count("reserved-namespace handling")
    rep.oblige(("R5", "xml"), mentions)
    if not mentions:
        rep.add("R5", fe.qname, "Clark name returned untranslated",
                "the implicit binding of the xml: prefix (http://www.w3.org/XML/1998/namespace) is never in an element's nsmap, so an "
                "xml:lang / xml:space attribute keeps its {uri}local name as extras key and is re-exported ill-formed", fe.loc())
    # entry point
    fx = prog.func(FX)
    rep.touch(fx)
    ok = any(isinstance(n, ast.Call) and isinstance(n.func, ast.Name) and n.func.id == fi.name and [norm(a) for a in n.args[1:]] == fx.params[1:]
             for n in ast.walk(fx.node))
    rep.oblige(("R1", "entry"), ok)
    if not ok:
        rep.add("R1", fx.qname, "_process_element(root, clean, collapse, literals)", "from_xml does not hand its flags to the converter unchanged", fx.loc())
    # ---- R7 the import is a function of the document alone: no long-lived state on the import slice (sound memo tables excepted)
    from ..memo import check_slice
    from ..valslice import reachable
    sl = [f for f in reachable(ctx, [fx]) if f.module.name.startswith("metapype.model.metapype_io")]
    check_slice(ctx, rep, "R7", sl, "XML import")
    # ---- R8 the parser is lxml's default: parser options change the infoset the importer is to mirror
    INFOSET_NEUTRAL = {"remove_comments", "huge_tree", "no_network", "collect_ids", "encoding", "schema", "target"}
    for n in ast.walk(fx.node):
        if isinstance(n, ast.Call) and isinstance(n.func, ast.Attribute) and n.func.attr in ("fromstring", "XML", "parse"):
            rep.count("parser invocations in from_xml")
            pa = n.args[1] if len(n.args) > 1 else next((k.value for k in n.keywords if k.arg == "parser"), None)
            if pa is None:
                rep.oblige(("R8", "default parser"), True)
                continue
            cands = [pa]
            if isinstance(pa, ast.Name):
                cands = [a.value for a in ast.walk(fx.node) if isinstance(a, ast.Assign) and any(isinstance(t, ast.Name) and t.id == pa.id for t in a.targets)] or [pa]
            flat = []
            for c in cands:
                flat.extend([c.body, c.orelse] if isinstance(c, ast.IfExp) else [c])
            for c in flat:
                ctor = c
                if isinstance(c, (ast.Name, ast.Attribute)):
                    r = prog.resolve_name_expr(fx.module, c)
                    ctor = r[1].consts.get(r[2]) if r and r[0] == "const" else None
                bad = None
                if isinstance(ctor, ast.Constant) and ctor.value is None:
                    continue
                if not (isinstance(ctor, ast.Call) and norm(ctor.func).endswith("XMLParser")):
                    bad = f"`{norm(c)}` is not a plain lxml XMLParser"
                else:
                    opts = [k.arg for k in ctor.keywords if k.arg not in INFOSET_NEUTRAL and not (isinstance(k.value, ast.Constant) and k.value.value in (False, None)
                                                                                                 and k.arg in ("remove_blank_text", "strip_cdata", "recover", "ns_clean", "remove_pis"))]
                    if opts or ctor.args:
                        bad = f"parser option(s) {opts or '(positional)'} change what the parser delivers (e.g. remove_blank_text drops blank text and tails the whitespace policy keeps)"
                rep.oblige(("R8", norm(c)), bad is None)
                if bad:
                    rep.add("R8", fx.qname, n, f"from_xml parses with a non-default parser: {bad}", fx.loc(n))
    rep.floor("parser invocations in from_xml", 1)
    rep.floor("raw-mode assignments", 2)
    rep.floor("whitespace-policy blocks", 2)
    rep.floor("attribute split verdicts", 4)
