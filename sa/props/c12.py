"""C12 -- copy is deep, equal and independent: no shared containers (R1), field
coverage and fresh id (R2), registration after the id is re-bound (R3), parent
links of the child copies (R4, the pairing rule of C09 applied to Node.copy)."""
from __future__ import annotations

import ast

from ..exc import resolve_exc_class
from ..flow import Flow
from ..marks import MarkDomain, must_at, run_marks
from ..model import AnalysisError, norm
from ..types import NODE_Q, T_NODE, T_OPT
from . import c09


class ShareDomain:
    """may-set of the clone's container fields that still alias the original's containers"""

    def __init__(self, ctx, fi, containers, selfp):
        self.ctx = ctx
        self.fi = fi
        self.nm = ctx.world.nm
        self.ft = ctx.world.types(fi)
        self.containers = containers
        self.selfp = selfp
        self.clone = None
        self.kind = None
        self.problems = []
        self.flow = None
        self.clone_stmt = None

    def meet(self, a, b):
        return a | b

    def enter_function(self, fi, st, flow):
        return st

    def assume_atom(self, test, outcome, st):
        return st

    def expr(self, e, st, flow):
        # in-place mutation of a container of the clone that is still shared
        if isinstance(e, ast.Call) and isinstance(e.func, ast.Attribute) and e.func.attr in (
                "append", "insert", "extend", "update", "pop", "clear", "remove", "setdefault", "sort", "reverse", "popitem"):
            f = self._clone_field(e.func.value)
            if f is not None and f in st and not flow.quiet:
                self.problems.append((e, f))
        return st

    def bind_for(self, target, it, st, flow, comp):
        return st

    def bind_handler(self, hd, st, flow):
        return st

    def bind_with(self, item, st, flow):
        return st

    def _clone_field(self, e):
        if isinstance(e, ast.Attribute) and isinstance(e.value, ast.Name) and e.value.id == self.clone:
            return self.nm.canon(e.attr)
        if isinstance(e, ast.Name) and e.id in getattr(self, "aliases", {}):
            return self.aliases[e.id]
        return None

    def _local_def(self, name):
        """the single right-hand side a local is bound to, or None"""
        defs = [n.value for n in ast.walk(self.fi.node) if isinstance(n, ast.Assign) and any(isinstance(t, ast.Name) and t.id == name for t in n.targets)]
        other = [n for n in ast.walk(self.fi.node) if isinstance(n, ast.Name) and n.id == name and isinstance(n.ctx, ast.Store)]
        return defs[0] if len(defs) == 1 and len(other) == 1 and name not in self.fi.params else None

    def fresh(self, field, v) -> bool:
        """does the expression build a container that shares nothing mutable with the original?"""
        kind = self.containers[field]
        if isinstance(v, ast.Name):
            d = self._local_def(v.id)
            return d is not None and not isinstance(d, ast.Name) and self.fresh(field, d)
        if isinstance(v, (ast.Dict, ast.DictComp)) and kind == "dict":
            if isinstance(v, ast.Dict):
                return True
            return True
        if isinstance(v, ast.List) and kind == "list":
            return all(self._is_copy_call(x) for x in v.elts)
        if isinstance(v, ast.ListComp) and kind == "list":
            return self._is_copy_call(v.elt)
        if isinstance(v, ast.Call):
            f = v.func
            if isinstance(f, ast.Name) and f.id == "dict" and kind == "dict":
                return True
            if isinstance(f, ast.Name) and f.id == "list" and kind == "list":
                return not v.args
            if isinstance(f, ast.Attribute) and f.attr == "copy" and kind == "dict" and self.ft.type_of(f.value) in ("dict", "NodeDict"):
                return True
            r = self.ctx.prog.resolve_name_expr(self.fi.module, f)
            if r and r[0] == "external" and r[1] == "copy.deepcopy" and kind == "dict":
                return True
        return False

    def _is_copy_call(self, x) -> bool:
        if isinstance(x, ast.Call) and isinstance(x.func, ast.Attribute) and x.func.attr == "copy" and not x.args:
            return self.ft.type_of(x.func.value) in (T_NODE, T_OPT)
        return False

    def stmt(self, s, st, flow):
        if isinstance(s, ast.Assign) and len(s.targets) == 1:
            t, v = s.targets[0], s.value
            if isinstance(t, ast.Name) and isinstance(v, ast.Call):
                r = self.ctx.prog.resolve_name_expr(self.fi.module, v.func)
                if r and r[0] == "external" and r[1] == "copy.copy" and v.args and isinstance(v.args[0], ast.Name) and v.args[0].id == self.selfp:
                    self.clone, self.kind, self.clone_stmt = t.id, "shallow", s
                    return frozenset(self.containers)
                if r and r[0] == "class" and r[1].qname == NODE_Q:
                    self.clone, self.kind, self.clone_stmt = t.id, "constructor", s
                    return frozenset()
            f = self._clone_field(t) if isinstance(t, ast.Attribute) else None
            if f is not None and f in self.containers:
                if isinstance(v, ast.Name) and self._local_def(v.id) is not None:
                    # the local stays an alias of the clone's container: later appends to it go to the clone
                    if not hasattr(self, "aliases"):
                        self.aliases = {}
                    self.aliases[v.id] = f
                if self.fresh(f, v):
                    return st - {f}
                return st | {f}
            if isinstance(t, ast.Subscript):
                f = self._clone_field(t.value)
                if f is not None and f in st and not flow.quiet:
                    self.problems.append((s, f))
        return st


def run(ctx, rep):
    rep.explanation = (
        "Node.copy analysed on all paths with a small may-domain (which container fields of the clone still alias the "
        "original's); freshness of every re-binding expression and of every element put into the child list; id re-binding, "
        "registration order and exits by marker dataflow; parent links of the child copies by the pairing rule of C09")
    rep.rules_run = ["R1", "R2", "R3", "R4", "R5", "R6"]
    from .c12_worlds import rule_r6
    if getattr(rep, "only", None) in (None, "R6"):
        rule_r6(ctx, rep)
    rep.assumptions += ["NOT decided: uuid1 uniqueness; value equality of copied strings (immutable, shared by reference)"]
    prog = ctx.prog
    w = ctx.world
    nm = w.nm
    fi = prog.func(NODE_Q + ".copy")
    rep.touch(fi)
    selfp = fi.params[0]
    containers = dict(nm.containers)
    rep.count("container fields of Node", len(containers))
    rep.count("state fields of Node", len(nm.fields))
    # ---- R1
    dom = ShareDomain(ctx, fi, containers, selfp)
    flow = Flow(fi, dom, ctx.hier, lambda e: resolve_exc_class(prog, fi.module, e) or "Exception")
    dom.flow = flow
    flow.run(frozenset())
    if dom.clone is None:
        raise AnalysisError("anchor vanished: Node.copy creates its result neither by copy.copy(self) nor by Node(...)")
    for (r, st) in flow.returns:
        rep.count("return paths of copy")
        v = r.value
        if not (isinstance(v, ast.Name) and v.id == dom.clone):
            rep.add("R1", fi.qname, r, "copy returns something other than the clone it prepared", fi.loc(r))
            continue
        for f in sorted(containers):
            ok = f not in st
            rep.oblige(("R1", f, norm(r)), ok, sample={"container field": f, "re-bound to a fresh container before return": ok})
            if not ok:
                rep.add("R1", fi.qname, f"clone.{f}", f"on some path the copy is returned while its {f} container is still the original's: "
                        f"a later edit of either one shows in the other", fi.loc(r))
    for (node, f) in dom.problems:
        rep.add("R1", fi.qname, node, f"the clone's {f} is written in place while it still is the original's container", fi.loc(node))
    # elements put into the clone's child list must be copies
    for n in ast.walk(fi.node):
        if isinstance(n, ast.Call) and isinstance(n.func, ast.Attribute) and n.func.attr in ("append", "insert") and n.args:
            if dom._clone_field(n.func.value) == "_children":
                rep.count("elements put into the clone's child list")
                a = n.args[-1]
                ok = dom._is_copy_call(a)
                if isinstance(a, ast.Name):
                    defs = [x.value for x in ast.walk(fi.node) if isinstance(x, ast.Assign) and any(isinstance(t, ast.Name) and t.id == a.id for t in x.targets)]
                    ok = bool(defs) and all(dom._is_copy_call(d) for d in defs)
                rep.oblige(("R1", "child-elem", norm(n)), ok)
                if not ok:
                    rep.add("R1", fi.qname, n, "the clone's child list receives a node that is not a recursive copy: original and copy share a subtree",
                            fi.loc(n))
    # ---- R2 / R3
    md = MarkDomain()
    idnew, regs = [], []
    for n in ast.walk(fi.node):
        if isinstance(n, ast.Assign) and any(isinstance(t, ast.Attribute) and isinstance(t.value, ast.Name) and t.value.id == dom.clone and t.attr in ("_id", "id")
                                             for t in n.targets):
            fresh_id = any(isinstance(c, ast.Call) and (lambda r: r and r[0] == "external" and r[1].startswith("uuid."))(prog.resolve_name_expr(fi.module, c.func))
                           for c in ast.walk(n.value))
            if fresh_id:
                md.mark(n, "IDNEW")
                idnew.append(n)
            else:
                rep.add("R2", fi.qname, n, "the clone's id is not re-bound to a fresh uuid value", fi.loc(n))
        if isinstance(n, ast.Call) and c14_resolves(ctx, fi, n) and n.args and isinstance(n.args[0], ast.Name) and n.args[0].id == dom.clone:
            md.mark(n, "REG")
            md.probe(n)
            regs.append(n)
    if dom.kind == "constructor":
        # a constructor registers and assigns a fresh id itself; every other field must be carried explicitly
        carried = set()
        for n in ast.walk(fi.node):
            if isinstance(n, ast.Assign):
                for t in n.targets:
                    f = dom._clone_field(t)
                    if f:
                        carried.add(f)
        if isinstance(dom.clone_stmt.value, ast.Call):
            init = nm.ci.methods["__init__"]
            am = w.arg_map(w.resolve_call(w.types(fi), dom.clone_stmt.value)[0], dom.clone_stmt.value)
            for p in am:
                carried.add("_" + p)
        for f in nm.fields:
            if f in ("_id", "_parent"):
                continue
            rep.oblige(("R2", "carried", f), f in carried)
            if f not in carried:
                rep.add("R2", fi.qname, f"clone.{f}", f"field {f} of the original is not carried into the copy", fi.loc())
    else:
        flow2, exits = run_marks(ctx, fi, md)
        rep.count("id re-bindings", len(idnew))
        ok = bool(exits) and all("IDNEW" in must for (must, _m) in exits)
        rep.oblige(("R2", "fresh-id"), ok)
        if not ok:
            rep.add("R2", fi.qname, "clone._id", "on some path the shallow clone keeps the original's id", fi.loc())
        ok = bool(exits) and all("REG" in must for (must, _m) in exits)
        rep.oblige(("R3", "registered"), ok)
        if not ok:
            rep.add("R3", fi.qname, "set_node_instance(clone)", "on some path the copy is not registered", fi.loc())
        for r in regs:
            must = must_at(md, r) or frozenset()
            rep.oblige(("R3", "order", norm(r)), "IDNEW" in must)
            if "IDNEW" not in must:
                rep.add("R3", fi.qname, r, "the clone is registered before its id is re-bound: it evicts the original from the registry", fi.loc(r))
        rep.floor("id re-bindings", 1)
    # ---- R4: parent links of child copies (C09's pairing rule restricted to copy)
    sites = c09.insertion_sites(ctx, fi)
    links = c09.link_assigns(ctx, fi)
    for (node, owner, child) in sites:
        rep.count("child insertions in copy")
        mine = [ln for (ln, c, p) in links if child is not None and norm(c) == norm(child) and norm(p) == norm(owner)]
        md2 = MarkDomain()
        for ln in mine:
            md2.mark(ln, "LINK")
            md2.unmark(ln, "PEND")
        md2.mark(node, "PEND")
        md2.probe(node)
        fl, exits2 = run_marks(ctx, fi, md2)
        ok = bool(mine) and ("LINK" in (must_at(md2, node) or frozenset()) or all("PEND" not in may for (_m, may) in exits2))
        rep.oblige(("R4", norm(node)), ok)
        if not ok:
            rep.add("R4", fi.qname, node, "a child copy is listed by the clone but its parent link is not set to the clone: parent links "
                    "below the copy's root would point into the original", fi.loc(node))
    # children attached through the Node API (add_child): the link is add_child's own obligation (C09-R1)
    for n in ast.walk(fi.node):
        if isinstance(n, ast.Call) and isinstance(n.func, ast.Attribute) and n.func.attr == "add_child" and isinstance(n.func.value, ast.Name) \
                and n.func.value.id == dom.clone:
            rep.count("child insertions in copy")
    # ---- R5: what copy calls on the clone / on the child copies may only attach them (child list of the clone, parent link
    # of the child copy): a callee that rewrites another field makes the copy differ from the original in that field
    from .c11 import get_effects
    eff = get_effects(ctx)
    ft = w.types(fi)
    copies = {dom.clone}
    for n in ast.walk(fi.node):
        if isinstance(n, ast.Assign) and len(n.targets) == 1 and isinstance(n.targets[0], ast.Name) and isinstance(n.value, ast.Call) \
                and isinstance(n.value.func, ast.Attribute) and n.value.func.attr == "copy":
            copies.add(n.targets[0].id)

    def is_copy_expr(a):
        if isinstance(a, ast.Name) and a.id in copies:
            return True
        return isinstance(a, ast.Call) and isinstance(a.func, ast.Attribute) and a.func.attr == "copy" and any(
            tg.func is not None and tg.func.qname == fi.qname for tg in w.resolve_call(ft, a))
    for n in ast.walk(fi.node):
        if not isinstance(n, ast.Call):
            continue
        for tg in w.resolve_call(ft, n):
            H = tg.func
            if H is None or tg.kind == "class" or H.qname == fi.qname or H.name in ("set_node_instance",) or H.kind in ("property",):
                continue
            am = w.arg_map(tg, n)
            bound = {p: a for p, a in am.items() if is_copy_expr(a)}
            if not bound:
                continue
            rep.count("calls on the copy inside copy")
            for e in eff.effects(H):
                if e.root not in bound or e.kind not in ("W", "M"):
                    continue
                okf = e.field in ("_children", "_parent") or (H.kind == "setter" and True)
                if H.kind == "setter":
                    continue
                rep.oblige(("R5", H.qname, e.field, e.root), okf)
                if not okf:
                    rep.add("R5", fi.qname, n, f"copy hands the copy to {H.name}, which rewrites its {e.field} ({e.construct} at {e.loc}): the copy "
                            f"no longer equals the original in that field", fi.loc(n))
                    break
    rep.floor("container fields of Node", 4)
    rep.floor("return paths of copy", 1)
    rep.floor("child insertions in copy", 1)


def c14_resolves(ctx, fi, call):
    for tg in ctx.world.resolve_call(ctx.world.types(fi), call):
        if tg.func is not None and tg.func.qname == NODE_Q + ".set_node_instance":
            return True
    return False
