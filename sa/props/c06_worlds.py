"""C06-R7 -- the JSON codecs folded over abstract trees.

Writer and reader copy values without looking at them; what they do depends on which fields are None / empty / filled and on
how many children there are.  For every tree of the catalogue (worlds.py) the chain  to_json -> from_json  is folded
(sa/peval.py; json.dumps / json.loads are the standard library applied to the folded plain structure, nothing of the repository
is imported) and the loaded tree must equal the saved one in every field the property names, ids included, with parent links
set, and re-serialise to the identical text.  The same for the legacy codec on the fields it carries, and for a legacy
document passed through the bundled converter: it must load as the same tree with empty namespace data."""
from __future__ import annotations

from ..peval import Opaque, PEval, PEvalUnsupported, Raised
from .worlds import FIELDS, catalogue, diff, is_node, mkc, nodes, number

IO = "metapype.model.metapype_io"
LEGACY = "metapype.model.mp_io"


def strip_to_legacy(tree):
    """the part of a tree the legacy codec carries: id, name, attributes, content, children"""
    for n in nodes(tree):
        n["_tail"] = None
        n["_nsmap"] = {}
        n["_prefix"] = None
        n["_extras"] = {}
    return tree


def _fold(rep, pe, fi, args, what):
    try:
        v = pe.call(fi, args)
    except Raised as r:
        return ("raises", r.cls)
    except PEvalUnsupported as ex:
        rep.notes.append(f"{fi.qname} not folded for {what}: {ex}")
        return None
    if isinstance(v, Opaque):
        rep.notes.append(f"{fi.qname} not folded for {what}: opaque result")
        return None
    return v


def rule_r7(ctx, rep):
    prog = ctx.prog
    w = ctx.world
    f_to, f_from = prog.funcs.get(IO + ".to_json"), prog.funcs.get(IO + ".from_json")
    l_to, l_from = prog.funcs.get(LEGACY + ".to_json"), prog.funcs.get(LEGACY + ".from_json")
    conv = next((f for q, f in prog.funcs.items() if q.endswith(".to_20210209")), None)
    chains = []
    if f_to is not None and f_from is not None:
        chains.append(("current", f_to, f_from, False))
    if l_to is not None and l_from is not None:
        chains.append(("legacy", l_to, l_from, True))
    for (kind, to_f, from_f, legacy) in chains:
        for what, build in catalogue():
            tree = number(build())
            if legacy:
                strip_to_legacy(tree)
            pe = PEval(w)
            # the saved tree is still alive (and registered) when the document is loaded back, as in a save / load within one session
            from ..types import NODE_Q
            pe.class_state[(NODE_Q, "store")] = {n["_id"]: n for n in nodes(tree)}
            text = _fold(rep, pe, to_f, [tree], what)
            if text is None:
                continue
            why = None
            loaded = None
            if isinstance(text, tuple):
                why = f"saving raises {text[1]}"
            elif not isinstance(text, str):
                why = f"the saved form is not a string ({type(text).__name__})"
            if why is None:
                import json as _json
                arg = _json.loads(text) if legacy else text  # the legacy reader takes the parsed document
                loaded = _fold(rep, pe, from_f, [arg], what)
                if loaded is None:
                    continue
                if isinstance(loaded, tuple) and loaded and loaded[0] == "raises":
                    why = f"loading what was saved raises {loaded[1]}"
                else:
                    d = diff(tree, loaded, ids=True)
                    if d:
                        why = f"the loaded tree differs from the saved one -- {d}"
            if why is None:
                again = _fold(rep, pe, to_f, [loaded], what)
                if again is None:
                    continue
                if again != text:
                    why = "re-serialising the loaded tree gives a different text"
            rep.count("round-trip verdicts")
            rep.oblige(("R7", kind, what), why is None, sample={"codec": kind, "tree": what})
            if why is not None:
                # every world is reported on its own (a listed known finding for one tree must not hide another tree)
                rep.add("R7", from_f.qname if "load" in why or "differs" in why else to_f.qname, what, f"{kind} JSON codec on {what}: {why}", from_f.loc())
    # a legacy document upgraded by the converter loads as the same tree with empty namespace data
    if conv is not None and l_to is not None and f_from is not None:
        import json as _json
        for what, build in catalogue():
            tree = strip_to_legacy(number(build()))
            pe = PEval(w)
            text = _fold(rep, pe, l_to, [tree], what)
            if not isinstance(text, str):
                continue
            doc = _json.loads(text)
            r = _fold(rep, pe, conv, [doc], what)
            if r is None and not any("to_20210209" in x and what in x for x in rep.notes[-1:]):
                pass
            if isinstance(r, tuple) and r and r[0] == "raises":
                why = f"the converter raises {r[1]}"
            elif rep.notes and "to_20210209" in rep.notes[-1] and what in rep.notes[-1]:
                continue
            else:
                loaded = _fold(rep, pe, f_from, [_json.dumps(doc)], what)
                if loaded is None:
                    continue
                if isinstance(loaded, tuple) and loaded and loaded[0] == "raises":
                    why = f"loading the upgraded document raises {loaded[1]}"
                else:
                    d = diff(tree, loaded, ids=True)
                    why = f"the upgraded document loads as a different tree -- {d}" if d else None
            rep.count("round-trip verdicts")
            rep.oblige(("R7", "upgrade", what), why is None, sample={"codec": "legacy -> converter -> current", "tree": what})
            if why is not None:
                rep.add("R7", conv.qname, what, f"legacy document of {what}: {why}", conv.loc())
                break
