"""C14-R8 -- the registry operations folded over a small tree.

Creation, deletion by id (with and without the descendants) and replacement with deletion are folded (sa/peval.py) on the tree
r(p(c1(g1), c2), s); the folded `Node.store` afterwards must hold exactly the nodes the property says: every created node under
its own id, ids pairwise distinct; after a deletion exactly the named node -- and, unless told otherwise, exactly its
descendants -- gone; after a replacement with deletion the replaced subtree gone and everything still in the tree registered."""
from __future__ import annotations

import ast

from ..peval import Opaque, PEval, PEvalUnsupported, Raised
from ..types import NODE_Q
from .worlds import mkc, nodes, number

SUB = {"r": ("r", "p", "c1", "g1", "c2", "s"), "p": ("p", "c1", "g1", "c2"), "c1": ("c1", "g1"), "g1": ("g1",), "c2": ("c2",), "s": ("s",)}


def tree():
    n = {}
    n["g1"] = mkc("g1", id="g1")
    n["c1"] = mkc("c", None, [n["g1"]], id="c1")
    n["c2"] = mkc("c", id="c2")
    n["p"] = mkc("p", None, [n["c1"], n["c2"]], id="p")
    n["s"] = mkc("s", id="s")
    n["r"] = mkc("r", None, [n["p"], n["s"]], id="r")
    return n


def rule_r8(ctx, rep):
    w = ctx.world
    prog = ctx.prog
    ci = w.nm.ci
    mi = ci.module
    # ---- creation: a folded constructor call registers the new node under its id; two nodes never share one
    init = w.lookup_method(ci, "__init__")
    if init is not None:
        pe = PEval(w)
        pe.class_state[(NODE_Q, "store")] = {}
        made = []
        try:
            for (args, kw) in ((["a"], {}), (["a"], {}), (["b"], {"id": "given"})):
                obj = {"__obj__": True, "__class__": ci.qname}
                pe.call(init, [obj] + args, kw)
                made.append(obj)
        except (PEvalUnsupported, Raised) as ex:
            rep.notes.append(f"Node.__init__ not folded: {ex}")
            made = None
        if made:
            rep.count("registry verdicts")
            store = pe.class_state[(NODE_Q, "store")]
            ids = [m.get("_id") for m in made]
            why = None
            if len(set(map(str, ids))) != len(ids):
                why = f"two created nodes carry the same id {ids}"
            elif ids[2] != "given":
                why = f"a node created with id='given' carries {ids[2]!r}"
            else:
                for m in made:
                    if store.get(m.get("_id")) is not m:
                        why = f"a created node {m.get('_name')} is not retrievable by its id"
            rep.oblige(("R8", "create"), why is None)
            if why:
                rep.add("R8", init.qname, "Node(...)", f"creating Node('a'), Node('a'), Node('b', id='given'): {why}", init.loc())
    # ---- deletion by id
    f_del = w.lookup_method(ci, "delete_node_instance")
    if f_del is not None:
        for key in ("p", "c1", "g1", "r", "s"):
            for children in (None, True, False):
                n = tree()
                pe = PEval(w)
                store = {v["_id"]: v for v in n.values()}
                pe.class_state[(NODE_Q, "store")] = store
                what = f"delete_node_instance('{key}'" + ("" if children is None else f", children={children}") + ") on r(p(c1(g1), c2), s)"
                try:
                    pe.call(f_del, [Opaque("cls"), key] + ([] if children is None else [children]))
                except Raised as r:
                    rep.count("registry verdicts")
                    rep.oblige(("R8", "delete", key, children), False)
                    rep.add("R8", f_del.qname, what, f"{what} raises {r.cls}", f_del.loc())
                    break
                except PEvalUnsupported as ex:
                    rep.notes.append(f"delete_node_instance not folded for {what}: {ex}")
                    break
                rep.count("registry verdicts")
                gone = set(SUB[key]) if children in (None, True) else {key}
                want = {k for k in n if k not in gone}
                got = set(pe.class_state[(NODE_Q, "store")].keys())
                ok = got == want
                rep.oblige(("R8", "delete", key, children), ok, sample={"operation": what, "registered afterwards": sorted(got)})
                if not ok:
                    extra, lost = sorted(got - want), sorted(want - got)
                    rep.add("R8", f_del.qname, what, f"{what}: " + "; ".join(([f"{', '.join(extra)} still registered"] if extra else []) +
                            ([f"{', '.join(lost)} unregistered although not deleted"] if lost else [])), f_del.loc())
                    break
            else:
                continue
            break
    # ---- replacement with deletion
    f_rep = w.lookup_method(ci, "replace_child")
    if f_rep is not None:
        for dele in (None, True, False):
            n = tree()
            new = mkc("c", None, [mkc("h", id="h")], id="new")
            pe = PEval(w)
            store = {v["_id"]: v for v in n.values()}
            store["new"], store["h"] = new, new["_children"][0]
            pe.class_state[(NODE_Q, "store")] = store
            what = "p.replace_child(c1, new(h)" + ("" if dele is None else f", delete_old={dele}") + ") on r(p(c1(g1), c2), s)"
            try:
                pe.call(f_rep, [n["p"], n["c1"], new] + ([] if dele is None else [dele]))
            except Raised as r:
                rep.count("registry verdicts")
                rep.oblige(("R8", "replace", dele), False)
                rep.add("R8", f_rep.qname, what, f"{what} raises {r.cls}", f_rep.loc())
                break
            except PEvalUnsupported as ex:
                rep.notes.append(f"replace_child not folded for {what}: {ex}")
                break
            rep.count("registry verdicts")
            got = set(pe.class_state[(NODE_Q, "store")].keys())
            want = {"r", "p", "c2", "s", "new", "h"} | (set() if dele in (None, True) else {"c1", "g1"})
            ok = got == want
            rep.oblige(("R8", "replace", dele), ok, sample={"operation": what, "registered afterwards": sorted(got)})
            if not ok:
                extra, lost = sorted(got - want), sorted(want - got)
                rep.add("R8", f_rep.qname, what, f"{what}: " + "; ".join(([f"{', '.join(extra)} still registered (a discarded node must leave the registry)"] if extra else []) +
                        ([f"{', '.join(lost)} unregistered although still in the tree / not discarded"] if lost else [])), f_rep.loc())
                break
