"""C05-R6 / C04-R6 -- whole-tree validation against node validation, both folded.

No oracle is needed here: the property relates two entry points of the library to each other.  On a set of small documents
(valid, with unknown and misplaced children, missing required children, wrong order, bad attributes, content below metadata)
validate.tree(root, errs) is folded (sa/peval.py) and compared with the concatenation, in document order, of the folded
validate.node(n, errs) over every node that is not below a metadata element; the fail-fast call must raise exactly when that
concatenation is not empty, and what it raises must be a rule error (C04).  Every entry of an error list is a tuple led by a
declared error code, a text and the offending node."""
from __future__ import annotations

from ..model import EnumMember
from ..peval import Opaque, PEval, PEvalUnsupported, Raised
from ..types import NODE_Q
from ..valslice import RULE_ERR
from .worlds import is_node, mkc, nodes, number

TREE = "metapype.eml.validate.tree"
NODE = "metapype.eml.validate.node"


def documents():
    def name(*kids, **kw):
        return mkc("individualName", None, list(kids), **kw)
    good = lambda: name(mkc("givenName", "g"), mkc("surName", "s"))
    return [
        ("a valid element", good),
        ("a valid element two levels deep", lambda: mkc("creator", None, [good(), mkc("organizationName", "o")])),
        ("an unknown child", lambda: name(mkc("givenName", "g"), mkc("foo", "x"), mkc("surName", "s"))),
        ("an unknown child with children of its own", lambda: mkc("creator", None, [good(), mkc("qqq", None, [mkc("zzz", "x"), mkc("title", "t")])])),
        ("errors on three levels", lambda: mkc("creator", None, [name(mkc("surName", "s"), mkc("givenName", None)), mkc("organizationName", None, [mkc("foo")])], {"bogus": "1"})),
        ("a missing required child below a valid parent", lambda: mkc("creator", None, [name(mkc("givenName", "g")), mkc("organizationName", "o")])),
        ("foreign content below metadata", lambda: mkc("additionalMetadata", None, [mkc("metadata", None, [mkc("anything", "text", [mkc("foo", "x"), name()], {"bogus": "1"})])])),
        ("two children below metadata", lambda: mkc("additionalMetadata", None, [mkc("metadata", None, [mkc("a"), mkc("b")])])),
        ("errors before and after a metadata element", lambda: mkc("additionalMetadata", None, [mkc("describes", None), mkc("metadata", None, [mkc("x", None, [mkc("y")])]), mkc("foo")],
                                                                    {"bogus": "1"})),
        ("a bad attribute value and unexpected content", lambda: mkc("creator", "text", [good()], {"scope": "nowhere"})),
    ]


def below_metadata(n):
    p = n.get("_parent")
    while p is not None:
        if p["_name"] == "metadata":
            return True
        p = p.get("_parent")
    return False


def key(e):
    if not isinstance(e, tuple):
        return ("?", repr(e)[:40])
    out = []
    for x in e:
        if isinstance(x, EnumMember):
            out.append(("code", x.member))
        elif is_node(x):
            out.append(("node", id(x)))
        else:
            out.append(repr(x)[:80])
    return tuple(out)


def well_formed(e):
    return isinstance(e, tuple) and len(e) >= 3 and isinstance(e[0], EnumMember) and isinstance(e[1], str) and is_node(e[2])


def rule_worlds(ctx, rep, prop):
    """prop 'C05': R6 (tree = concatenation of nodes, metadata opaque); prop 'C04': R6 (only rule errors, list empty iff fail-fast succeeds, tuple shape)"""
    prog = ctx.prog
    f_tree, f_node = prog.funcs.get(TREE), prog.funcs.get(NODE)
    if f_tree is None or f_node is None:
        return
    h = ctx.hier
    for what, build in documents():
        root = number(build())
        pe = PEval(ctx.world)
        pe.class_state[(NODE_Q, "store")] = {n["_id"]: n for n in nodes(root)}
        try:
            e_tree = []
            pe.call(f_tree, [root, e_tree])
            parts = []
            for n in nodes(root):
                if below_metadata(n):
                    continue
                e_n = []
                pe.call(f_node, [n, e_n])
                parts.append((n, e_n))
            ff = None
            try:
                pe.call(f_tree, [root])
            except Raised as r:
                ff = r.cls or "?"
        except Raised as r:
            rep.count("tree / node verdicts")
            rep.oblige(("R6", what), False)
            rep.add("R6", f_tree.qname, what, f"validating {what} with an error list raises {(r.cls or '').rsplit('.', 1)[-1]}: collecting mode never raises", f_tree.loc())
            break
        except PEvalUnsupported as ex:
            rep.notes.append(f"validation not folded for {what}: {ex}")
            continue
        rep.count("tree / node verdicts")
        concat = [e for (_n, es) in parts for e in es]
        why = None
        if prop == "C05":
            if [key(e) for e in e_tree] != [key(e) for e in concat]:
                # name the first node whose share differs
                pos = 0
                culprit = None
                for (n, es) in parts:
                    if [key(e) for e in e_tree[pos:pos + len(es)]] != [key(e) for e in es]:
                        culprit = n
                        break
                    pos += len(es)
                why = (f"the tree's error list ({len(e_tree)} entries) is not the concatenation, in document order, of the node lists ({len(concat)} entries)"
                       + (f"; first difference at node {culprit['_name']}" if culprit is not None else "; it holds more than the nodes outside metadata account for"))
            elif (ff is not None) != bool(concat):
                why = f"fail-fast validation of the tree {'raises' if ff else 'succeeds'} although the nodes on their own report {len(concat)} errors"
        else:
            bad = next((e for e in e_tree if not well_formed(e)), None)
            if bad is not None:
                why = f"an entry of the error list is not (declared code, text, node, ...): {str(key(bad))[:80]}"
            elif ff is not None and not h.issub(ff, RULE_ERR):
                why = f"fail-fast validation raises {ff.rsplit('.', 1)[-1]}, which is not a rule error"
            elif (ff is None) != (not e_tree):
                why = f"the error list has {len(e_tree)} entries while the fail-fast call {'succeeds' if ff is None else 'raises'}: the list is empty exactly when fail-fast succeeds"
        rep.oblige(("R6", what), why is None, sample={"document": what, "errors": len(e_tree), "fail-fast": (ff or "succeeds").rsplit(".", 1)[-1]})
        if why is not None:
            rep.add("R6", f_tree.qname, what, f"on {what}: {why}", f_tree.loc())
            break
