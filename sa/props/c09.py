"""C09 -- edit histories keep an ordered tree (partial): link pairing (R1),
shift bounds / returned index / documented failure only (R2), failing edits
leave the tree unchanged (R3).  Query purity is C11's."""
from __future__ import annotations

import ast

from .. import prereq
from ..exc import resolve_exc_class
from ..flow import Flow
from ..marks import MarkDomain, may_at, must_at, run_marks
from ..model import AnalysisError, iter_funcs_in_module, norm
from ..types import NODE_Q, T_NODE, T_OPT

MUTATORS = ["add_child", "remove_child", "replace_child", "shift"]
GROW = ("append", "insert")


def _is_children(nm, e):
    return isinstance(e, ast.Attribute) and nm.canon(e.attr) == "_children"


def insertion_sites(ctx, fi):
    """(node, owner expr, inserted expr) for every statement that makes an object an element of a child list"""
    nm = ctx.world.nm
    out = []
    alias = {}
    for n in ast.walk(fi.node):
        if isinstance(n, ast.Assign) and len(n.targets) == 1 and isinstance(n.targets[0], ast.Name) and _is_children(nm, n.value):
            alias[n.targets[0].id] = n.value.value
        # x = []; obj.children = x : x stays the child list of obj
        if isinstance(n, ast.Assign) and len(n.targets) == 1 and _is_children(nm, n.targets[0]) and isinstance(n.value, ast.Name):
            alias[n.value.id] = n.targets[0].value
    for n in ast.walk(fi.node):
        if isinstance(n, ast.Call) and isinstance(n.func, ast.Attribute) and n.func.attr in GROW and isinstance(n.func.value, ast.Name) \
                and n.func.value.id in alias and n.args:
            out.append((n, alias[n.func.value.id], n.args[-1]))
        if isinstance(n, ast.Assign):
            for t in n.targets:
                if isinstance(t, ast.Subscript) and isinstance(t.value, ast.Name) and t.value.id in alias and not isinstance(t.slice, ast.Slice):
                    out.append((n, alias[t.value.id], n.value))
    for n in ast.walk(fi.node):
        if isinstance(n, ast.Call) and isinstance(n.func, ast.Attribute) and n.func.attr in GROW and _is_children(nm, n.func.value) and n.args:
            out.append((n, n.func.value.value, n.args[-1]))
        if isinstance(n, ast.Call) and isinstance(n.func, ast.Attribute) and n.func.attr == "extend" and _is_children(nm, n.func.value):
            out.append((n, n.func.value.value, None))
        if isinstance(n, ast.Assign):
            for t in n.targets:
                if isinstance(t, ast.Subscript) and _is_children(nm, t.value) and not isinstance(t.slice, ast.Slice):
                    out.append((n, t.value.value, n.value))
                if isinstance(t, (ast.Tuple, ast.List)):
                    pass  # swaps of elements already in the list
    return out


def link_assigns(ctx, fi):
    nm = ctx.world.nm
    out = []
    for n in ast.walk(fi.node):
        if isinstance(n, ast.Assign):
            for t in n.targets:
                if isinstance(t, ast.Attribute) and nm.canon(t.attr) == "_parent":
                    out.append((n, t.value, n.value))
    return out


def rule_r1(ctx, rep):
    prog = ctx.prog
    nm = ctx.world.nm
    ci = prog.cls(NODE_Q)
    for m in list(ci.methods.values()) + list(ci.setters.values()):
        sites = insertion_sites(ctx, m)
        if not sites:
            continue
        rep.touch(m)
        links = link_assigns(ctx, m)
        for (node, owner, child) in sites:
            rep.count("child-list insertions in Node")
            if child is None:
                rep.oblige(("R1", m.qname, norm(node)), False)
                rep.add("R1", m.qname, node, "children added in bulk without setting their parent links", m.loc(node))
                continue
            mine = [ln for (ln, c, p) in links if norm(c) == norm(child) and norm(p) == norm(owner)]
            dom = MarkDomain()
            for ln in mine:
                dom.mark(ln, "LINK")
                dom.unmark(ln, "PEND")
            dom.mark(node, "PEND")
            dom.probe(node)
            flow, exits = run_marks(ctx, m, dom)
            must = must_at(dom, node) or frozenset()
            before = "LINK" in must
            after = all("PEND" not in may for (_mu, may) in exits)
            ok = bool(mine) and (before or after)
            rep.oblige(("R1", m.qname, norm(node)), ok, sample={"insertion": norm(node), "in": m.name,
                                                                "link": norm(mine[0]) if mine else None, "order": "before" if before else "after"})
            if not ok:
                rep.add("R1", m.qname, node, f"`{norm(child)}` becomes a child of `{norm(owner)}` but `{norm(child)}.parent = {norm(owner)}` "
                        f"does not accompany it on every path: a listed child whose parent link names another node", m.loc(node))
    # list.remove / list.index / `in` on child lists find a node by identity only while Node has no __eq__ of its own
    for dn in ("__eq__", "__ne__"):
        m_ = ci.methods.get(dn)
        rep.oblige(("R1", "identity", dn), m_ is None)
        if m_ is not None:
            rep.add("R1", m_.qname, dn, f"Node defines {dn}: remove_child / child_index / shift / replace_child look a child up with list.index / list.remove / "
                    f"`in`, which now find the first *equal* node instead of the node they were given", m_.loc())
    rep.floor("child-list insertions in Node", 3)
    # who-may-write: outside class Node nobody touches a child list or re-binds it
    bad = outside_writers(ctx, prog.modules.values(), skip_class=NODE_Q)
    for (fi, node, why) in bad:
        rep.add("R1", fi.qname, node, why, fi.loc(node))
    rep.count("functions scanned for foreign child-list writers", sum(1 for mi in prog.modules.values() for _ in iter_funcs_in_module(mi)))
    # anti-vacuity: the scanner must fire on its embedded positive example
    import textwrap
    from ..model import FuncInfo, ModuleInfo
    src = textwrap.dedent('''
        def attach(parent, child):
            parent.children.append(child)
    ''')
    tree = ast.parse(src)
    mi = ModuleInfo("selfcheck", "<embedded>", "<embedded>", tree, src)
    fi = FuncInfo("selfcheck.attach", "attach", mi, None, tree.body[0], "function")
    if not scan_writers(ctx, fi, duck_all=True):
        raise AnalysisError("C09-R1 who-may-write scanner no longer fires on its embedded positive example")


def scan_writers(ctx, fi, duck_all=False):
    nm = ctx.world.nm
    out = []
    ft = None if duck_all else ctx.world.types(fi)

    def nodeish(e):
        if duck_all:
            return True
        t = ft.type_of(e)
        return t in (T_NODE, T_OPT) or t is None

    for n in ast.walk(fi.node):
        if isinstance(n, ast.Call) and isinstance(n.func, ast.Attribute) and n.func.attr in ("append", "insert", "extend", "remove", "pop", "clear", "sort", "reverse") \
                and _is_children(nm, n.func.value) and nodeish(n.func.value.value):
            out.append((fi, n, f"`{norm(n)}`: a child list is changed outside class Node (parent links and namespace merge are bypassed)"))
        if isinstance(n, (ast.Assign, ast.AugAssign, ast.Delete)):
            ts = n.targets if isinstance(n, (ast.Assign, ast.Delete)) else [n.target]
            for t in ts:
                if _is_children(nm, t) and nodeish(t.value):
                    out.append((fi, n, f"`{norm(n)}`: a child list is re-bound outside class Node"))
                if isinstance(t, ast.Subscript) and _is_children(nm, t.value) and nodeish(t.value.value):
                    out.append((fi, n, f"`{norm(n)}`: a child slot is written outside class Node"))
    return out


def outside_writers(ctx, modules, skip_class):
    out = []
    for mi in modules:
        if mi.name.startswith("tests.") or mi.name in ("metapype.eml.harness", "metapype.eml.rules"):
            continue
        for fi in iter_funcs_in_module(mi):
            if fi.cls is not None and fi.cls.qname == skip_class:
                continue
            out.extend(scan_writers(ctx, fi))
    return out


# ------------------------------------------------------------------ R2 shift
class SwapDomain:
    """tracks, after a swap of the child from position r to position r+d / v, whether the returned variable follows"""

    def __init__(self, fi, rvar, swaps):
        self.fi = fi
        self.rvar = rvar
        self.swaps = swaps  # id(stmt) -> ('delta', d) | ('var', name)
        self.flow = None

    def meet(self, a, b):
        return a | b

    def enter_function(self, fi, st, flow):
        return st

    def assume_atom(self, test, outcome, st):
        return st

    def expr(self, e, st, flow):
        return st

    def bind_for(self, target, it, st, flow, comp):
        return st

    def bind_handler(self, hd, st, flow):
        return st

    def bind_with(self, item, st, flow):
        return st

    def stmt(self, s, st, flow):
        if id(s) in self.swaps:
            return frozenset({self.swaps[id(s)]})
        if isinstance(s, ast.AugAssign) and isinstance(s.target, ast.Name) and s.target.id == self.rvar and isinstance(s.value, ast.Constant) \
                and isinstance(s.op, (ast.Add, ast.Sub)):
            c = s.value.value if isinstance(s.op, ast.Add) else -s.value.value
            return frozenset(("delta", p[1] - c) if p[0] == "delta" else ("lost",) for p in st)
        if isinstance(s, ast.Assign) and any(isinstance(t, ast.Name) and t.id == self.rvar for t in s.targets):
            v = s.value
            out = set()
            for p in st:
                if p[0] == "var" and isinstance(v, ast.Name) and v.id == p[1]:
                    out.add(("delta", 0))
                elif p[0] == "delta" and isinstance(v, ast.BinOp) and isinstance(v.left, ast.Name) and v.left.id == self.rvar \
                        and isinstance(v.right, ast.Constant) and isinstance(v.op, (ast.Add, ast.Sub)):
                    c = v.right.value if isinstance(v.op, ast.Add) else -v.right.value
                    out.add(("delta", p[1] - c))
                else:
                    out.add(("lost",))
            return frozenset(out)
        return st


class PosDomain:
    """must-set of expressions (normalised text) known to equal the shifted child's current position; None = not yet located.
    `x = L.index(child)` locates it, a swap of positions (a, b) with a in the set moves it to b, `x = y` / `x += c` rewrite the
    set, a join keeps what holds on both paths."""

    LOST = frozenset({"<lost>"})
    UNLOC = frozenset({"<unlocated>"})   # (the flow engine reads a None state as unreachable, so "not yet located" is a value)

    def __init__(self, fi, nm, childp, swap_of):
        self.fi, self.nm, self.childp, self.swap_of = fi, nm, childp, swap_of
        self.flow = None

    def meet(self, a, b):
        if a is None:
            return b
        if b is None:
            return a
        if a == self.UNLOC:
            return b
        if b == self.UNLOC:
            return a
        return (a & b) or self.LOST

    def enter_function(self, fi, st, flow):
        return self.UNLOC

    def assume_atom(self, test, outcome, st):
        return st

    def expr(self, e, st, flow):
        return st

    def _kill(self, st, name):
        if st is None or st == self.UNLOC:
            return st
        import re as _re
        return frozenset(e for e in st if not _re.search(r"\b" + _re.escape(name) + r"\b", e)) or self.LOST

    def bind_for(self, target, it, st, flow, comp):
        for x in ast.walk(target):
            if isinstance(x, ast.Name):
                st = self._kill(st, x.id)
        return st

    def bind_handler(self, hd, st, flow):
        return st

    def bind_with(self, item, st, flow):
        return st

    def stmt(self, s, st, flow):
        sw = self.swap_of(s)
        if sw is not None:
            a, b = norm(sw[0]), norm(sw[1])
            if st is None or st == self.UNLOC:
                return st
            if a in st:
                return frozenset({b})
            if b in st:
                return frozenset({a})
            return self.LOST
        if isinstance(s, ast.Assign) and len(s.targets) == 1 and isinstance(s.targets[0], ast.Name):
            x, v = s.targets[0].id, s.value
            # locating the child
            if isinstance(v, ast.Call) and isinstance(v.func, ast.Attribute) and v.func.attr == "index" and _is_children(self.nm, v.func.value) \
                    and v.args and isinstance(v.args[0], ast.Name) and v.args[0].id == self.childp:
                return frozenset({x})
            if st is None or st == self.UNLOC:
                return st
            was = norm(v) in st
            out = self._kill(st, x)
            if was:
                out = (out - self.LOST) | {x}
            return frozenset(out)
        if isinstance(s, ast.AugAssign) and isinstance(s.target, ast.Name) and isinstance(s.op, (ast.Add, ast.Sub)) and isinstance(s.value, ast.Constant) \
                and isinstance(s.value.value, int) and st is not None and st != self.UNLOC:
            x = s.target.id
            c = s.value.value if isinstance(s.op, ast.Add) else -s.value.value
            out = set()
            for e in st:
                if e == x:
                    out.add(f"{x} - {c}" if c > 0 else f"{x} + {-c}")
                elif e == (f"{x} + {c}" if c > 0 else f"{x} - {-c}"):
                    out.add(x)
                elif x not in e.replace("_", " ").split() and not __import__("re").search(r"\b" + x + r"\b", e):
                    out.add(e)
            return frozenset(out) or self.LOST
        return st


def rule_r2(ctx, rep):
    prog = ctx.prog
    nm = ctx.world.nm
    fi = prog.func(NODE_Q + ".shift")
    rep.touch(fi)
    eng = prereq.engine(ctx)
    s = eng.entry(fi, frozenset())
    h = ctx.hier
    # (i) every subscript of the child list holds inbounds
    rows = list(s.ledger)
    for (q, cf), sm in eng.memo.items():
        f2 = prog.funcs.get(q)
        if f2 is not None and f2.cls is not None and f2.cls.qname == NODE_Q and q != fi.qname and any(
                isinstance(c, ast.Call) and any(tg.func is f2 for tg in ctx.world.resolve_call(ctx.world.types(fi), c)) for c in ast.walk(fi.node)):
            rows += sm.ledger  # private helpers of shift, analysed under the facts of their call sites
    for r in rows:
        if r["op"] in ("L[i]", "list element store"):
            rep.count("child-list subscripts in shift")
            ok = r["discharge"] != "ESCAPES"
            rep.oblige(("R2i", r["construct"], r["op"], r["loc"]), ok, sample={"subscript": r["construct"], "kind": r["op"], "discharged by": r["discharge"]})
            if not ok:
                rep.add("R2", fi.qname, r["construct"], "child-list position is not proven in bounds for the exact offset used: shifting "
                        "at the edge raises IndexError instead of leaving the child in place", r["loc"])
    rep.floor("child-list subscripts in shift", 4)
    # (iii) only the documented ValueError may escape
    for key, esc in s.escapes.items():
        if esc.cls == "IndexError" and esc.origin[0] == fi.qname:
            continue  # reported under (i)
        rep.count("escapes of shift")
        ok = esc.cls == "ValueError" and (esc.origin[2] == "raise" or "index" in esc.origin[1])
        rep.oblige(("R2iii", esc.cls, esc.origin[1]), ok)
        if not ok:
            rep.add("R2", esc.origin[0], esc.origin[1], f"{h.short(esc.cls)} may escape shift ({esc.origin[2]}); only the documented ValueError "
                    f"for a bad direction or a non-child may", esc.loc)
    # (ii) the returned value is the child's position after every swap, on every path
    rets = [n for n in ast.walk(fi.node) if isinstance(n, ast.Return) and n.value is not None]
    rvar = None
    swaps = {}

    def swap_indices(fn, n):
        """(index expr a, index expr b) when statement n of function fn swaps two child-list positions"""
        al = {x.targets[0].id for x in ast.walk(fn.node) if isinstance(x, ast.Assign) and len(x.targets) == 1 and isinstance(x.targets[0], ast.Name)
              and _is_children(nm, x.value)}
        if isinstance(n, ast.Assign) and len(n.targets) == 1 and isinstance(n.targets[0], ast.Tuple) and isinstance(n.value, ast.Tuple) \
                and len(n.targets[0].elts) == 2 and len(n.value.elts) == 2:
            a, b = n.targets[0].elts
            if all(isinstance(x, ast.Subscript) and (_is_children(nm, x.value) or (isinstance(x.value, ast.Name) and x.value.id in al)) for x in (a, b)) \
                    and norm(a) == norm(n.value.elts[1]) and norm(b) == norm(n.value.elts[0]):
                return a.slice, b.slice
        return None

    cand = []
    for n in ast.walk(fi.node):
        si = swap_indices(fi, n)
        if si:
            cand.append((n, si[0], si[1]))
        if isinstance(n, ast.Expr) and isinstance(n.value, ast.Call):
            for tg in ctx.world.resolve_call(ctx.world.types(fi), n.value):
                H = tg.func
                if H is None or H.cls is None or H.cls.qname != NODE_Q or H.qname == fi.qname:
                    continue
                body = [x for x in H.node.body if not (isinstance(x, ast.Expr) and isinstance(x.value, ast.Constant))]
                body = [x for x in body if not (isinstance(x, ast.Assign) and len(x.targets) == 1 and isinstance(x.targets[0], ast.Name) and _is_children(nm, x.value))]
                if len(body) == 1 and swap_indices(H, body[0]):
                    ha, hb = swap_indices(H, body[0])
                    am = ctx.world.arg_map(tg, n.value)
                    if isinstance(ha, ast.Name) and isinstance(hb, ast.Name) and ha.id in am and hb.id in am:
                        cand.append((n, am[ha.id], am[hb.id]))
                        rep.touch(H)
    for (n, ia, ib) in cand:
        swaps[id(n)] = (ia, ib)
        rep.count("swaps in shift")
    # any other way of changing the child list inside shift (remove and re-insert) is not an exchange of two positions
    moved = []
    for n in ast.walk(fi.node):
        if isinstance(n, ast.Call) and isinstance(n.func, ast.Attribute) and n.func.attr in ("pop", "insert", "remove", "append", "extend", "sort", "reverse", "clear") \
                and _is_children(nm, n.func.value):
            moved.append(n)
        if isinstance(n, ast.Delete) and any(isinstance(t, ast.Subscript) and _is_children(nm, t.value) for t in n.targets):
            moved.append(n)
        if isinstance(n, ast.Assign) and any(isinstance(t, ast.Subscript) and isinstance(t.slice, ast.Slice) and _is_children(nm, t.value) for t in n.targets):
            moved.append(n)
    for n in moved:
        rep.oblige(("R2", "exchange-only", norm(n)[:50]), False)
        rep.add("R2", fi.qname, n, "shift changes the child list other than by exchanging two positions (remove / re-insert): the children between "
                "the old and the new position slide by one, which is not what shifting among same-named siblings does in the ordered-list model", fi.loc(n))
    if not swaps and moved:
        return
    if not swaps:
        raise AnalysisError("anchor vanished: no swap of child positions in Node.shift")
    childp = fi.params[1] if len(fi.params) > 1 else None
    dom = PosDomain(fi, nm, childp, lambda st_: swaps.get(id(st_)))
    flow = Flow(fi, dom, ctx.hier, lambda e: resolve_exc_class(ctx.prog, fi.module, e) or "Exception")
    dom.flow = flow
    flow.run(PosDomain.UNLOC)
    rep.count("return paths of shift", len(flow.returns))
    for (r, st) in flow.returns:
        ok = st is not None and st not in (PosDomain.LOST, PosDomain.UNLOC) and r.value is not None and norm(r.value) in st
        rep.oblige(("R2ii", norm(r)), ok, sample={"return": norm(r), "expressions known to be the child's position": sorted(st) if st else None})
        if not ok:
            where = ", ".join(sorted(st)) if st and st not in (PosDomain.LOST, PosDomain.UNLOC) else "unknown"
            rep.add("R2", fi.qname, r, f"on some path `{norm(r.value) if r.value is not None else 'None'}` is returned while the child sits at position "
                    f"`{where}`: shift reports a stale index", fi.loc(r))
    rep.floor("swaps in shift", 1)
    rep.floor("return paths of shift", 1)
    # both failures precede every write
    writes = [n for n in ast.walk(fi.node) if isinstance(n, ast.Assign) and any(isinstance(t, (ast.Subscript, ast.Tuple)) for t in n.targets)]
    writes += [n for (n, _a, _b) in cand if n not in writes]
    fails = [n for n in ast.walk(fi.node) if isinstance(n, ast.Raise)] + \
            [n for n in ast.walk(fi.node) if isinstance(n, ast.Call) and isinstance(n.func, ast.Attribute) and n.func.attr == "index"]
    md = MarkDomain()
    for wn in writes:
        md.mark(wn, "WROTE")
    for f in fails:
        md.probe(f)
    run_marks(ctx, fi, md)
    for f in fails:
        may = may_at(md, f)
        if may is None:
            continue
        rep.count("failure points of shift")
        ok = "WROTE" not in may
        rep.oblige(("R2v", norm(f)), ok)
        if not ok:
            rep.add("R2", fi.qname, f, "shift can fail here after it has already moved a child (a failing edit must leave the tree unchanged)", fi.loc(f))


# --------------------------------------------------------- R3 validate-then-mutate
def rule_r3(ctx, rep):
    prog = ctx.prog
    nm = ctx.world.nm
    eng = prereq.engine(ctx)
    h = ctx.hier
    for name in MUTATORS:
        fi = prog.func(f"{NODE_Q}.{name}")
        rep.touch(fi)
        rep.count("mutators checked for validate-then-mutate")
        s = eng.entry(fi, frozenset())
        selfp = fi.params[0]
        # writes to state reachable from self
        fx = eng.fx
        writes = []
        # a node that this very operation attaches is not part of the tree before the attachment: writes to it do not count
        incoming = {norm(c) for (_n, _o, c) in insertion_sites(ctx, fi) if c is not None}
        for n in ast.walk(fi.node):
            if isinstance(n, (ast.Assign, ast.AugAssign, ast.Delete)):
                ts = n.targets if isinstance(n, (ast.Assign, ast.Delete)) else [n.target]
                for t in ts:
                    for x in ([t] if not isinstance(t, (ast.Tuple, ast.List)) else t.elts):
                        base = x
                        while isinstance(base, (ast.Attribute, ast.Subscript)):
                            base = base.value
                        if isinstance(base, ast.Name) and x is not base and (base.id == selfp or (base.id in fi.params and base.id not in incoming)):
                            writes.append(n)
            if isinstance(n, ast.Call) and isinstance(n.func, ast.Attribute):
                base = n.func.value
                root = base
                while isinstance(root, (ast.Attribute, ast.Subscript)):
                    root = root.value
                if isinstance(root, ast.Name) and root.id == selfp:
                    if n.func.attr in ("append", "insert", "remove", "pop", "clear", "extend", "sort", "reverse", "update") and base is not root:
                        writes.append(n)
                    else:
                        for tg in ctx.world.resolve_call(ctx.world.types(fi), n):
                            if tg.func is not None and tg.bound_recv is not None and isinstance(tg.bound_recv, ast.Name) and tg.bound_recv.id == selfp \
                                    and any(not x.startswith("$") for x in fx.writes(tg.func)):
                                writes.append(n)
        md = MarkDomain()
        for wn in writes:
            md.mark(wn, "WROTE")
        sites = {}
        for key, esc in s.escapes.items():
            sites.setdefault(esc.site, []).append(esc)
        probes = []
        for n in ast.walk(fi.node):
            if isinstance(n, (ast.expr, ast.Raise)):
                t = norm(n) if not isinstance(n, ast.Raise) else None
                if isinstance(n, ast.Raise):
                    cls = resolve_exc_class(prog, fi.module, n.exc) if n.exc is not None else None
                    t = f"raise {h.short(cls)}" if cls else None
                if t in sites:
                    probes.append((n, t))
                    md.probe(n)
        run_marks(ctx, fi, md)
        for (n, t) in probes:
            may = may_at(md, n)
            if may is None:
                continue
            rep.count("failure points of mutators")
            # a failing store target is evaluated before the store itself
            ok = "WROTE" not in may
            rep.oblige(("R3", fi.qname, t), ok, sample={"mutator": name, "may fail at": t, "after a write": not ok})
            if not ok:
                e = sites[t][0]
                rep.add("R3", fi.qname, t, f"{h.short(e.cls)} can be raised here after {name} has already changed the tree "
                        f"(a failing edit must leave the tree unchanged): {e.origin[2]}", fi.loc(n))
    rep.floor("mutators checked for validate-then-mutate", 4)


def rule_r4(ctx, rep):
    """document order of the descendant queries: find_descendant / find_all_descendants are a pre-order walk -- the only
    queries they make are the recursive call on the loop variable of the one loop over the node's own children, after the
    loop variable itself has been tested"""
    prog = ctx.prog
    w = ctx.world
    nm = w.nm
    # the level-by-level queries stay on the levels they are about: a path / child query that consults a descendant or ancestry
    # query is no longer anchored at the node it starts from (the same name chain deeper down would match)
    LEVEL = ("find_child", "find_all_children", "find_all_nodes_by_path", "find_single_node_by_path", "child_index")
    DEEP = ("find_descendant", "find_all_descendants", "get_ancestry")
    for name in LEVEL:
        fq = prog.funcs.get(f"{NODE_Q}.{name}")
        if fq is None:
            continue
        rep.touch(fq)
        rep.count("level-wise queries")
        ftq = w.types(fq)
        for n in ast.walk(fq.node):
            if isinstance(n, ast.Call):
                for tg in w.resolve_call(ftq, n):
                    if tg.func is not None and tg.func.cls is not None and tg.func.cls.qname == NODE_Q and tg.func.name in DEEP:
                        rep.oblige(("R4", name, tg.func.name), False)
                        rep.add("R4", fq.qname, n, f"`{name}` consults `{tg.func.name}`: the query is about the node's own children (level by level), "
                                f"a match found through a deep query is not anchored at the node the query starts from", fq.loc(n))
    for name in ("find_descendant", "find_all_descendants"):
        fi = prog.func(f"{NODE_Q}.{name}")
        rep.touch(fi)
        ft = w.types(fi)
        selfp = fi.params[0]
        loops = [n for n in ast.walk(fi.node) if isinstance(n, ast.For) and isinstance(n.iter, ast.Attribute) and nm.canon(n.iter.attr) == "_children"
                 and isinstance(n.iter.value, ast.Name) and n.iter.value.id == selfp and isinstance(n.target, ast.Name)]
        rep.count("descendant-query loops", len(loops))
        ok = len(loops) == 1
        if ok:
            lp = loops[0]
            lv = lp.target.id
            for n in ast.walk(fi.node):
                if isinstance(n, ast.Call):
                    for tg in w.resolve_call(ft, n):
                        if tg.func is not None and tg.func.cls is not None and tg.func.cls.qname == NODE_Q and (tg.func.name.startswith("find_") or tg.func.name == "get_ancestry"):
                            recv = tg.bound_recv
                            good = tg.func.qname == fi.qname and isinstance(recv, ast.Name) and recv.id == lv and any(x is n for x in ast.walk(lp))
                            rep.oblige(("R4", name, norm(n)[:60]), good)
                            if not good:
                                rep.add("R4", fi.qname, n, f"`{name}` consults `{norm(n.func)}` besides its own pre-order recursion over each child: the result "
                                        f"is no longer the first / all matches in document order", fi.loc(n))
            # the name test on the loop variable precedes the recursion in the loop body
            first_test = None
            first_rec = None
            for n in ast.walk(lp):
                if isinstance(n, ast.Compare) and any(isinstance(x, ast.Attribute) and isinstance(x.value, ast.Name) and x.value.id == lv and nm.canon(x.attr) == "_name"
                                                      for x in ast.walk(n)) and first_test is None:
                    first_test = n
                if isinstance(n, ast.Call) and isinstance(n.func, ast.Attribute) and n.func.attr == name and first_rec is None:
                    first_rec = n
            good = first_test is not None and first_rec is not None and (first_test.lineno, first_test.col_offset) < (first_rec.lineno, first_rec.col_offset)
            rep.oblige(("R4", name, "order"), good)
            if not good:
                rep.add("R4", fi.qname, lp.iter, f"`{name}` does not test a child before descending into it (pre-order)", fi.loc(lp))
            bad = [x for x in ast.walk(lp) if isinstance(x, ast.Continue)]
            if bad:
                rep.add("R4", fi.qname, bad[0], "a child is skipped by the descendant walk", fi.loc(bad[0]))
        else:
            rep.add("R4", fi.qname, "loop over the children", f"`{name}` is not one loop over the node's own children", fi.loc())
    rep.floor("descendant-query loops", 2)


def rule_r5(ctx, rep):
    """queries and edits observe the tree as it is: no Node method keeps state between calls in a mutable default argument or
    a module-level container (the registry Node.store is C14's subject)"""
    from ..memo import check_slice
    nm = ctx.world.nm
    funcs = [m for m in nm.ci.methods.values()]
    check_slice(ctx, rep, "R5", funcs, "a Node query / edit")


# R2 (positions in shift proven in bounds, returned index follows the swaps) and R4 (shape of the query loops) claim what R8 / R7 decide by
# folding shift and the queries over every position class; they stand on their own whenever the fold is incomplete or reports something
FOLDS = {"R7": {"count": "query verdicts", "min": 160, "about": ("find_", "get_ancestry", "child_index")},
         "R8": {"count": "edit verdicts", "min": 42, "about": ("add_child", "remove_child", "replace_child", "shift", "remove_children")}}
SUBORDINATE = {"R2": "R8", "R4": "R7"}


def run(ctx, rep):
    rep.explanation = (
        "link pairing: every statement that puts an object into a child list is accompanied, on all paths (marker dataflow, "
        "before or after), by the matching parent assignment; nobody outside class Node writes a child list; in shift every "
        "subscript is proven in bounds for its exact offset (guard facts), the returned variable follows every swap on all paths, "
        "and only the documented ValueError escapes, before any write; for add/remove/replace/shift no failure point is "
        "reachable after a write to the tree (validate-then-mutate)")
    rep.rules_run = ["R1", "R2", "R3", "R4", "R5", "R7", "R8"]
    rep.assumptions += ["NOT decided: equivalence with an ordered-list model over all histories; R7 decides the queries on every position class of a name "
                        "(first / middle / last / repeated / nested / absent), not on every tree",
                        "a write to the incoming node before it is attached (new_child.parent = self) is not tree state yet"]
    only = getattr(rep, "only", None)
    from .c09_worlds import rule_r7, rule_r8
    for name, fn in (("R1", rule_r1), ("R2", rule_r2), ("R3", rule_r3), ("R4", rule_r4), ("R5", rule_r5), ("R7", rule_r7), ("R8", rule_r8)):
        if only in (None, name):
            rep.guarded(name, fn, ctx, rep)
