"""C15-R7 -- prune folded over small documents.

validate.prune, with everything it calls (single-node validation, the Rule object, the rule table read from rules.json), is
folded (sa/peval.py) on documents built from a few real elements whose rules are short enough to know by heart --
individualName = salutation*, givenName*, surName; a responsible party = (individualName | organizationName | positionName)+ ...;
additionalMetadata = describes*, metadata; metadata = anything -- with unknown elements and misplaced known elements planted
at the top and one level down, a parent that has another error besides the foreign child, content below metadata, children in
the wrong order, in both modes.  The outcome is compared with the statement: exactly the named subtrees are removed, kept nodes
are the same objects with the same fields in the same order, the returned list names exactly the removed roots with a text
reason, the registry holds exactly what is still in the tree, a second prune removes nothing, nothing is raised."""
from __future__ import annotations

from ..peval import Opaque, PEval, PEvalUnsupported, Raised
from ..types import NODE_Q
from .worlds import FIELDS, is_node, mkc, nodes, number

PRUNE = "metapype.eml.validate.prune"


def documents():
    """(description, builder -> (root, [nodes expected to be removed, as subtree roots]), strict)"""
    def name(*kids):
        return mkc("individualName", None, list(kids))

    def a():
        foo, title = mkc("foo", "x"), mkc("title", "misplaced")
        return name(mkc("givenName", "g"), foo, title, mkc("surName", "s")), [foo, title]

    def b():
        bar = mkc("bar", None, [mkc("baz", "deep")])
        return mkc("creator", None, [name(mkc("givenName", "g"), bar, mkc("surName", "s")), mkc("organizationName", "o")]), [bar]

    def c():
        foo = mkc("foo", "x")
        return name(foo), [foo]

    def d():
        return mkc("additionalMetadata", None, [mkc("metadata", None, [mkc("anything", None, [mkc("foo", "x"), mkc("title", "y")])])]), []

    def e(strict):
        bad = name(mkc("givenName", "g"))
        return mkc("creator", None, [bad, mkc("organizationName", "o")]), ([bad] if strict else [])

    def g():
        return name(mkc("salutation", "Dr"), mkc("givenName", "g"), mkc("surName", "s")), []

    def h(strict):
        bad = name(mkc("surName", "s"), mkc("givenName", "g"))
        return mkc("creator", None, [bad, mkc("organizationName", "o")]), ([bad] if strict else [])

    def i():
        q = mkc("qqq", "x")
        return mkc("creator", None, [name(mkc("givenName", "g"), mkc("surName", "s")), q]), [q]

    def j():
        f1, f2 = mkc("foo", "1"), mkc("foo", "2")
        return name(f1, mkc("givenName", "g"), f2, mkc("surName", "s")), [f1, f2]
    out = []
    for strict in (False, True):
        m = "strict" if strict else "default"
        out += [(f"unknown and misplaced children among valid ones ({m})", a, strict), (f"an unknown subtree one level down ({m})", b, strict),
                (f"a foreign child under a parent that also lacks a required child ({m})", c, strict), (f"foreign content below metadata ({m})", d, strict),
                (f"a child that fails single-node validation ({m})", (lambda s=strict: e(s)), strict), (f"a valid element ({m})", g, strict),
                (f"a child whose own children are in the wrong order ({m})", (lambda s=strict: h(s)), strict),
                (f"an unknown element next to a valid child ({m})", i, strict), (f"two unknown children of the same name ({m})", j, strict)]
    return out


def shape(n):
    return f"{n['_name']}({', '.join(shape(c) for c in n['_children'])})" if n["_children"] else n["_name"]


def rule_r7(ctx, rep):
    fi = ctx.prog.funcs.get(PRUNE)
    if fi is None:
        return
    for what, build, strict in documents():
        root, removed = build()
        number(root)
        everything = nodes(root)
        gone_ids = {id(x) for r in removed for x in nodes(r)}
        kept = [n for n in everything if id(n) not in gone_ids]
        kept_fields = {id(n): tuple(repr(n.get(f)) for f in FIELDS) for n in kept}
        kept_kids = {id(n): [id(c) for c in n["_children"] if id(c) not in gone_ids] for n in kept}
        pe = PEval(ctx.world)
        store = {n["_id"]: n for n in everything}
        pe.class_state[(NODE_Q, "store")] = store
        before = shape(root)
        why = None
        try:
            out = pe.call(fi, [root, strict])
            again = pe.call(fi, [root, strict]) if isinstance(out, list) else None
        except Raised as r:
            out, again = None, None
            why = f"raises {(r.cls or '').rsplit('.', 1)[-1]}; pruning never raises"
        except PEvalUnsupported as ex:
            rep.notes.append(f"prune not folded for {what}: {ex}")
            continue
        rep.count("prune verdicts")
        if why is None and (isinstance(out, Opaque) or not isinstance(out, list)):
            rep.notes.append(f"prune not folded for {what}: the result is not a list")
            continue
        if why is None:
            for n in kept:
                if [id(c) for c in n["_children"]] != kept_kids[id(n)]:
                    want = [c["_name"] for c in n["_children"] if False]
                    why = (f"leaves {n['_name']} with the children ({', '.join(c['_name'] for c in n['_children'])}); exactly "
                           f"({', '.join(r['_name'] for r in removed) or 'nothing'}) had to go, the rest to stay in order")
                    break
                if tuple(repr(n.get(f)) for f in FIELDS) != kept_fields[id(n)]:
                    why = f"changes a field of the kept node {n['_name']}"
                    break
        if why is None:
            named = [x[0] if isinstance(x, tuple) and x else None for x in out]
            if any(not (isinstance(x, tuple) and len(x) == 2 and is_node(x[0]) and isinstance(x[1], str)) for x in out):
                why = "returns an entry that is not a (removed node, reason text) pair"
            elif sorted(map(id, named)) != sorted(id(r) for r in removed):
                why = (f"returns ({', '.join(x['_name'] for x in named if is_node(x)) or 'nothing'}) as removed; the removed subtree roots are "
                       f"({', '.join(r['_name'] for r in removed) or 'none'})")
        if why is None:
            live = {n["_id"] for n in nodes(root)}
            reg = set(store.keys())
            if reg - live:
                k = sorted(reg - live)[0]
                why = f"leaves the removed node {store[k]['_name']} in the registry"
            elif live - reg:
                why = "unregisters a node that is still in the tree"
        if why is None and again:
            why = f"removes ({', '.join(x[0]['_name'] for x in again if isinstance(x, tuple) and is_node(x[0]))}) when run a second time"
        rep.oblige(("R7", what), why is None, sample={"document": what, "before": before, "after": shape(root)})
        if why is not None:
            rep.add("R7", fi.qname, what, f"prune on {what}, {before}: {why}", fi.loc())
            break
