"""C04 -- validation is total: only rule errors escape, collecting mode never raises."""
from __future__ import annotations

import ast

from .. import prereq
from ..model import AnalysisError, EnumMember, norm
from ..types import T_NODE, T_OPT, T_STR
from ..valslice import ENTRY, RULE_ERR, VERR, is_none_test, mode_params, reachable, report_sites

MODES = {"FF": ("none",), "COLLECT": ("nn",)}


def escapes_by_mode(ctx, eng, fi, mp):
    out = {}
    for mode, (k,) in MODES.items():
        cf = frozenset({(k, mp)}) if mp else frozenset()
        out[mode] = eng.entry(fi, cf)
    return out


def rule_r1(ctx, rep, entries=None, prop_filter=None):
    """escape sets of the entry points in both modes"""
    eng = prereq.engine(ctx)
    prog = ctx.prog
    h = ctx.hier
    funcs = [prog.func(q) for q in (entries or ENTRY)]
    sl = reachable(ctx, funcs)
    mps = mode_params(ctx, sl)
    seen = set()
    for fi in funcs:
        mp = mps.get(fi.qname)
        if mp is None:
            raise AnalysisError(f"anchor vanished: {fi.qname} has no mode parameter (errs)")
        res = escapes_by_mode(ctx, eng, fi, mp)
        for mode, summ in res.items():
            rep.count("entry point x mode")
            for key, esc in sorted(summ.escapes.items(), key=lambda kv: str(kv[0])):
                allowed = mode == "FF" and h.issub(esc.cls, RULE_ERR)
                rep.oblige(("R1", fi.qname, mode, esc.cls, esc.origin[:2]), allowed)
                if allowed:
                    continue
                ofn, oc, why = esc.origin
                k = (ofn, oc, esc.cls)
                modes = sorted(m for m, s in res.items() if any(e.origin == esc.origin and e.cls == esc.cls for e in s.escapes.values()))
                if k in seen:
                    continue
                seen.add(k)
                chain = " <- ".join(x.rsplit(".", 1)[-1] for x in esc.chain)
                rep.add("R1", ofn, oc, f"{h.short(esc.cls)} may escape validation ({'/'.join(modes)} mode): {why}",
                        esc.loc, path=f"{fi.qname.rsplit('.', 1)[-1]}: {chain}")
    # ledger
    rows = {}
    for (q, cf), s in eng.memo.items():
        for r in s.ledger:
            rows[(r["func"], r["construct"], r["op"])] = r
    slice_names = {f.qname for f in sl}
    n_dis = 0
    for (fn, c, op), r in sorted(rows.items()):
        if fn not in slice_names:
            continue
        rep.count("partial operations on the validation slice")
        ok = r["discharge"] != "ESCAPES" or op == "raise"
        rep.oblige(("ledger", fn, c, op), ok)
        if r["discharge"].startswith("D-SPEC"):
            n_dis += 1
        if len(rep.samples) < 25 and op != "raise":
            rep.sample({"function": fn.rsplit(".", 1)[-1], "construct": c[:90], "operation": op,
                        "may raise": r["may_raise"], "discharged by": r["discharge"]})
    rep.count("spec subscripts discharged by D-SPEC", n_dis)
    for f in sl:
        rep.touch(f)
    rep.assumed_total |= eng.assumed_total
    rep.extra["provisos"] = eng.provisos
    rep.extra["summaries_computed"] = len(eng.memo)
    return sl, mps


def rule_r2_r3_r4(ctx, rep, sl, mps):
    prog = ctx.prog
    w = ctx.world
    verr = prog.cls(VERR)
    members = set(prog.enum_members(verr))
    from ..astutil import enum_aliases
    for (m2, m1) in enum_aliases(prog, verr):
        rep.oblige(("R4", "distinct", m2), False)
        rep.add("R4", VERR, f"member {m2}", f"{m2} has the same value as {m1}: the two error codes cannot be told apart in the collected list", verr.module.relpath)
    for fi in sl:
        mp = mps.get(fi.qname)
        if mp is None:
            continue
        ft = w.types(fi)
        pairs, orphans = report_sites(ctx, fi, mp)
        for p in pairs:
            if p.helper:
                # the generic pair of a reporting helper: class and code are bound at its call sites, which are counted instead
                rep.notes.append(f"{fi.qname} is a reporting helper (raise/append pair parameterised by its arguments)")
                continue
            rep.count("raise/append pairs")
            rep.oblige(("R2", fi.qname, norm(p.raise_node.exc)[:60], str(p.code)), True,
                       sample={"pair in": fi.qname.rsplit(".", 1)[-1], "raises": ctx.hier.short(p.exc_cls),
                               "appends": str(p.code), "idiom": p.idiom} if len(rep.samples) < 32 else None)
            # R4 tuple shape
            rep.count("appended tuples")
            tup = p.append_call.args[0] if p.append_call.args else None
            tfi, tft = fi, ft
            if p.via_helper:
                # the tuple is built inside the helper; its first element is the code bound at this call site
                H = prog.func(p.via_helper)
                hp, _ = report_sites(ctx, H, mode_params(ctx, [H]).get(H.qname))
                hp = [x for x in hp if x.helper]
                tup = hp[0].append_call.args[0] if hp and hp[0].append_call.args else None
                tfi, tft = H, w.types(H)
            ok = isinstance(tup, ast.Tuple) and len(tup.elts) >= 3
            why = "appended value is not a tuple of at least (code, message, node)"
            if ok:
                code = p.code if p.via_helper else prog.const(fi.module, tup.elts[0])
                fi_, ft_ = fi, ft
                fi, ft = tfi, tft
                if not (isinstance(code, EnumMember) and code.cls == VERR and code.member in members):
                    ok, why = False, f"element 0 `{norm(tup.elts[0])}` is not a declared ValidationError member"
                elif ft.type_of(tup.elts[1]) != T_STR:
                    ok, why = False, f"element 1 `{norm(tup.elts[1])}` is not the message string"
                elif ft.type_of(tup.elts[2]) not in (T_NODE, T_OPT):
                    ok, why = False, f"element 2 `{norm(tup.elts[2])}` is not the offending node"
                fi, ft = fi_, ft_
            rep.oblige(("R4", fi.qname, norm(tup)[:80] if tup is not None else "?"), ok)
            if not ok:
                rep.add("R4", fi.qname, p.append_call, why, fi.loc(p.append_call))
        for o in orphans:
            rep.oblige(("R2", fi.qname, norm(o)[:80]), False)
            what = "raise of a rule error" if isinstance(o, ast.Raise) else "append to the error list"
            rep.add("R2", fi.qname, o, f"{what} is not one half of an `if errs is None: raise ... else: errs.append(...)` pair "
                    f"(the two validation modes would disagree)", fi.loc(o))
        # R3 mode independence: every use of the mode parameter
        for n in ast.walk(fi.node):
            if isinstance(n, ast.Name) and n.id == mp and isinstance(n.ctx, ast.Load):
                rep.count("uses of the error-list parameter")
        allowed = set()
        for n in ast.walk(fi.node):
            if isinstance(n, ast.If) and is_none_test(n.test, mp) is not None:
                allowed.add(id(n.test.left))
            if isinstance(n, ast.Call):
                if isinstance(n.func, ast.Attribute) and n.func.attr == "append" and isinstance(n.func.value, ast.Name) and n.func.value.id == mp:
                    allowed.add(id(n.func.value))
                for tg in w.resolve_call(ft, n):
                    if tg.func is not None and tg.func.qname in mps:
                        a = w.arg_map(tg, n).get(mps[tg.func.qname])
                        if isinstance(a, ast.Name) and a.id == mp:
                            allowed.add(id(a))
        for n in ast.walk(fi.node):
            if isinstance(n, ast.Name) and n.id == mp:
                ok = id(n) in allowed and isinstance(n.ctx, ast.Load)
                rep.oblige(("R3", fi.qname, n.lineno, n.col_offset), ok)
                if not ok:
                    # find the enclosing statement for the report
                    stmt = None
                    for s in ast.walk(fi.node):
                        if isinstance(s, ast.stmt) and any(x is n for x in ast.walk(s)):
                            if stmt is None or (s.lineno >= stmt.lineno):
                                stmt = s
                    cons = stmt.test if isinstance(stmt, (ast.If, ast.While)) and any(x is n for x in ast.walk(stmt.test)) else stmt
                    rep.add("R3", fi.qname, cons if cons is not None else n,
                            f"the error list `{mp}` is used other than in `{mp} is None`, `{mp}.append(...)` or as the errs "
                            f"argument of a validator: a decision may depend on the validation mode", fi.loc(n))
    rep.floor("raise/append pairs", 12)


def rule_r5(ctx, rep):
    prog = ctx.prog
    fi = prog.func("metapype.eml.validate.node")
    mps = mode_params(ctx, reachable(ctx, [fi]))
    mp = mps.get(fi.qname)
    pairs, _ = report_sites(ctx, fi, mp) if mp else ([], [])
    rep.count("unknown-name report")
    ok = False
    for p in pairs:
        if p.exc_cls and p.exc_cls.endswith(".UnknownNodeError") and isinstance(p.code, EnumMember) and p.code.member == "UNKNOWN_NODE":
            ok = True
    rep.oblige(("R5", "validate.node"), ok)
    if not ok:
        rep.add("R5", fi.qname, "unknown-name branch", "validate.node has no UnknownNodeError / UNKNOWN_NODE report pair", fi.loc())


def rule_termination(ctx, rep, sl):
    """mechanical part of the termination argument: every `while` on the slice
    advances the cursor it tests on every iteration, except the choice loop
    whose progress is a paper argument (names unique within a rule)"""
    paper = {"metapype.eml.rule.Rule._validate_choice": "each iteration enters the alternative holding the current name (names are unique within a rule, C10 side output) and that matcher consumes it"}
    for fi in sl:
        for n in ast.walk(fi.node):
            if not isinstance(n, ast.While):
                continue
            rep.count("while loops on the slice")
            if fi.qname in paper:
                rep.notes.append(f"termination of the loop in {fi.qname} is argued, not decided: {paper[fi.qname]}")
                continue
            # variables compared with `<`/`<=` in the test
            adv = set()
            for c in ast.walk(n.test):
                if isinstance(c, ast.Compare) and isinstance(c.ops[0], (ast.Lt, ast.LtE)) and "len(" in norm(c.comparators[0]):
                    adv.add(norm(c.left))
            if not adv:
                rep.notes.append(f"termination of `while {norm(n.test)[:50]}` in {fi.qname} is not decided (not a cursor-below-length loop)")
                continue
            ok = False
            for s in n.body:  # top-level statements of the body execute on every iteration that completes
                if isinstance(s, ast.AugAssign) and isinstance(s.op, ast.Add) and norm(s.target) in adv:
                    ok = True
                if isinstance(s, (ast.Return, ast.Break)):
                    ok = ok or False
            early = False
            for s in n.body:
                if isinstance(s, ast.AugAssign) and isinstance(s.op, ast.Add) and norm(s.target) in adv:
                    break
                if any(isinstance(x, ast.Continue) for x in ast.walk(s)):
                    early = True
            rep.oblige(("T", fi.qname, norm(n.test)[:60]), ok and not early)
            if not (ok and not early):
                rep.add("T", fi.qname, n.test, "loop does not advance the variable bounded by its condition on every iteration "
                        "(validation may not terminate)", fi.loc(n))


def run(ctx, rep):
    rep.explanation = (
        "exception-escape analysis (E3) of validate.node / validate.tree / Rule.validate_rule, once per validation mode "
        "(errs is None / errs is a list), over all paths of all functions reachable from them; every partial operation "
        "(subscript, conversion, nullable use, lookup, explicit raise) is in the ledger with the rule that discharges it; "
        "plus raise/append pairing (R2), mode independence (R3), tuple shape (R4), unknown-name report (R5) and the "
        "mechanical part of the termination argument (T)")
    rep.rules_run = ["R1", "R2", "R3", "R4", "R5", "R6", "T"]
    rep.assumptions += [
        "external callees not in the partial-operation table are total (listed under assumed_total)",
        "RecursionError / MemoryError are outside the claim",
        "termination of the choice loop is a paper argument (DESIGN.md C04)",
        "Node fields hold the types the setters establish (content/tail: Optional[str])",
    ]
    only = getattr(rep, "only", None)
    sl, mps = rule_r1(ctx, rep)
    if only in (None, "R2", "R3", "R4"):
        rule_r2_r3_r4(ctx, rep, sl, mps)
    if only in (None, "R5"):
        rule_r5(ctx, rep)
    if only in (None, "R6"):
        from .c05_worlds import rule_worlds
        rule_worlds(ctx, rep, "C04")
    if only in (None, "T"):
        rule_termination(ctx, rep, sl)
    rep.floor("entry point x mode", 6)
    rep.floor("partial operations on the validation slice", 35)
    rep.floor("spec subscripts discharged by D-SPEC", 8)
