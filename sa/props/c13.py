"""C13 -- namespace operations stay inside their subtree (partial): copy-on-write
of the deliberately shared namespace dicts (R1), downward-only recursion keyed
on the identity of the old dict (R2), attach merges without overwriting (R3)."""
from __future__ import annotations

import ast

from ..exc import resolve_exc_class
from ..flow import Flow
from ..marks import MarkDomain, may_at, must_at, run_marks
from ..model import AnalysisError, iter_funcs_in_module, norm
from ..types import NODE_Q, T_NODE, T_OPT
from ..valslice import reachable

ALPHABET = [NODE_Q + ".add_child", NODE_Q + ".add_namespace", NODE_Q + ".remove_namespace", NODE_Q + ".copy",
            "metapype.model.metapype_io._from_dict", "metapype.model.metapype_io._process_element",
            "metapype.model.mp_io.from_json", "metapype.model.mp_io.from_xml_element"]
BULK = {NODE_Q + ".fix_nsmap", NODE_Q + ".set_nsmap"}
MUT = ("update", "pop", "popitem", "clear", "setdefault", "__setitem__", "__delitem__")


def _path(e):
    if isinstance(e, ast.Name):
        return e.id
    if isinstance(e, ast.Attribute):
        b = _path(e.value)
        return None if b is None else f"{b}.{e.attr}"
    return None


class CowDomain:
    """must-set of node paths whose nsmap was re-bound to a fresh dict in this function (and not re-bound since)"""

    def __init__(self, ctx, fi):
        self.ctx = ctx
        self.fi = fi
        self.nm = ctx.world.nm
        self.ft = ctx.world.types(fi)
        self.sites = []  # (node, owner path, ok)
        self.flow = None

    def meet(self, a, b):
        return a & b

    def enter_function(self, fi, st, flow):
        return st

    def assume_atom(self, test, outcome, st):
        return st

    def bind_for(self, target, it, st, flow, comp):
        p = _path(target)
        if p:
            st = frozenset(x for x in st if x != p and not x.startswith(p + "."))
        return st

    def bind_handler(self, hd, st, flow):
        return st

    def bind_with(self, item, st, flow):
        return st

    def is_nsmap(self, e):
        if isinstance(e, ast.Attribute) and self.nm.canon(e.attr) == "_nsmap" and self.ft.type_of(e.value) in (T_NODE, T_OPT, None):
            return _path(e.value)
        return None

    def fresh(self, v):
        if isinstance(v, (ast.Dict, ast.DictComp)):
            return True
        if isinstance(v, ast.Call):
            f = v.func
            if isinstance(f, ast.Name) and f.id == "dict":
                return True
            r = self.ctx.prog.resolve_name_expr(self.fi.module, f)
            if r and r[0] == "external" and r[1] in ("copy.deepcopy", "copy.copy"):
                return True
            if isinstance(f, ast.Attribute) and f.attr == "copy" and self.ft.type_of(f.value) in ("dict", "NodeDict"):
                return True
        return False

    def _site(self, node, owner, st, flow):
        if owner is not None and not flow.quiet:
            self.sites.append((node, owner, owner in st))

    def expr(self, e, st, flow):
        if isinstance(e, ast.Call) and isinstance(e.func, ast.Attribute) and e.func.attr in MUT:
            self._site(e, self.is_nsmap(e.func.value), st, flow)
        if isinstance(e, ast.Call):
            # a constructor call result bound to a name is handled in stmt(); any other call may re-bind nsmaps of its arguments
            for tg in self.ctx.world.resolve_call(self.ft, e):
                if tg.func is not None and tg.kind != "class":
                    from ..treefx import TreeFx
                    fx = self.ctx.get("treefx", lambda: TreeFx(self.ctx.world))
                    if "_nsmap" in fx.writes(tg.func):
                        am = self.ctx.world.arg_map(tg, e)
                        for a in am.values():
                            p = _path(a)
                            if p:
                                st = frozenset(x for x in st if x != p)
        return st

    def stmt(self, s, st, flow):
        if isinstance(s, ast.Assign):
            for t in s.targets:
                own = self.is_nsmap(t)
                if own is not None:
                    st = (st | {own}) if self.fresh(s.value) else (st - {own})
                elif isinstance(t, ast.Subscript):
                    self._site(s, self.is_nsmap(t.value), st, flow)
                elif isinstance(t, ast.Name):
                    st = frozenset(x for x in st if x != t.id and not x.startswith(t.id + "."))
                    if isinstance(s.value, ast.Call):
                        tg = self.ctx.world.resolve_call(self.ft, s.value)
                        if tg and tg[0].kind == "class" and tg[0].name == NODE_Q:
                            st = st | {t.id}  # a new Node starts with its own empty map
        elif isinstance(s, ast.AugAssign):
            own = self.is_nsmap(s.target)
            if own is not None:
                self._site(s, own, st, flow)
        elif isinstance(s, ast.Delete):
            for t in s.targets:
                if isinstance(t, ast.Subscript):
                    self._site(s, self.is_nsmap(t.value), st, flow)
        return st


def rule_r1(ctx, rep):
    prog = ctx.prog
    roots = [prog.func(q) for q in ALPHABET if q in prog.funcs]
    if len(roots) < 6:
        raise AnalysisError("anchor vanished: namespace alphabet operations")
    sl = reachable(ctx, roots)
    names = {f.qname for f in sl}
    everything = []
    for mi in prog.modules.values():
        if mi.name.startswith("tests.") or mi.name in ("metapype.eml.harness", "metapype.eml.rules"):
            continue
        everything.extend(iter_funcs_in_module(mi))
    for fi in everything:
        if not any(isinstance(n, ast.Attribute) and n.attr in ("nsmap", "_nsmap") for n in ast.walk(fi.node)):
            continue
        dom = CowDomain(ctx, fi)
        flow = Flow(fi, dom, ctx.hier, lambda e: resolve_exc_class(prog, fi.module, e) or "Exception")
        dom.flow = flow
        flow.run(frozenset())
        seen = set()
        for (node, owner, ok) in dom.sites:
            if id(node) in seen and ok:
                continue
            seen.add(id(node))
            in_alpha = fi.qname in names and fi.qname not in BULK
            rep.count("in-place namespace-map mutations")
            if fi.qname in BULK or not in_alpha:
                if not ok:
                    rep.notes.append(f"{fi.qname}: `{norm(node)}` writes a possibly shared namespace map in place; the function is a bulk "
                                     f"repair helper outside the property's operation alphabet (note, not a violation)")
                continue
            rep.touch(fi)
            rep.oblige(("R1", fi.qname, norm(node)), ok, sample={"mutation": norm(node), "in": fi.name, "map re-bound to a fresh dict first": ok})
            if not ok:
                rep.add("R1", fi.qname, node, f"`{owner}`'s namespace map is written in place although it may be the dict shared with its parent, "
                        f"siblings or children (sharing is deliberate): the binding changes outside the subtree", fi.loc(node))
    rep.floor("in-place namespace-map mutations", 2)


def rule_r2(ctx, rep):
    prog = ctx.prog
    nm = ctx.world.nm
    for name in ("add_namespace", "remove_namespace"):
        fi = prog.func(f"{NODE_Q}.{name}")
        rep.touch(fi)
        rep.count("namespace mutators")
        selfp = fi.params[0]
        ft = ctx.world.types(fi)
        loops = [n for n in ast.walk(fi.node) if isinstance(n, ast.For) and isinstance(n.iter, ast.Attribute) and nm.canon(n.iter.attr) == "_children"
                 and isinstance(n.iter.value, ast.Name) and n.iter.value.id == selfp and isinstance(n.target, ast.Name)]
        loopvars = {n.target.id for n in loops}
        # (a) receivers of nsmap writes / recursive calls: self or a child of self only
        for n in ast.walk(fi.node):
            recv = None
            if isinstance(n, ast.Assign):
                for t in n.targets:
                    if isinstance(t, ast.Attribute) and nm.canon(t.attr) == "_nsmap":
                        recv = t.value
                    if isinstance(t, ast.Subscript) and isinstance(t.value, ast.Attribute) and nm.canon(t.value.attr) == "_nsmap":
                        recv = t.value.value
            if isinstance(n, ast.Delete):
                for t in n.targets:
                    if isinstance(t, ast.Subscript) and isinstance(t.value, ast.Attribute) and nm.canon(t.value.attr) == "_nsmap":
                        recv = t.value.value
            if isinstance(n, ast.Call) and isinstance(n.func, ast.Attribute) and n.func.attr in ("add_namespace", "remove_namespace", "set_nsmap", "fix_nsmap"):
                recv = n.func.value
            if recv is None:
                continue
            rep.count("namespace writes / recursive calls")
            p = _path(recv)
            ok = p == selfp or p in loopvars
            rep.oblige(("R2a", fi.qname, norm(n)), ok)
            if not ok:
                rep.add("R2", fi.qname, n, f"`{name}` writes the namespace map of `{p}`, which is neither the node itself nor one of its children "
                        f"(the operation must stay inside the subtree)", fi.loc(n))
        # (b) re-attachment of children keyed on the identity of the OLD dict
        idp = None
        for p_ in fi.params:
            d = fi.default_of(p_)
            if isinstance(d, ast.Constant) and d.value is None and p_ != selfp and ft.env.get(p_) in ("int", "optint", None, "optany"):
                idp = p_ if idp is None else idp
        def is_id_of_own_map(e):
            return isinstance(e, ast.Call) and isinstance(e.func, ast.Name) and e.func.id == "id" and e.args \
                and _path(e.args[0]) in (f"{selfp}.nsmap", f"{selfp}._nsmap")

        def is_capture(v):
            """id(self.nsmap), or `id(self.nsmap) if p is None else p` (either polarity) / `p or id(self.nsmap)`: the variable holds
            the identity of the old map (its own, or the one handed down) on every path"""
            if is_id_of_own_map(v):
                return True
            if isinstance(v, ast.IfExp):
                a, b = v.body, v.orelse
                return (is_id_of_own_map(a) and isinstance(b, ast.Name) and b.id in fi.params) or (is_id_of_own_map(b) and isinstance(a, ast.Name) and a.id in fi.params)
            if isinstance(v, ast.BoolOp) and isinstance(v.op, ast.Or) and len(v.values) == 2:
                return isinstance(v.values[0], ast.Name) and v.values[0].id in fi.params and is_id_of_own_map(v.values[1])
            return False
        captures = [n for n in ast.walk(fi.node) if isinstance(n, ast.Assign) and len(n.targets) == 1 and isinstance(n.targets[0], ast.Name) and is_capture(n.value)]
        rebinds = [n for n in ast.walk(fi.node) if isinstance(n, ast.Assign) and any(isinstance(t, ast.Attribute) and nm.canon(t.attr) == "_nsmap"
                                                                                  and _path(t.value) == selfp for t in n.targets)]
        if not captures:
            rep.oblige(("R2b", fi.qname), False)
            rep.add("R2", fi.qname, "id(self.nsmap)", "the identity of the node's old namespace dict is not captured: children that shared it "
                    "cannot be told from children with their own map", fi.loc())
        else:
            idvar = captures[0].targets[0].id
            md = MarkDomain()
            for c in captures:
                md.mark(c, "OLDID")
            for n in ast.walk(fi.node):
                if isinstance(n, ast.Compare) and len(n.ops) == 1 and isinstance(n.left, ast.Name) and n.left.id == idvar \
                        and isinstance(n.comparators[0], ast.Constant) and n.comparators[0].value is None:
                    if isinstance(n.ops[0], ast.Is):
                        md.mark_test(n, if_false=["OLDID"])
                    elif isinstance(n.ops[0], ast.IsNot):
                        md.mark_test(n, if_true=["OLDID"])
            for r in rebinds:
                md.probe(r)
            run_marks(ctx, fi, md)
            for r in rebinds:
                must = must_at(md, r)
                if must is None:
                    continue
                rep.count("re-bindings of the node's own map")
                ok = "OLDID" in must
                rep.oblige(("R2b", fi.qname, norm(r)), ok)
                if not ok:
                    rep.add("R2", fi.qname, r, "the node's map is re-bound before the identity of the old dict is captured: the test that "
                            "re-attaches sharing children compares against the new dict", fi.loc(r))
            # children are re-attached only under the identity test
            for lp in loops:
                for n in ast.walk(lp):
                    if isinstance(n, ast.Assign) and any(isinstance(t, ast.Attribute) and nm.canon(t.attr) == "_nsmap" and _path(t.value) == lp.target.id for t in n.targets):
                        from ..condeval import enclosing_ifs
                        gs = [g for (g, b) in enclosing_ifs(fi, n) if b and any(x is g for x in ast.walk(lp))]

                        def test_of(g):
                            t = g.test
                            if isinstance(t, ast.Name):  # a local boolean bound once to the comparison
                                defs = [a.value for a in ast.walk(lp) if isinstance(a, ast.Assign) and any(isinstance(x, ast.Name) and x.id == t.id for x in a.targets)]
                                if len(defs) == 1:
                                    return defs[0]
                            return t
                        ok = any(isinstance(test_of(g), ast.Compare) and idvar in norm(test_of(g))
                                 and f"id({lp.target.id}.nsmap)" in norm(test_of(g)).replace("_nsmap", "nsmap")
                                 and isinstance(test_of(g).ops[0], ast.Eq) for g in gs)
                        rep.count("child re-attachments")
                        rep.oblige(("R2c", fi.qname, norm(n)), ok)
                        if not ok:
                            rep.add("R2", fi.qname, n, "a child is re-attached to the node's new map without the test that it shared the old one: "
                                    "a child with its own bindings loses them", fi.loc(n))
        if not loops:
            rep.add("R2", fi.qname, "recursion over children", f"`{name}` does not propagate to the node's children: the binding is not visible in the subtree",
                    fi.loc())
        else:
            # every child is visited: the recursive call is made in both branches of the loop body
            for lp in loops:
                calls = [n for n in ast.walk(lp) if isinstance(n, ast.Call) and isinstance(n.func, ast.Attribute) and n.func.attr == name
                         and _path(n.func.value) == lp.target.id]
                md = MarkDomain()
                for c in calls:
                    md.mark(c, "REC")
                # analyse the loop body as straight code: every path through one iteration passes a recursive call
                exits_ok = _all_paths_pass(ctx, fi, lp, calls)
                rep.count("propagation loops")
                rep.oblige(("R2d", fi.qname), exits_ok)
                if not exits_ok:
                    rep.add("R2", fi.qname, lp.iter, f"some child is not visited by `{name}`: the binding does not reach the whole subtree", fi.loc(lp))
                md2 = MarkDomain()
                md2.mark(lp.iter, "LOOP")
                fl2, exits2 = run_marks(ctx, fi, md2)
                reach_ok = bool(exits2) and all("LOOP" in must for (must, _m) in exits2)
                rep.oblige(("R2e", fi.qname), reach_ok)
                if not reach_ok:
                    rep.add("R2", fi.qname, "path that skips the children", f"`{name}` can return without walking the node's children: descendants that bind the "
                            f"prefix themselves are not reached, so the operation does not cover exactly the subtree", fi.loc(lp))
    rep.floor("namespace mutators", 2)
    rep.floor("namespace writes / recursive calls", 3)


def _all_paths_pass(ctx, fi, loop, calls):
    """every path through one iteration of ``loop`` passes one of ``calls``"""
    def passes(stmts):
        for s in stmts:
            if any(any(x is c for x in ast.walk(s)) for c in calls):
                if isinstance(s, ast.If):
                    if passes(s.body) and passes(s.orelse):
                        return True
                    continue
                if isinstance(s, (ast.Expr, ast.Assign)):
                    return True
            if isinstance(s, (ast.Continue, ast.Break, ast.Return)):
                return False
        return False
    return passes(loop.body)


def rule_r3(ctx, rep):
    prog = ctx.prog
    nm = ctx.world.nm
    fi = prog.func(NODE_Q + ".add_child")
    rep.touch(fi)
    # a local bound once to the parent's own map (own = self._nsmap) stands for it: nothing add_child calls re-binds the
    # map of the receiver (R2: namespace operations write the receiver's subtree only, and the child is not an ancestor)
    from ..astutil import with_aliases_resolved
    fi = with_aliases_resolved(fi, attrs={"nsmap"})
    selfp = fi.params[0]
    childp = fi.params[1]
    calls = [n for n in ast.walk(fi.node) if isinstance(n, ast.Call) and isinstance(n.func, ast.Attribute) and n.func.attr == "add_namespace"
             and _path(n.func.value) == childp]
    rep.count("namespace hand-overs in add_child", len(calls))
    if not calls:
        shared_only = any(isinstance(n, ast.Assign) and any(isinstance(t, ast.Attribute) and nm.canon(t.attr) == "_nsmap" and _path(t.value) == childp for t in n.targets)
                          for n in ast.walk(fi.node))
        rep.oblige(("R3", "handover"), False)
        rep.add("R3", fi.qname, "child.add_namespace(prefix, ...)", "attaching a child does not make the parent's prefixes visible in it", fi.loc())
        return
    for c in calls:
        loop = None
        for n in ast.walk(fi.node):
            if isinstance(n, ast.For) and any(x is c for x in ast.walk(n)):
                loop = n
        # for p in M / M.keys() / for p, uri in M.items()   with M the parent's own map
        valvar = None
        it_base, tgt_ok = (loop.iter if loop is not None else None), False
        if loop is not None:
            if isinstance(it_base, ast.Call) and isinstance(it_base.func, ast.Attribute) and it_base.func.attr in ("keys", "items") and not it_base.args:
                kind_ = it_base.func.attr
                it_base = it_base.func.value
                if kind_ == "items":
                    if isinstance(loop.target, ast.Tuple) and len(loop.target.elts) == 2 and all(isinstance(x, ast.Name) for x in loop.target.elts):
                        valvar = loop.target.elts[1].id
                        tgt_ok = True
                else:
                    tgt_ok = isinstance(loop.target, ast.Name)
            else:
                tgt_ok = isinstance(loop.target, ast.Name)
        ok_loop = loop is not None and _path(it_base) in (f"{selfp}.nsmap", f"{selfp}._nsmap") and tgt_ok
        rep.oblige(("R3", "loop", norm(c)), ok_loop)
        if not ok_loop:
            rep.add("R3", fi.qname, c, "the hand-over does not range over every prefix of the parent's map", fi.loc(c))
            continue
        pv = loop.target.id if isinstance(loop.target, ast.Name) else loop.target.elts[0].id
        md = MarkDomain()
        for n in ast.walk(loop):
            if isinstance(n, ast.Compare) and len(n.ops) == 1 and isinstance(n.left, ast.Name) and n.left.id == pv \
                    and _path(n.comparators[0]) in (f"{childp}.nsmap", f"{childp}._nsmap"):
                if isinstance(n.ops[0], ast.NotIn):
                    md.mark_test(n, if_true=["ABSENT"])
                elif isinstance(n.ops[0], ast.In):
                    md.mark_test(n, if_false=["ABSENT"])
        md.probe(c)
        run_marks(ctx, fi, md)
        must = must_at(md, c) or frozenset()
        ok = "ABSENT" in must
        rep.oblige(("R3", "guard", norm(c)), ok)
        if not ok:
            rep.add("R3", fi.qname, c, "a parent prefix is pushed into the child without testing that the child does not bind it already: "
                    "the child's own bindings must win", fi.loc(c))
        a = list(c.args)
        # keyword form: child.add_namespace(prefix=p, namespace=...) -- order the actuals by the callee's parameters
        for tg in ctx.world.resolve_call(ctx.world.types(fi), c):
            if tg.func is not None and c.keywords:
                am = ctx.world.arg_map(tg, c)
                ps = [p_ for p_ in tg.func.params if not (tg.func.bound and p_ == tg.func.params[0])]
                if all(p_ in am for p_ in ps[:2]):
                    a = [am[p_] for p_ in ps if p_ in am]
                break
        ok_args = len(a) >= 2 and isinstance(a[0], ast.Name) and a[0].id == pv and (norm(a[1]).replace("_nsmap", "nsmap") == f"{selfp}.nsmap[{pv}]" or
                                                                                    (valvar is not None and isinstance(a[1], ast.Name) and a[1].id == valvar))
        rep.oblige(("R3", "args", norm(c)), ok_args)
        if not ok_args:
            rep.add("R3", fi.qname, c, "the prefix is handed to the child with a URI other than the parent's binding for it", fi.loc(c))
        # every iteration with an absent prefix reaches the call: no early exit in the loop
        bad = [x for x in ast.walk(loop) if isinstance(x, (ast.Break, ast.Return))]
        if bad:
            rep.add("R3", fi.qname, bad[0], "the hand-over loop is left early: later parent prefixes do not reach the child", fi.loc(bad[0]))
    # direct sharing of the parent's dict is allowed only when the two maps are equal
    from ..condeval import guard_verdict
    from ..peval import PEvalUnsupported
    shares = [n for n in ast.walk(fi.node) if isinstance(n, ast.Assign) and any(isinstance(t, ast.Attribute) and nm.canon(t.attr) == "_nsmap" and _path(t.value) == childp
                                                                              for t in n.targets) and _path(n.value) in (f"{selfp}.nsmap", f"{selfp}._nsmap")]
    for sh in shares:
        for (pm, cm, want) in (({"a": "1"}, {"a": "1"}, True), ({"a": "1"}, {}, False), ({"a": "1"}, {"b": "2"}, False), ({}, {}, True), ({"a": "1"}, {"a": "2"}, False)):
            env = {selfp: {"__obj__": True, "nsmap": pm, "_nsmap": pm, "_children": [], "children": []},
                   childp: {"__obj__": True, "nsmap": cm, "_nsmap": cm, "parent": None, "_parent": None}}
            for x in fi.params[2:]:
                env[x] = None
            try:
                v = guard_verdict(ctx, fi, sh, env)
            except PEvalUnsupported as ex:
                rep.notes.append(f"add_child: sharing guard not evaluated: {ex}")
                break
            rep.count("sharing-guard verdicts")
            ok = v == want
            rep.oblige(("R3", "share", repr(pm), repr(cm)), ok)
            if not ok:
                rep.add("R3", fi.qname, sh, f"with parent map {pm} and child map {cm} the child {'is made to share' if v else 'does not share'} the parent's dict; "
                        f"sharing is correct exactly when the maps are equal (otherwise the child's own subtree never receives the parent's prefixes)", fi.loc(sh))
                break
    rep.floor("namespace hand-overs in add_child", 1)


# R1-R3 read the shape of the namespace mutators (copy-on-write before a write, identity test, child walk, hand-over guard); R4 folds the three
# operations under every sharing pattern
FOLDS = {"R4": {"count": "namespace verdicts", "min": 132, "about": ("add_namespace", "remove_namespace", "add_child")}}
SUBORDINATE = {"R1": "R4", "R2": "R4", "R3": "R4"}


def run(ctx, rep):
    rep.explanation = (
        "namespace dicts are shared between nodes on purpose, so every in-place mutation of a node's map in the operations of "
        "the property's alphabet must be dominated (must-dataflow over all paths) by a re-binding of that map to a fresh dict; "
        "the mutators write only the node and its children, capture the old dict's identity before re-binding, re-attach children "
        "only under the identity test and visit every child; add_child hands over exactly the parent's bindings the child lacks")
    rep.rules_run = ["R1", "R2", "R3", "R4"]
    rep.assumptions += ["NOT decided: the visibility semantics over all histories (R4 decides single operations under every sharing pattern)",
                        "fix_nsmap / set_nsmap install a caller-supplied map and are outside the property's alphabet (noted, not armed)"]
    only = getattr(rep, "only", None)
    from .c13_worlds import rule_r4
    for name, fn in (("R1", rule_r1), ("R2", rule_r2), ("R3", rule_r3), ("R4", rule_r4)):
        if only in (None, name):
            rep.guarded(name, fn, ctx, rep)
