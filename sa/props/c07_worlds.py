"""C07-R7 -- tag structure of the exporters' output over abstract trees.

Both exporters decide what they write by a handful of tests only: is the content None, are there children / attributes /
qualified attributes / a tail / namespace bindings, is this the root call, is the root called ``eml``, does the text hold a
character that needs escaping.  Everything else is copied into the output.  The exporters are therefore folded (sa/peval.py:
the same constant folder the other rules use -- nothing of the repository is imported or executed) over one tree per
combination class, and the folded text is read back by a 40-line tag reader: it must be one balanced element whose names,
attributes, texts and nesting are those of the tree.  What R1 decides (every interpolated value carries the escaper of its
context, for all strings) is not repeated here; this rule decides the *structure* -- a close tag written before the children,
a missing close tag, an attribute list after the content -- which no taint rule sees."""
from __future__ import annotations

import re
from xml.sax.saxutils import unescape

from ..peval import Opaque, PEval, PEvalUnsupported, Raised

TAG = re.compile(r"""<(?P<close>/)?(?P<name>[^\s<>/=]+)(?P<attrs>(?:\s+[^\s<>/=]+\s*=\s*(?:"[^"<]*"|'[^'<]*'))*)\s*(?P<empty>/)?>""")
ATTR = re.compile(r"""([^\s<>/=]+)\s*=\s*(?:"([^"<]*)"|'([^'<]*)')""")


class IllFormed(Exception):
    pass


def read_back(text: str):
    """the element structure of ``text``: {'name', 'attrs', 'text', 'tail', 'children'}; raises IllFormed with the reason"""
    pos = 0
    root = None
    stack = []
    last = None  # the element whose tail the next text run is (None: text of the open element)
    text_s = text.strip()
    if text_s.startswith("<?xml"):
        end = text_s.find("?>")
        if end < 0:
            raise IllFormed("unterminated XML declaration")
        text_s = text_s[end + 2:].lstrip()
    for m in TAG.finditer(text_s):
        run = text_s[pos:m.start()]
        if "<" in run or ">" in run:
            raise IllFormed(f"stray markup character in text {run.strip()[:30]!r}")
        if re.search(r"&(?!(amp|lt|gt|quot|apos|#[0-9]+|#x[0-9A-Fa-f]+);)", run):
            raise IllFormed(f"bare ampersand in text {run.strip()[:30]!r}")
        if run.strip():
            if not stack:
                raise IllFormed(f"text {run.strip()[:30]!r} outside the root element")
        if stack:
            if last is None:
                stack[-1]["text"] += run
            else:
                last["tail"] += run
        pos = m.end()
        if m.group("close"):
            if m.group("attrs").strip() or m.group("empty"):
                raise IllFormed(f"malformed close tag {m.group(0)!r}")
            if not stack:
                raise IllFormed(f"close tag </{m.group('name')}> without an open element")
            if stack[-1]["name"] != m.group("name"):
                raise IllFormed(f"close tag </{m.group('name')}> while <{stack[-1]['name']}> is open")
            last = stack.pop()
            continue
        if root is not None and not stack:
            raise IllFormed(f"element <{m.group('name')}> after the root element was closed")
        attrs = {}
        for a in ATTR.finditer(m.group("attrs")):
            if a.group(1) in attrs:
                raise IllFormed(f"attribute {a.group(1)} written twice on <{m.group('name')}>")
            val = a.group(2) if a.group(2) is not None else a.group(3)
            if re.search(r"&(?!(amp|lt|gt|quot|apos|#[0-9]+|#x[0-9A-Fa-f]+);)", val):
                raise IllFormed(f"bare ampersand in the value of attribute {a.group(1)}")
            attrs[a.group(1)] = unescape(val, {"&quot;": '"', "&apos;": "'"})
        el = {"name": m.group("name"), "attrs": attrs, "text": "", "tail": "", "children": []}
        if stack:
            stack[-1]["children"].append(el)
        else:
            root = el
        if m.group("empty"):
            last = el
        else:
            stack.append(el)
            last = None
    rest = text_s[pos:]
    if "<" in rest or ">" in rest:
        raise IllFormed(f"unparsable markup {rest.strip()[:40]!r}")
    if stack:
        raise IllFormed(f"<{stack[-1]['name']}> is never closed")
    if rest.strip():
        raise IllFormed(f"text {rest.strip()[:30]!r} after the root element")
    if root is None:
        raise IllFormed("no element at all")
    return root


def mk(name, content=None, children=(), attributes=None, tail=None, nsmap=None, prefix=None, extras=None):
    d = {"__obj__": True, "id": object()}
    for k, v in (("name", name), ("content", content), ("children", list(children)), ("attributes", dict(attributes or {})), ("tail", tail),
                 ("nsmap", dict(nsmap or {})), ("prefix", prefix), ("extras", dict(extras or {})), ("parent", None)):
        d[k] = v
        d["_" + k] = v
    d["_id"] = d["id"]
    for c in d["children"]:
        c["parent"] = d
        c["_parent"] = d
    return d


def worlds(general: bool):
    """(description, tree builder) -- builders, because folding may not share objects between runs"""
    w = [
        ("a leaf with text", lambda: mk("title", "some text")),
        ("a leaf without content", lambda: mk("br")),
        ("a leaf with empty text", lambda: mk("title", "")),
        ("a leaf with text that needs escaping", lambda: mk("title", "a < b & c > d")),
        ("an element with two children and no text", lambda: mk("dataset", None, [mk("title", "t"), mk("abstract", "x")])),
        ("an element with text and children (mixed content)", lambda: mk("para", "some text", [mk("emphasis", "bold"), mk("br")])),
        ("an element with attributes and children", lambda: mk("dataset", None, [mk("title", "t", attributes={"lang": "en"})], {"id": "d1", "scope": "document"})),
        ("an attribute value that needs escaping", lambda: mk("title", "t", attributes={"id": 'x"y&<'})),
        ("three levels", lambda: mk("dataset", None, [mk("creator", None, [mk("individualName", None, [mk("surName", "S")]), mk("organizationName", "O")]), mk("title", "t")])),
        ("a root called eml", lambda: mk("eml", None, [mk("dataset", None, [mk("title", "t")])], {"packageId": "p.1.1", "system": "s"})),
        ("empty elements among siblings", lambda: mk("dataset", None, [mk("a"), mk("b", "x"), mk("c")])),
        ("mixed content below the root", lambda: mk("abstract", None, [mk("para", "text", [mk("emphasis", "e")]), mk("para", "more")])),
    ]
    if general:
        ns = {"eml": "https://eml.ecoinformatics.org/eml-2.2.0", "xsi": "http://www.w3.org/2001/XMLSchema-instance"}
        w += [
            ("children with tails (mixed content)", lambda: mk("para", "head ", [mk("emphasis", "bold", tail=" middle "), mk("br", tail=" end")])),
            ("a tail after an empty element", lambda: mk("para", None, [mk("br", tail="after")])),
            ("a prefixed root with namespace bindings", lambda: mk("eml", None, [mk("dataset", None, [mk("title", "t", nsmap=ns)], nsmap=ns)], {"packageId": "p.1.1"},
                                                                    nsmap=ns, prefix="eml")),
            ("a qualified attribute", lambda: mk("eml", None, [mk("dataset", "x", nsmap=ns)], nsmap=ns, prefix="eml",
                                                  extras={"xsi:schemaLocation": "https://eml.ecoinformatics.org/eml-2.2.0 eml.xsd"})),
            ("a child declaring a prefix of its own", lambda: mk("a", None, [mk("b", "x", nsmap={"p": "urn:p"}, prefix="p")])),
        ]
    return w


def local(n: str) -> str:
    return n.rsplit(":", 1)[-1]


def compare(tree, el, general: bool, path=""):
    """first difference between the model tree and the element read back, or None"""
    here = f"{path}/{tree['name']}"
    if local(el["name"]) != tree["name"]:
        return f"{here}: element written as <{el['name']}>"
    if general and tree.get("prefix") and ":" in el["name"] and el["name"].split(":")[0] != tree["prefix"]:
        return f"{here}: prefix {tree['prefix']} written as {el['name'].split(':')[0]}"
    for k, v in tree["attributes"].items():
        if k not in el["attrs"]:
            return f"{here}: attribute {k} is not written"
        if el["attrs"][k] != str(v):
            return f"{here}: attribute {k}={v!r} reads back as {el['attrs'][k]!r}"
    for k in el["attrs"]:
        if k not in tree["attributes"] and ":" not in k and k != "xmlns":
            return f"{here}: attribute {k} appears in the output but not in the tree"
    if general:
        for k, v in tree["extras"].items():
            if el["attrs"].get(k) != str(v):
                return f"{here}: qualified attribute {k}={v!r} reads back as {el['attrs'].get(k)!r}"
    want = (tree["content"] or "").strip() if isinstance(tree["content"], str) or tree["content"] is None else str(tree["content"]).strip()
    got = unescape(el["text"]).strip()
    if got != want:
        return f"{here}: text {want!r} reads back as {got!r}"
    if general:
        wt = (tree["tail"] or "").strip()
        gt = unescape(el["tail"]).strip()
        if path and wt != gt:
            return f"{here}: tail {wt!r} reads back as {gt!r}"
    elif el["tail"].strip():
        return f"{here}: text {el['tail'].strip()[:30]!r} is written after the element, inside its parent"
    if len(el["children"]) != len(tree["children"]):
        return (f"{here}: {len(tree['children'])} children ({', '.join(c['name'] for c in tree['children'])}) read back as "
                f"{len(el['children'])} ({', '.join(c['name'] for c in el['children'])})")
    for c, e in zip(tree["children"], el["children"]):
        d = compare(c, e, general, here)
        if d:
            return d
    return None


def rule_r7(ctx, rep, exporters):
    for q in exporters:
        fi = ctx.prog.func(q)
        general = not q.endswith("export.to_xml")
        for what, build in worlds(general):
            tree = build()
            pe = PEval(ctx.world)
            try:
                out = pe.call(fi, [tree])
            except Raised as r:
                rep.count("exporter outputs read back")
                rep.oblige(("R7", q, what), False)
                rep.add("R7", q, what, f"exporting {what} raises {r.cls}", fi.loc())
                break
            except PEvalUnsupported as ex:
                rep.notes.append(f"{q} not folded for {what}: {ex}")
                continue
            if not isinstance(out, str) or isinstance(out, Opaque):
                rep.notes.append(f"{q} not folded for {what}: the result is not a string")
                continue
            rep.count("exporter outputs read back")
            try:
                el = read_back(out)
                diff = compare(tree, el, general)
                why = None if diff is None else f"the output reads back differently -- {diff}"
            except IllFormed as ex:
                why = f"the output is not well-formed: {ex}"
            rep.oblige(("R7", q, what), why is None, sample={"exporter": q.rsplit(".", 2)[-2] + ".to_xml", "tree": what, "output": out[:160]})
            if why is not None:
                rep.add("R7", q, what, f"exporting {what}: {why}; output {out[:120]!r}", fi.loc())
                break
