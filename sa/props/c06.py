"""C06 -- JSON save/load reproduces the tree (partial): writer/reader layout
agreement (R1), field coverage with provenance (R2), parent links (R3), the
legacy-to-current upgrade as layout algebra (R4)."""
from __future__ import annotations

import ast

from ..layout import bound_var, init_param_fields, method_field, reader_layout, sinks_of, writer_layout
from ..model import UNKNOWN, AnalysisError, norm
from ..types import NODE_Q

MIO = "metapype.model.metapype_io"
MPIO = "metapype.model.mp_io"
CONV = "utils.convert"


def key_field(nm, key):
    """field a layout key stands for: the like-named property"""
    return nm.prop_field.get(key) or (("_" + key) if ("_" + key) in nm.fields else None)


def check_codec(ctx, rep, wq, rq, label, expect_all_fields):
    prog = ctx.prog
    nm = ctx.world.nm
    wfi, rfi = prog.func(wq), prog.func(rq)
    rep.touch(wfi)
    rep.touch(rfi)
    wl, name_expr, holder = writer_layout(ctx, wfi)
    nodep = wfi.params[0]
    keys = []
    # ---- writer
    ok_name = isinstance(name_expr, ast.Attribute) and nm.canon(name_expr.attr) == "_name" and isinstance(name_expr.value, ast.Name) and name_expr.value.id == nodep
    rep.oblige(("R2", label, "name"), ok_name)
    if not ok_name:
        rep.add("R2", wfi.qname, name_expr, "the serialised element is not keyed by the node's name", wfi.loc(name_expr))
    for (k, v, stmt) in wl:
        rep.count(f"{label}: writer slots")
        if k in (None, "?insert", "?conditional"):
            rep.oblige(("R1", label, "slot", norm(stmt)[:60]), False)
            rep.add("R1", wfi.qname, stmt, "a layout slot is written conditionally, by insert, or without a constant key: positions are no longer fixed",
                    wfi.loc(stmt))
            keys.append(None)
            continue
        keys.append(k)
        f = key_field(nm, k)
        if k == "children":
            # value is a local list filled with the serialised children, in order, unfiltered
            ok = isinstance(v, ast.Name)
            loop = None
            for n in ast.walk(wfi.node):
                if isinstance(n, ast.For) and isinstance(n.iter, ast.Attribute) and nm.canon(n.iter.attr) == "_children" and isinstance(n.iter.value, ast.Name) \
                        and n.iter.value.id == nodep:
                    loop = n
            ok = ok and loop is not None and len(loop.body) == 1 and isinstance(loop.body[0], ast.Expr) and isinstance(loop.body[0].value, ast.Call) \
                and isinstance(loop.body[0].value.func, ast.Attribute) and loop.body[0].value.func.attr == "append" \
                and norm(loop.body[0].value.func.value) == norm(v) and loop.body[0].value.args \
                and isinstance(loop.body[0].value.args[0], ast.Call) and any(tg.func is not None and tg.func.qname == wfi.qname
                                                                            for tg in ctx.world.resolve_call(ctx.world.types(wfi), loop.body[0].value.args[0]))
            if not ok and isinstance(v, ast.ListComp):
                g = v.generators[0]
                ok = len(v.generators) == 1 and not g.ifs and isinstance(g.iter, ast.Attribute) and nm.canon(g.iter.attr) == "_children" \
                    and isinstance(g.iter.value, ast.Name) and g.iter.value.id == nodep and isinstance(v.elt, ast.Call) and any(
                        tg.func is not None and tg.func.qname == wfi.qname for tg in ctx.world.resolve_call(ctx.world.types(wfi), v.elt)) \
                    and len(v.elt.args) == 1 and isinstance(v.elt.args[0], ast.Name) and isinstance(g.target, ast.Name) and v.elt.args[0].id == g.target.id
            rep.oblige(("R2", label, "children"), ok)
            if not ok:
                rep.add("R2", wfi.qname, stmt, "the children slot does not hold the serialisation of every child in order", wfi.loc(stmt))
            continue
        ok = f is not None and isinstance(v, ast.Attribute) and isinstance(v.value, ast.Name) and v.value.id == nodep and nm.canon(v.attr) == f
        rep.oblige(("R2", label, "writer", k), ok, sample={"codec": label, "slot": len(keys) - 1, "key": k, "written from": norm(v)})
        if not ok:
            rep.add("R2", wfi.qname, stmt, f"slot '{k}' is written from `{norm(v)}`, not from the node's {k}", wfi.loc(stmt))
    if len(set(k for k in keys if k)) != len([k for k in keys if k]):
        rep.add("R1", wfi.qname, "duplicate key", "a key is written twice", wfi.loc())
    if expect_all_fields:
        for f in nm.fields:
            if f in ("_parent", "_name"):
                continue
            rep.count(f"{label}: state fields")
            ok = any(k is not None and key_field(nm, k) == f for k in keys)
            rep.oblige(("R2", label, "covered", f), ok)
            if not ok:
                rep.add("R2", wfi.qname, f"field {f}", f"Node field {f} is not serialised: it is lost on save/load", wfi.loc())
    # ---- reader
    reads, bodyvars, _ = reader_layout(ctx, rfi)
    seen = {}
    sinks_by_key = {}
    node_var = None
    for n in ast.walk(rfi.node):
        if isinstance(n, ast.Assign) and isinstance(n.value, ast.Call) and isinstance(n.value.func, ast.Name) and n.value.func.id == "Node" \
                and isinstance(n.targets[0], ast.Name):
            node_var = n.targets[0].id
    for (i, k, sub) in reads:
        rep.count(f"{label}: reader slots")
        ok = i is not None and k is not None and 0 <= i < len(keys) and keys[i] == k
        rep.oblige(("R1", label, "read", i, k), ok, sample={"codec": label, "reader": norm(sub), "writer slot": keys[i] if i is not None and 0 <= i < len(keys) else None})
        if not ok:
            at = keys[i] if (i is not None and 0 <= i < len(keys)) else "nothing"
            rep.add("R1", rfi.qname, sub, f"the loader reads `{norm(sub)}` but the serialiser writes '{at}' at position {i}", rfi.loc(sub))
            continue
        seen[k] = sub
        # provenance: the value read reaches the like-named field (and only it)
        f = "_children" if k == "children" else key_field(nm, k)
        bv = bound_var(rfi, sub)
        if bv is not None:
            sinks = sinks_of(ctx, rfi, bv, node_var)
        else:
            sinks = set()
            ipf = init_param_fields(ctx)
            # read in place as the iterable of a loop: the loop variable carries the value on
            for lp in ast.walk(rfi.node):
                if isinstance(lp, ast.For) and (lp.iter is sub or (isinstance(lp.iter, ast.Call) and isinstance(lp.iter.func, ast.Attribute)
                                                                   and lp.iter.func.attr in ("items", "keys", "values") and lp.iter.func.value is sub)):
                    sinks |= sinks_of(ctx, rfi, None, node_var, source_loop=lp)
            for c in ast.walk(rfi.node):
                if isinstance(c, ast.Call) and isinstance(c.func, ast.Attribute) and any(any(x is sub for x in ast.walk(a)) for a in c.args):
                    from ..layout import method_field as _mf
                    mf = _mf(ctx, c.func.attr)
                    if mf:
                        sinks.add(mf)
            for c in ast.walk(rfi.node):
                if isinstance(c, ast.Call) and isinstance(c.func, ast.Name) and c.func.id == "Node":
                    init = nm.ci.methods["__init__"]
                    pos = init.params[1:]
                    for j, a in enumerate(c.args):
                        if a is sub and j < len(pos) and pos[j] in ipf:
                            sinks.add(ipf[pos[j]])
                    for kw in c.keywords:
                        if kw.value is sub and kw.arg in ipf:
                            sinks.add(ipf[kw.arg])
                if isinstance(c, ast.Assign) and c.value is sub:
                    for t in c.targets:
                        if isinstance(t, ast.Attribute) and nm.canon(t.attr):
                            sinks.add(nm.canon(t.attr))
        sinks_by_key.setdefault(k, [set(), f, sub])[0].update(sinks)
        # the restoration may depend on the saved value only (None / emptiness tests of it), not on other state
        if bv is not None:
            from ..condeval import enclosing_ifs
            derived = {bv}
            for n in ast.walk(rfi.node):
                if isinstance(n, ast.For) and isinstance(n.iter, ast.Name) and n.iter.id in derived and isinstance(n.target, ast.Name):
                    derived.add(n.target.id)
            for n in ast.walk(rfi.node):
                is_sink = False
                if isinstance(n, ast.Call) and isinstance(n.func, ast.Attribute) and n.func.attr in ("add_namespace", "add_attribute", "add_extras", "add_child") \
                        and any(isinstance(x, ast.Name) and x.id in derived for a in n.args for x in ast.walk(a)):
                    is_sink = True
                if isinstance(n, ast.Assign) and any(isinstance(t, ast.Attribute) and nm.canon(t.attr) == f for t in n.targets) \
                        and any(isinstance(x, ast.Name) and x.id in derived for x in ast.walk(n.value)):
                    is_sink = True
                if not is_sink:
                    continue
                for (g, _b) in enclosing_ifs(rfi, n):
                    names = {x.id for x in ast.walk(g.test) if isinstance(x, ast.Name)} - {"None", "True", "False", "len", "isinstance", "str", "dict", "list"}
                    okg = names <= derived
                    rep.oblige(("R2", label, "guard", k, norm(g.test)[:40]), okg)
                    if not okg:
                        rep.add("R2", rfi.qname, g.test, f"whether the saved '{k}' is restored depends on `{', '.join(sorted(names - derived))}`, not only on "
                                f"the saved value: some trees do not reload exactly", rfi.loc(g))
    # what is restored is what was saved: the values handed to the restoring setters / add_* methods are the saved items themselves
    # (names, subscripts, loop variables), not the result of a function applied to them
    body_names = set(bodyvars)
    for n in ast.walk(rfi.node):
        if isinstance(n, ast.Assign) and len(n.targets) == 1 and isinstance(n.targets[0], ast.Name) and any(
                isinstance(x, ast.Name) and x.id in body_names for x in ast.walk(n.value)) and not isinstance(n.value, ast.Call):
            body_names.add(n.targets[0].id)
        if isinstance(n, ast.For) and any(isinstance(x, ast.Name) and x.id in body_names for x in ast.walk(n.iter)):
            for x in ast.walk(n.target):
                if isinstance(x, ast.Name):
                    body_names.add(x.id)
    for n in ast.walk(rfi.node):
        args = []
        if isinstance(n, ast.Call) and isinstance(n.func, ast.Attribute) and isinstance(n.func.value, ast.Name) and n.func.value.id == node_var \
                and n.func.attr in ("add_attribute", "add_extras", "add_namespace"):
            args = list(n.args)
        elif isinstance(n, ast.Assign) and any(isinstance(t, ast.Attribute) and isinstance(t.value, ast.Name) and t.value.id == node_var and nm.canon(t.attr)
                                               and nm.canon(t.attr) != "_parent" for t in n.targets):
            args = [n.value]
        for a in args:
            if not any(isinstance(x, ast.Name) and x.id in body_names for x in ast.walk(a)):
                continue
            calls_ = [c for c in ast.walk(a) if isinstance(c, ast.Call) and not (isinstance(c.func, ast.Attribute) and c.func.attr in ("get",))]
            rep.count(f"{label}: restored values")
            rep.oblige(("R2", label, "identity", norm(a)[:50]), not calls_)
            if calls_:
                rep.add("R2", rfi.qname, a, f"the loader restores `{norm(a)}`, the result of a call on what was saved, not the saved value itself: a tree holding a "
                        f"value that call changes does not reload as it was", rfi.loc(a))
    for k, (sinks, f, sub) in sinks_by_key.items():
        ok = sinks == {f}
        rep.oblige(("R2", label, "restored", k), ok, sample={"codec": label, "key": k, "restored into": sorted(sinks)})
        if not ok:
            rep.add("R2", rfi.qname, sub, f"the value saved under '{k}' is restored into {sorted(sinks) or 'nothing'} instead of {f}", rfi.loc(sub))
    for k in keys:
        if k and k not in seen:
            rep.oblige(("R1", label, "unread", k), False)
            rep.add("R1", rfi.qname, f"slot '{k}'", f"the loader never reads the '{k}' slot the serialiser writes", rfi.loc())
    # the name: Node(name, ...) from the popped key
    name_ok = False
    for n in ast.walk(rfi.node):
        if isinstance(n, ast.Call) and isinstance(n.func, ast.Name) and n.func.id == "Node" and n.args and isinstance(n.args[0], ast.Name):
            name_ok = True
    rep.oblige(("R2", label, "name-restored"), name_ok)
    if not name_ok:
        rep.add("R2", rfi.qname, "Node(name, ...)", "the node is not created with the saved element name", rfi.loc())
    # ---- R3 parent links: each loaded child reaches add_child on the node under construction
    adds = [n for n in ast.walk(rfi.node) if isinstance(n, ast.Call) and isinstance(n.func, ast.Attribute) and n.func.attr == "add_child"
            and isinstance(n.func.value, ast.Name) and n.func.value.id == node_var]
    loop_ok = False
    for n in ast.walk(rfi.node):
        if isinstance(n, ast.For) and any(any(x is a for x in ast.walk(n)) for a in adds):
            bad = [x for x in ast.walk(n) if isinstance(x, (ast.Break, ast.Continue, ast.If, ast.Try, ast.Return))]
            idx_arg = any(len(a.args) > 1 or a.keywords for a in adds)
            loop_ok = not bad and not idx_arg
    rep.count(f"{label}: child attach")
    rep.oblige(("R3", label), loop_ok)
    if not loop_ok:
        rep.add("R3", rfi.qname, "add_child(child_node)", "loaded children are not all appended, in order, through add_child (which sets the parent link)",
                rfi.loc())
    return keys


def rule_r5(ctx, rep):
    """the loader restores fields through setters while a tree may have been built through the constructor: for every
    field with both, the stored transformation must be the same (else a value exists that does not reload as itself)"""
    nm = ctx.world.nm
    init = nm.ci.methods["__init__"]
    selfp = init.params[0]
    for prop, fi in sorted(nm.ci.setters.items()):
        f = nm.setter_field.get(prop)
        if f is None:
            continue
        sval = None
        for n in ast.walk(fi.node):
            if isinstance(n, ast.Assign) and any(isinstance(t, ast.Attribute) and t.attr == f for t in n.targets):
                sval = n.value
        ival, ip = None, None
        for n in ast.walk(init.node):
            if isinstance(n, ast.Assign) and any(isinstance(t, ast.Attribute) and t.attr == f and isinstance(t.value, ast.Name) and t.value.id == selfp for t in n.targets):
                ival = n.value
        if sval is None or ival is None:
            continue
        iparams = [x.id for x in ast.walk(ival) if isinstance(x, ast.Name) and x.id in init.params[1:]]
        sparams = [x.id for x in ast.walk(sval) if isinstance(x, ast.Name) and x.id in fi.params[1:]]
        if len(set(iparams)) != 1 or len(set(sparams)) != 1:
            continue  # the field is not initialised from a single constructor argument
        import copy as _c

        class Ren(ast.NodeTransformer):
            def __init__(self, a):
                self.a = a

            def visit_Name(self, n):
                return ast.Name(id="V", ctx=n.ctx) if n.id == self.a else n
        a = ast.dump(Ren(iparams[0]).visit(_c.deepcopy(ival)))
        b = ast.dump(Ren(sparams[0]).visit(_c.deepcopy(sval)))
        rep.count("constructor/setter pairs")
        ok = a == b
        rep.oblige(("R5", f), ok, sample={"field": f, "constructor stores": norm(ival), "setter stores": norm(sval)})
        if not ok:
            rep.add("R5", fi.qname, sval, f"the constructor stores `{norm(ival)}` but the {prop} setter stores `{norm(sval)}`: a value that only the "
                    f"constructor can produce does not survive save/load (the loader restores through the setter)", fi.loc())
    # a node built with explicit values keeps them: a constructor argument that initialises a serialised field is re-bound
    # only to supply the default for None (the loader passes the saved id to the constructor)
    from ..condeval import enclosing_ifs
    from ..layout import init_param_fields
    ipf = init_param_fields(ctx)
    for n in ast.walk(init.node):
        if isinstance(n, (ast.Assign, ast.AugAssign)):
            for t in (n.targets if isinstance(n, ast.Assign) else [n.target]):
                if isinstance(t, ast.Name) and t.id in ipf:
                    pname = t.id
                    defaulting = False
                    for (g, side) in enclosing_ifs(init, n):
                        tt = g.test
                        if isinstance(tt, ast.Compare) and len(tt.ops) == 1 and isinstance(tt.left, ast.Name) and tt.left.id == pname \
                                and isinstance(tt.comparators[0], ast.Constant) and tt.comparators[0].value is None:
                            if (isinstance(tt.ops[0], ast.Is) and side) or (isinstance(tt.ops[0], ast.IsNot) and not side):
                                defaulting = True
                    rep.count("constructor argument re-bindings")
                    rep.oblige(("R5", "rebind", pname, norm(n)[:40]), defaulting)
                    if not defaulting:
                        rep.add("R5", init.qname, n, f"the constructor re-binds its `{pname}` argument although one was given: a node loaded with its "
                                f"saved {ipf[pname][1:]} does not get it back (save/load no longer restores {ipf[pname]})", init.loc(n))
    rep.floor("constructor/setter pairs", 3)


def rule_r4(ctx, rep, current, legacy):
    prog = ctx.prog
    fi = prog.func(CONV + ".to_20210209")
    rep.touch(fi)
    layout = list(legacy)
    inserts = []
    body_loop = None
    for n in ast.walk(fi.node):
        if isinstance(n, ast.For):
            it = n.iter
            # for node in model / model.keys() / model.values() / model.items(): one round per serialised node body
            if isinstance(it, ast.Call) and isinstance(it.func, ast.Attribute) and it.func.attr in ("keys", "values", "items") and not it.args:
                it = it.func.value
            if isinstance(it, ast.Name) and it.id == fi.params[0]:
                body_loop = n
    if body_loop is None:
        raise AnalysisError("anchor vanished: the loop over the serialised model in to_20210209")
    for s in body_loop.body:
        if isinstance(s, ast.Expr) and isinstance(s.value, ast.Call) and isinstance(s.value.func, ast.Attribute) and s.value.func.attr == "insert":
            c = s.value
            i = prog.const(fi.module, c.args[0]) if c.args else UNKNOWN
            d = c.args[1] if len(c.args) > 1 else None
            if isinstance(i, int) and isinstance(d, ast.Dict) and len(d.keys) == 1:
                k = prog.const(fi.module, d.keys[0])
                v = prog.const(fi.module, d.values[0])
                inserts.append((i, k, v, s))
                layout.insert(i, k)
                rep.count("upgrade inserts")
            else:
                rep.add("R4", fi.qname, s, "an upgrade insert is not `insert(<const index>, {<key>: <default>})`", fi.loc(s))
    ok = layout == current
    rep.oblige(("R4", "algebra"), ok, sample={"legacy layout": legacy, "after the inserts": layout, "current layout": current})
    if not ok:
        rep.add("R4", fi.qname, "insert sequence", f"executing the inserts on the legacy layout {legacy} gives {layout}, the current loader expects {current}",
                fi.loc())
    nm = ctx.world.nm
    for (i, k, v, s) in inserts:
        f = key_field(nm, k) if isinstance(k, str) else None
        want = {} if f in nm.containers else None
        okd = f is not None and v == want
        rep.oblige(("R4", "default", k), okd)
        if not okd:
            rep.add("R4", fi.qname, s, f"the default inserted for '{k}' is {v!r}; an upgraded legacy node must have the empty value {want!r} there", fi.loc(s))
    # children slot index and recursion
    found = False
    for n in ast.walk(fi.node):
        if isinstance(n, ast.Subscript) and prog.const(fi.module, n.slice) == "children" and isinstance(n.value, ast.Subscript):
            i = prog.const(fi.module, n.value.slice)
            found = True
            rep.count("children slot lookups in the upgrade")
            okc = isinstance(i, int) and "children" in current and i == current.index("children")
            rep.oblige(("R4", "children-index"), okc)
            if not okc:
                rep.add("R4", fi.qname, n, f"children are looked up at position {i}; after the inserts they are at {current.index('children') if 'children' in current else '?'}",
                        fi.loc(n))
    if not found:
        rep.add("R4", fi.qname, "children lookup", "the upgrade does not descend into the children", fi.loc())
    rec = [n for n in ast.walk(fi.node) if isinstance(n, ast.Call) and isinstance(n.func, ast.Name) and n.func.id == fi.name]
    rec_ok = False
    from ..condeval import enclosing_ifs
    for n in ast.walk(fi.node):
        if isinstance(n, ast.For) and any(any(x is r for x in ast.walk(n)) for r in rec) and n is not body_loop:
            bad = [x for x in ast.walk(n) if isinstance(x, (ast.Break, ast.Continue, ast.If, ast.Return))]
            conds = enclosing_ifs(fi, n)
            skips = [x for st_ in body_loop.body if st_ is not n for x in ast.walk(st_) if isinstance(x, (ast.Continue, ast.Break, ast.Return))]
            rec_ok = not bad and not conds and not skips
    rep.oblige(("R4", "recursion"), rec_ok)
    if not rec_ok:
        rep.add("R4", fi.qname, "recursion over children", "the upgrade does not convert every child", fi.loc())
    rep.floor("upgrade inserts", 4)


# R1-R5 read the shape of the codecs (slot layout of writer and reader, provenance of every restored field, child attach, the upgrade's inserts,
# constructor / setter agreement); R7 folds save -> load for both codecs and the upgrade over the tree catalogue
FOLDS = {"R7": {"count": "round-trip verdicts", "min": 54, "about": ("to_json", "from_json", "objectify", "to_20210209", "_serialize", "_from_dict")}}
SUBORDINATE = {"R1": "R7", "R2": "R7", "R3": "R7", "R4": "R7", "R5": "R7"}


def run(ctx, rep):
    rep.explanation = (
        "the ordered key layout the serialiser appends is extracted from its AST and compared slot by slot with the (index, key) "
        "pairs the loader subscripts; every Node state field except the derived parent link must be written from the like-named "
        "property and the value read back must flow into the same field (constructor argument, setter or add_* method); loaded "
        "children reach add_child; the legacy upgrade's constant-index inserts are executed abstractly on the legacy layout and "
        "must yield the current one with empty defaults")
    rep.rules_run = ["R1", "R2", "R3", "R4", "R5", "R7"]
    rep.assumptions += ["NOT decided: Unicode fidelity (json library); R7 decides the round trip per class of filled / empty fields, not for every string"]
    if getattr(rep, "only", None) in (None, "R7"):
        from .c06_worlds import rule_r7
        rule_r7(ctx, rep)
    cur = check_codec(ctx, rep, MIO + "._serialize", MIO + "._from_dict", "current", True)
    leg = check_codec(ctx, rep, MPIO + ".objectify", MPIO + ".from_json", "legacy", False)
    # entry points use the codec functions
    prog = ctx.prog
    for q, inner in ((MIO + ".to_json", MIO + "._serialize"), (MIO + ".from_json", MIO + "._from_dict"), (MPIO + ".to_json", MPIO + ".objectify")):
        fi = prog.func(q)
        rep.touch(fi)
        ok = any(isinstance(n, ast.Call) and any(tg.func is not None and tg.func.qname == inner for tg in ctx.world.resolve_call(ctx.world.types(fi), n))
                 for n in ast.walk(fi.node))
        rep.count("public entry points")
        rep.oblige(("R1", "entry", q), ok)
        if not ok:
            rep.add("R1", q, "codec call", f"{q.rsplit('.', 1)[-1]} does not go through {inner.rsplit('.', 1)[-1]}", fi.loc())
    if all(k for k in cur) and all(k for k in leg):
        rule_r4(ctx, rep, cur, leg)
    rule_r5(ctx, rep)
    rep.floor("current: writer slots", 8)
    rep.floor("current: reader slots", 8)
    rep.floor("legacy: writer slots", 4)
    rep.floor("legacy: reader slots", 4)
