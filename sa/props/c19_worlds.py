"""C19-R10 -- the recommendations over abstract trees.

Every evaluator looks at its node through a handful of tests: is a child of a given name there, has it content, how many
words / keywords are there relative to the threshold, what is the parent called.  The recommendations named by the property are
functions of exactly those facts.  The evaluators are therefore folded (sa/peval.py, the constant folder -- no repository code
is imported or run) over one tree per class of facts, each factor varied on its own from a complete and from a bare element,
counts placed on and around each threshold, and the folded warning list is compared (as a multiset of codes) with what the
documented recommendation says for that tree.  Only classes on which the documentation is unambiguous are listed (e.g. a
present-but-empty intellectualRights element is not: the text may sit in para children)."""
from __future__ import annotations

import ast

from ..model import UNKNOWN, EnumMember, norm
from ..peval import Opaque, PEval, PEvalUnsupported, Raised
from .c07_worlds import mk


def W(n, stem="w"):
    return " ".join(f"{stem}{i}" for i in range(n))


ORCID = {"directory": "https://orcid.org"}


def _dataset(abstract="ok", coverage="ok", table="ok", rights="ok", keywords=(5,), methods="ok", project="ok", order="doc"):
    kids = [mk("title", W(7)), mk("creator")]
    if abstract == "ok":
        kids.append(mk("abstract", W(25)))
    elif isinstance(abstract, int):
        kids.append(mk("abstract", W(abstract)))
    elif isinstance(abstract, tuple) and abstract[0] == "paras":
        # the text sits in para descendants, the second one below a section
        kids.append(mk("abstract", None, [mk("para", W(abstract[1])), mk("section", None, [mk("title", "s"), mk("para", W(abstract[2], "v"))])]))
    elif isinstance(abstract, tuple) and abstract[0] == "markdown":
        kids.append(mk("abstract", None, [mk("markdown", W(abstract[1]))]))
    elif abstract == "empty":
        kids.append(mk("abstract", None))
    if coverage == "ok":
        kids.append(mk("coverage", None, [mk("temporalCoverage")]))
    elif coverage == "childless":
        kids.append(mk("coverage", None))
    if rights == "ok":
        kids.append(mk("intellectualRights", "CC-BY"))
    for k in (keywords or ()):
        kids.append(mk("keywordSet", None, [mk("keyword", f"k{i}") for i in range(k)] + [mk("keywordThesaurus", "t")]))
    if methods == "ok":
        kids.append(mk("methods", None, [mk("methodStep")]))
    if project == "ok":
        kids.append(mk("project", None, [mk("title", "p")]))
    if table == "ok":
        kids.append(mk("dataTable"))
    elif table == "two":
        kids += [mk("dataTable"), mk("dataTable")]
    kids.append(mk("contact"))
    if order == "reversed":
        kids.reverse()
    return mk("dataset", None, kids)


def _dataset_expect(abstract="ok", coverage="ok", table="ok", rights="ok", keywords=(5,), methods="ok", project="ok", order="doc"):
    out = []
    if abstract in (None, "empty"):
        out.append("DATASET_ABSTRACT_MISSING")
    else:
        n = 25 if abstract == "ok" else abstract if isinstance(abstract, int) else sum(abstract[1:])
        if n == 0:
            out.append("DATASET_ABSTRACT_MISSING")
        elif n < 20:
            out.append("DATASET_ABSTRACT_TOO_SHORT")
    if coverage in (None, "childless"):
        out.append("DATASET_COVERAGE_MISSING")
    if table is None:
        out.append("DATATABLE_MISSING")
    if rights is None:
        out.append("INTELLECTUAL_RIGHTS_MISSING")
    if not keywords:
        out.append("KEYWORDS_MISSING")
    elif sum(keywords) < 5:
        out.append("KEYWORDS_INSUFFICIENT")
    if methods is None:
        out.append("DATASET_METHOD_STEPS_MISSING")
    if project is None:
        out.append("DATASET_PROJECT_MISSING")
    return out


def dataset_worlds():
    bare = dict(abstract=None, coverage=None, table=None, rights=None, keywords=(), methods=None, project=None)
    factors = {
        "abstract": [None, "empty", 1, 19, 20, 21, ("paras", 12, 8), ("paras", 12, 7), ("paras", 0, 20) if False else ("paras", 1, 19), ("markdown", 20), ("markdown", 19)],
        "coverage": [None, "childless", "ok"],
        "table": [None, "ok", "two"],
        "rights": [None, "ok"],
        "keywords": [(), (4,), (5,), (6,), (2, 3), (2, 2), (0,), (0, 5)],
        "methods": [None, "ok"],
        "project": [None, "ok"],
    }
    out = [("a complete dataset", {}), ("a bare dataset", dict(bare)), ("a complete dataset, children in reverse order", {"order": "reversed"}),
           ("a bare dataset but for the abstract, children in reverse order", dict(bare, abstract="ok", order="reversed"))]
    for f, vals in factors.items():
        for v in vals:
            out.append((f"a complete dataset with {f} = {v!r}", {f: v}))
            out.append((f"a bare dataset with {f} = {v!r}", dict(bare, **{f: v})))
    return [(d, (lambda kw=kw: _dataset(**kw)), _dataset_expect(**kw)) for d, kw in out]


def _table(desc="ok", size="ok", md5="ok", records="ok", delim="ok", physical=True, siblings=True):
    kids = []
    if siblings:
        kids.append(mk("entityName", "n"))
    if desc == "ok":
        kids.append(mk("entityDescription", "d"))
    elif desc == "empty":
        kids.append(mk("entityDescription", None))
    if physical:
        ph = [mk("objectName", "o")]
        if size == "ok":
            ph.append(mk("size", "10"))
        elif size == "empty":
            ph.append(mk("size", None))
        if md5 == "ok":
            ph.append(mk("authentication", "abc", attributes={"method": "MD5"}))
        elif md5 == "empty":
            ph.append(mk("authentication", None))
        tf = []
        if delim == "ok":
            tf.append(mk("recordDelimiter", "\\n"))
        elif delim == "empty":
            tf.append(mk("recordDelimiter", None))
        ph.append(mk("dataFormat", None, [mk("textFormat", None, [mk("numHeaderLines", "1")] + tf + [mk("attributeOrientation", "column")])]))
        kids.append(mk("physical", None, ph))
    kids.append(mk("attributeList"))
    if records == "ok":
        kids.append(mk("numberOfRecords", "3"))
    elif records == "empty":
        kids.append(mk("numberOfRecords", None))
    return mk("dataTable", None, kids)


def _table_expect(desc="ok", size="ok", md5="ok", records="ok", delim="ok", physical=True, siblings=True):
    out = []
    if desc != "ok":
        out.append("DATATABLE_DESCRIPTION_MISSING")
    if not physical or size != "ok":
        out.append("DATATABLE_SIZE_MISSING")
    if not physical or md5 != "ok":
        out.append("DATATABLE_MD5_CHECKSUM_MISSING")
    if records != "ok":
        out.append("DATATABLE_NUMBER_OF_RECORDS_MISSING")
    if not physical or delim != "ok":
        out.append("DATATABLE_RECORD_DELIMITER_MISSING")
    return out


def table_worlds():
    bare = dict(desc=None, size=None, md5=None, records=None, delim=None)
    out = [("a complete data table", {}), ("a data table without physical", dict(physical=False)), ("a bare data table", dict(bare)),
           ("a data table holding nothing at all", dict(bare, physical=False, siblings=False))]
    for f in ("desc", "size", "md5", "records", "delim"):
        for v in (None, "empty", "ok"):
            out.append((f"a complete data table with {f} = {v!r}", {f: v}))
            out.append((f"a bare data table with {f} = {v!r}", dict(bare, **{f: v})))
    return [(d, (lambda kw=kw: _table(**kw)), _table_expect(**kw)) for d, kw in out]


def entity_worlds():
    return [
        ("an entity with a description", lambda: mk("otherEntity", None, [mk("entityName", "n"), mk("entityDescription", "d"), mk("physical")]), []),
        ("an entity without a description", lambda: mk("otherEntity", None, [mk("entityName", "n"), mk("physical")]), ["OTHER_ENTITY_DESCRIPTION_MISSING"]),
        ("an entity with an empty description", lambda: mk("otherEntity", None, [mk("entityName", "n"), mk("entityDescription", None)]), ["OTHER_ENTITY_DESCRIPTION_MISSING"]),
        ("an entity with the description last", lambda: mk("otherEntity", None, [mk("entityName", "n"), mk("physical"), mk("entityDescription", "d")]), []),
        ("an entity with no children", lambda: mk("otherEntity"), ["OTHER_ENTITY_DESCRIPTION_MISSING"]),
    ]


def party_worlds(name):
    def party(uids=(), email="ok"):
        kids = [mk("individualName", None, [mk("givenName", "g"), mk("surName", "s")]), mk("organizationName", "o")]
        if email == "ok":
            kids.append(mk("electronicMailAddress", "a@b.c"))
        elif email == "empty":
            kids.append(mk("electronicMailAddress", None))
        for (directory, content) in uids:
            kids.append(mk("userId", content, attributes={"directory": directory} if directory else {}))
        return mk(name, None, kids)

    def expect(uids=(), email="ok"):
        out = []
        has_uid = any(c for (_d, c) in uids)
        has_orcid = any(c and d == "https://orcid.org" for (d, c) in uids)
        if not has_orcid:
            out.append("ORCID_ID_MISSING")
        if not has_uid:
            out.append("USER_ID_MISSING")
        if email != "ok":
            out.append("EMAIL_MISSING")
        return out
    O, X = "https://orcid.org", "https://example.org"
    cases = [dict(uids=((O, "0000-0001"),)), dict(uids=((X, "u1"),)), dict(uids=()), dict(uids=((X, "u1"), (O, "0000-0001"))), dict(uids=((O, "0000-0001"), (X, "u1"))),
             dict(uids=((O, None),)), dict(uids=((None, "u1"),)), dict(uids=((O, "0000-0001"),), email=None), dict(uids=((O, "0000-0001"),), email="empty"),
             dict(uids=(), email=None), dict(uids=((X, None), (O, "0000-0001")))]
    return [(f"a {name} with user ids {kw.get('uids')!r} and e-mail {kw.get('email', 'ok')!r}", (lambda kw=kw: party(**kw)), expect(**kw)) for kw in cases]


def name_worlds():
    def nm(given="g", sur="s", extra=True):
        kids = [mk("salutation", "Dr")] if extra else []
        if given != "absent":
            kids.append(mk("givenName", given))
        if sur != "absent":
            kids.append(mk("surName", sur))
        return mk("individualName", None, kids)
    cases = [(dict(), False), (dict(given="absent"), True), (dict(sur="absent"), True), (dict(given="absent", sur="absent"), True), (dict(given=None), True),
             (dict(sur=None), True), (dict(given="absent", sur="absent", extra=False), True), (dict(extra=False), False)]
    return [(f"an individualName with {kw or 'both names'}", (lambda kw=kw: nm(**kw)), ["INDIVIDUAL_NAME_INCOMPLETE"] if bad else []) for kw, bad in cases]


def title_worlds():
    def t(text, parent="dataset"):
        n = mk("title", text)
        if parent:
            mk(parent, None, [n])
        return n
    cases = [(W(4), "dataset", True), (W(5), "dataset", False), (W(6), "dataset", False), (W(1), "dataset", True), (W(1), "project", False), (W(1), None, False),
             (None, "dataset", False), ("a  b   c  d  e", "dataset", False), ("  a b c d  ", "dataset", True), (W(1), "citation", False)]
    return [(f"a title {text!r} under {parent}", (lambda text=text, parent=parent: t(text, parent)), ["TITLE_TOO_SHORT"] if bad else []) for text, parent, bad in cases]


DESCRIPTION_PARENTS = {
    "connectionDefinition": "CONNECTION_DEFINITION_DESCRIPTION_MISSING", "designDescription": "DESIGN_DESCRIPTION_DESCRIPTION_MISSING",
    "maintenance": "MAINTENANCE_DESCRIPTION_MISSING", "methodStep": "METHOD_STEP_DESCRIPTION_MISSING", "procedureStep": "PROCEDURE_STEP_DESCRIPTION_MISSING",
    "qualityControl": "QUALITY_CONTROL_DESCRIPTION_MISSING", "samplingDescription": "SAMPLING_DESCRIPTION_DESCRIPTION_MISSING",
    "studyExtent": "STUDY_EXTENT_DESCRIPTION_MISSING"}


def description_worlds():
    def d(parent, kind):
        kids = []
        content = None
        if kind == "text":
            content = "some text"
        elif kind == "para":
            kids = [mk("para", "some text")]
        elif kind == "deep para":
            kids = [mk("section", None, [mk("para", "some text")])]
        elif kind == "markdown":
            kids = [mk("markdown", "some text")]
        elif kind == "empty para":
            kids = [mk("para", None)]
        n = mk("description", content, kids)
        if parent:
            mk(parent, None, [n])
        return n
    out = []
    for parent, code in DESCRIPTION_PARENTS.items():
        out.append((f"an empty description under {parent}", (lambda parent=parent: d(parent, "empty")), [code]))
        out.append((f"a description with text under {parent}", (lambda parent=parent: d(parent, "text")), []))
    for kind in ("para", "deep para", "markdown"):
        out.append((f"a description whose text sits in a {kind}, under methodStep", (lambda kind=kind: d("methodStep", kind)), []))
    out.append(("a description holding only an empty para, under methodStep", lambda: d("methodStep", "empty para"), ["METHOD_STEP_DESCRIPTION_MISSING"]))
    out.append(("an empty description under project", lambda: d("project", "empty"), []))
    out.append(("an empty description without a parent", lambda: d(None, "empty"), []))
    return out


def spec():
    s = {"dataset": dataset_worlds(), "dataTable": table_worlds(), "otherEntity": entity_worlds(), "individualName": name_worlds(), "title": title_worlds(),
         "description": description_worlds()}
    for p in ("creator", "contact", "associatedParty", "metadataProvider", "personnel"):
        s[p] = party_worlds(p)
    return s


def rule_r10(ctx, rep, table_of):
    """table_of: element name -> evaluator FuncInfo (the dispatch table, read by R2)"""
    sp = spec()
    for name, ws in sorted(sp.items()):
        fi = table_of.get(name)
        if fi is None:
            rep.oblige(("R10", name, "dispatched"), False)
            rep.add("R10", "metapype.eml.evaluate.rules", f"element '{name}'", f"the dispatch table has no evaluator for '{name}': its recommendations are never reported", "")
            continue
        for what, build, want in ws:
            tree = build()
            pe = PEval(ctx.world)
            try:
                got = pe.call(fi, [tree])
            except Raised as r:
                rep.count("recommendation verdicts")
                rep.oblige(("R10", name, what), False)
                rep.add("R10", fi.qname, what, f"evaluating {what} raises {r.cls}", fi.loc())
                break
            except PEvalUnsupported as ex:
                rep.notes.append(f"{fi.qname} not folded for {what}: {ex}")
                continue
            if got is None:
                got = []
            if isinstance(got, Opaque) or not isinstance(got, list):
                rep.notes.append(f"{fi.qname} not folded for {what}: the result is not a list")
                continue
            codes = []
            bad_entry = None
            for x in got:
                c = x[0] if isinstance(x, tuple) and x else None
                if isinstance(c, EnumMember):
                    codes.append(c.member)
                else:
                    bad_entry = x
            rep.count("recommendation verdicts")
            ok = bad_entry is None and sorted(codes) == sorted(want)
            rep.oblige(("R10", name, what), ok, sample={"evaluator": fi.name, "tree": what, "warnings": sorted(codes)})
            if not ok:
                miss = sorted(set(want) - set(codes))
                extra = sorted(set(codes) - set(want))
                dup = sorted({c for c in codes if codes.count(c) > want.count(c)} - set(extra))
                parts = ([f"does not report {', '.join(miss)}"] if miss else []) + ([f"reports {', '.join(extra)}"] if extra else []) + \
                        ([f"reports {', '.join(dup)} more than once"] if dup else []) + (["appends something that is not a (code, message, node) triple"] if bad_entry is not None else [])
                rep.add("R10", fi.qname, what, f"for {what} the evaluator {'; '.join(parts) or 'answers differently'}; the documented recommendations give "
                        f"{sorted(want) or 'no warning'}", fi.loc())
                break


def rule_r11(ctx, rep):
    """evaluate.tree against evaluate.node, both folded (a relation between two entry points, no oracle): on a document holding one
    element of every evaluated kind the warnings of the tree are the concatenation, in document order, of what node() gives for
    every node; entries already in the caller's list stay where they were; every entry is a (declared code, text, node) triple."""
    from .worlds import is_node, mkc, nodes, number
    from ..types import NODE_Q
    prog = ctx.prog
    f_tree, f_node = prog.funcs.get("metapype.eml.evaluate.tree"), prog.funcs.get("metapype.eml.evaluate.node")
    if f_tree is None or f_node is None:
        return

    def doc():
        person = lambda tag, **kw: mkc(tag, None, [mkc("individualName", None, [mkc("givenName", "g")]), mkc("userId", "u", attributes={"directory": "https://orcid.org"})], **kw)
        return mkc("eml", None, [mkc("dataset", None, [
            mkc("title", "too short"), person("creator"), person("metadataProvider"), mkc("abstract", None, [mkc("para", W(5))]),
            mkc("keywordSet", None, [mkc("keyword", "k")]), person("contact"),
            mkc("methods", None, [mkc("methodStep", None, [mkc("description", None, [mkc("para", None)])])]),
            mkc("project", None, [mkc("title", "p"), person("personnel")]),
            mkc("dataTable", None, [mkc("entityName", "n"), mkc("physical", None, [mkc("size", "1")])]), mkc("otherEntity", None, [mkc("entityName", "n")])])])
    root = number(doc())
    pe = PEval(ctx.world)
    pe.class_state[(NODE_Q, "store")] = {n["_id"]: n for n in nodes(root)}
    sentinel = ("earlier entry",)
    out = [sentinel]
    try:
        pe.call(f_tree, [root, out])
        parts = []
        for n in nodes(root):
            r = pe.call(f_node, [n])
            parts.append((n, list(r) if isinstance(r, list) else []))
    except Raised as r:
        rep.count("tree / node evaluation verdicts")
        rep.oblige(("R11", "total"), False)
        rep.add("R11", f_tree.qname, "evaluate.tree on a document with one element of every evaluated kind", f"evaluation raises {r.cls}: it must never raise", f_tree.loc())
        return
    except PEvalUnsupported as ex:
        rep.notes.append(f"evaluate.tree not folded: {ex}")
        return
    rep.count("tree / node evaluation verdicts")

    def key(e):
        return tuple(("code", x.member) if isinstance(x, EnumMember) else ("node", id(x)) if is_node(x) else repr(x)[:60] for x in e) if isinstance(e, tuple) else repr(e)[:60]
    concat = [e for (_n, es) in parts for e in es]
    why = None
    if not out or out[0] is not sentinel:
        why = "an entry that was already in the caller's list is gone or moved"
    elif [key(e) for e in out[1:]] != [key(e) for e in concat]:
        pos, culprit = 1, None
        for (n, es) in parts:
            if [key(e) for e in out[pos:pos + len(es)]] != [key(e) for e in es]:
                culprit = n
                break
            pos += len(es)
        why = (f"the tree's warnings ({len(out) - 1}) are not the concatenation, in document order, of the node warnings ({len(concat)})"
               + (f"; first difference at {culprit['_name']}" if culprit is not None else ""))
    else:
        bad = next((e for e in out[1:] if not (isinstance(e, tuple) and len(e) == 3 and isinstance(e[0], EnumMember) and isinstance(e[1], str) and is_node(e[2]))), None)
        if bad is not None:
            why = f"an appended entry is not a (declared code, text, node) triple: {str(key(bad))[:80]}"
    rep.oblige(("R11", "concat"), why is None, sample={"warnings": len(out) - 1})
    if why is not None:
        rep.add("R11", f_tree.qname, "evaluate.tree on a document with one element of every evaluated kind", why, f_tree.loc())
