"""C15 -- prune removes exactly the offending subtrees and nothing else (partial):
never raises (R1), the disallowed-children sweep does not depend on which rule
error came first (R2), record / remove / unregister go together (R3), the
membership tests compare comparable things (R4)."""
from __future__ import annotations

import ast

from .. import prereq
from ..marks import MarkDomain, may_at, must_at, run_marks
from ..model import AnalysisError, norm
from ..types import NODE_Q, T_NLIST, T_NODE, T_OPT
from ..valslice import RULE_ERR
from .c11 import get_effects
from .c14 import _id_owner, _path, _resolves_to, delete_sites, discard_sites

PRUNE = "metapype.eml.validate.prune"
NODEF = "metapype.eml.validate.node"
UNKNOWN_ERR = "metapype.eml.exceptions.UnknownNodeError"


def rule_r1(ctx, rep):
    eng = prereq.engine(ctx)
    h = ctx.hier
    fi = ctx.prog.func(PRUNE)
    rep.touch(fi)
    s = eng.entry(fi, frozenset())
    rep.count("prune entry")
    if not s.escapes:
        rep.oblige(("R1", "total"), True)
    grouped = {}
    for key, esc in sorted(s.escapes.items(), key=lambda kv: str(kv[0])):
        if h.issub(esc.cls, RULE_ERR):
            grouped.setdefault(esc.site, []).append(esc)
    for site, es in grouped.items():
        rep.oblige(("R1", "rule-errors", site), False)
        classes = sorted({h.short(e.cls) for e in es})
        rep.add("R1", fi.qname, site, f"rule errors raised by the validator ({', '.join(classes[:6])}{', ...' if len(classes) > 6 else ''}) "
                f"escape prune through this call: no handler covers them, and prune must never raise", es[0].loc and fi.loc())
    for key, esc in sorted(s.escapes.items(), key=lambda kv: str(kv[0])):
        if h.issub(esc.cls, RULE_ERR):
            continue
        rep.oblige(("R1", esc.cls, esc.origin[:2], esc.site), False)
        chain = " <- ".join(x.rsplit(".", 1)[-1] for x in esc.chain)
        rep.add("R1", fi.qname if esc.chain[:1] == (fi.qname,) and len(esc.chain) <= 2 else esc.origin[0],
                esc.site if esc.chain[:1] == (fi.qname,) and len(esc.chain) <= 2 else esc.origin[1],
                f"{h.short(esc.cls)} may escape prune, which must never raise: {esc.origin[2]}", esc.loc, path=f"prune: {chain}")
    n_rm = 0
    for r in s.ledger:
        if r["func"] == fi.qname or "remove" in r["construct"]:
            if len(rep.samples) < 25:
                rep.sample({"operation": r["construct"][:70], "kind": r["op"], "discharged by": r["discharge"]})
    for (q, cf), sm in eng.memo.items():
        if q == NODE_Q + ".remove_child":
            for r in sm.ledger:
                if r["op"].startswith("list.remove"):
                    n_rm += 1
                    rep.oblige(("R1", "remove", tuple(sorted(map(str, cf)))), r["discharge"] != "ESCAPES")
    rep.count("remove_child contexts analysed", n_rm)
    rep.assumed_total |= eng.assumed_total
    rep.floor("remove_child contexts analysed", 2)


def _is_sweep(ctx, fi, loop):
    """a loop over (a snapshot of) the children that removes those the rule does not allow"""
    if not isinstance(loop, ast.For):
        return False
    def is_test(n):
        return isinstance(n, ast.Call) and isinstance(n.func, ast.Attribute) and n.func.attr == "is_allowed_child"
    has_test = any(is_test(n) for n in ast.walk(loop))
    if not has_test and isinstance(loop.iter, ast.Name):
        # two-step form: the offending children are collected first -- D = [c for c in n.children if not rule.is_allowed_child(c.name)] --
        # and then removed one by one
        defs = [a.value for a in ast.walk(fi.node) if isinstance(a, ast.Assign) and len(a.targets) == 1 and isinstance(a.targets[0], ast.Name)
                and a.targets[0].id == loop.iter.id]
        if len(defs) == 1 and isinstance(defs[0], ast.ListComp) and len(defs[0].generators) == 1 and defs[0].generators[0].ifs:
            g = defs[0].generators[0]
            conds = g.ifs
            if any(is_test(n) for c in conds for n in ast.walk(c)) and isinstance(defs[0].elt, ast.Name) and isinstance(g.target, ast.Name) \
                    and defs[0].elt.id == g.target.id:
                # polarity: the collected ones are those the rule does NOT allow
                from ..peval import PEval, PEvalUnsupported, Raised

                def verdict(allowed):
                    pe = PEval(ctx.world)
                    env = {}

                    class Stub(ast.NodeTransformer):
                        def visit_Call(self, n):
                            if is_test(n):
                                return ast.Constant(value=allowed)
                            return self.generic_visit(n)
                    import copy as _c
                    try:
                        return all(bool(pe.truth(pe.eval(Stub().visit(_c.deepcopy(c)), env, fi), c)) for c in conds)
                    except (PEvalUnsupported, Raised):
                        return None
                has_test = verdict(False) is True and verdict(True) is False
    has_rm = any(any(x is d for x in ast.walk(loop)) for (d, _p, _h) in discard_sites(ctx, fi))
    return has_test and has_rm


def _passes_sweep(ctx, fi, stmts) -> bool:
    """every path through stmts that completes normally passes a sweep loop"""
    for s in stmts:
        if _is_sweep(ctx, fi, s):
            return True
        if isinstance(s, (ast.Return, ast.Raise)):
            return True  # the path does not complete normally
        if isinstance(s, ast.If):
            if _passes_sweep(ctx, fi, s.body) and _passes_sweep(ctx, fi, s.orelse):
                return True
        if isinstance(s, ast.Expr) and isinstance(s.value, ast.Call):
            for tg in ctx.world.resolve_call(ctx.world.types(fi), s.value):
                if tg.func is not None and any(_is_sweep(ctx, tg.func, n) for n in ast.walk(tg.func.node)):
                    return True
        if isinstance(s, ast.Try):
            if _passes_sweep(ctx, fi, s.body) and all(_passes_sweep(ctx, fi, h.body) for h in s.handlers):
                return True
    return False


def _derived_names(fi, seeds):
    """locals computed from the seed names only: assigned from an expression reading them, bound by a loop over them, or filled
    by a mutating call whose arguments read them"""
    der = set(seeds)
    for _ in range(6):
        before = len(der)
        for n in ast.walk(fi.node):
            reads = lambda e: any(isinstance(x, ast.Name) and x.id in der for x in ast.walk(e))
            if isinstance(n, ast.Assign) and reads(n.value):
                for t in n.targets:
                    for x in ast.walk(t):
                        if isinstance(x, ast.Name):
                            der.add(x.id)
            elif isinstance(n, ast.For) and reads(n.iter):
                for x in ast.walk(n.target):
                    if isinstance(x, ast.Name):
                        der.add(x.id)
            elif isinstance(n, ast.Call) and isinstance(n.func, ast.Attribute) and isinstance(n.func.value, ast.Name) \
                    and n.func.attr in ("append", "add", "setdefault", "update", "extend", "insert") and any(reads(a) for a in n.args):
                der.add(n.func.value.id)
        if len(der) == before:
            break
    return der


def _collecting_form(ctx, rep, fi, call):
    """prune validates its own node in collecting mode (nothing is raised, so there is no handler to steer on): every path
    from the validation to the descent into the children passes the disallowed-children sweep, at most under a test that reads
    nothing but the collected error list"""
    errs = None
    if len(call.args) > 1 and isinstance(call.args[1], ast.Name):
        errs = call.args[1].id
    for k in call.keywords:
        if isinstance(k.value, ast.Name):
            errs = k.value.id
    der = _derived_names(fi, {errs}) if errs else set()

    def block_of(stmts):
        for i, st in enumerate(stmts):
            if isinstance(st, ast.Expr) and st.value is call:
                return stmts[i + 1:]
            for fld in ("body", "orelse", "finalbody"):
                sub = getattr(st, fld, None)
                if isinstance(sub, list) and sub and isinstance(sub[0], ast.stmt):
                    r = block_of(sub)
                    if r is not None:
                        return r
        return None
    rest = block_of(fi.node.body)
    rep.count("handlers of node(n) in prune", 2)  # the collecting form has no handlers; the path rule below replaces them
    if rest is None:
        raise AnalysisError("validate.prune: the collecting validation of prune's own node is not a statement of its own")

    def passes(stmts):
        for st in stmts:
            if _is_sweep(ctx, fi, st):
                return True
            if isinstance(st, (ast.Return, ast.Raise)):
                return True
            if isinstance(st, ast.If):
                names = {x.id for x in ast.walk(st.test) if isinstance(x, ast.Name)}
                if names and names <= der | {"len", "any", "all", "bool"} and (passes(st.body) or passes(st.orelse)):
                    # whether the error list calls for a sweep is the validator's word (C01/C03/C04 decide that it reports every
                    # violated constraint); the sweep itself still asks the rule
                    rep.assumptions.append("the collected error list of node(n) names a not-allowed child whenever there is one (C01/C04)") \
                        if "the collected error list of node(n) names a not-allowed child whenever there is one (C01/C04)" not in rep.assumptions else None
                    return True
                if passes(st.body) and passes(st.orelse):
                    return True
            if isinstance(st, ast.For) and any(isinstance(c, ast.Call) and _resolves_to(ctx, fi, c, PRUNE) for c in ast.walk(st)):
                return False  # the descent is reached without a sweep
        return False
    ok = passes(rest)
    rep.oblige(("R2", "collecting-form"), ok)
    if not ok:
        rep.add("R2", fi.qname, call, "after validating its own node in collecting mode prune reaches the descent into the children on a path that "
                "does not sweep out the children the rule does not allow", fi.loc(call))


def _victims_justified(ctx, rep, fi):
    """every removal in prune is justified by one of the three reasons the property names: the node's own name is unknown (the
    removed node is prune's own parameter), the parent's rule does not allow the child (the removal is governed, with the right
    polarity, by the rule's allowed-child query on the parent's rule), or strict single-node validation of the child failed
    (the removal sits in a handler of, or under a test of the error list of, node(child))"""
    from ..condeval import enclosing_ifs
    from ..peval import PEval, PEvalUnsupported, Raised
    import copy as _c
    nparam = fi.params[0]

    def is_test(n):
        return isinstance(n, ast.Call) and isinstance(n.func, ast.Attribute) and n.func.attr == "is_allowed_child"
    parents = {}
    for n in ast.walk(fi.node):
        for c in ast.iter_child_nodes(n):
            parents[id(c)] = n
    for (d, x, how) in discard_sites(ctx, fi):
        rep.count("removals justified")
        base = x.split(".")[0]
        why = None
        if x == nparam:
            why = "own"
        if why is None:
            # strict: inside a handler of a try whose body validates this very child, or under a test of its error list
            cur = d
            while id(cur) in parents and why is None:
                par = parents[id(cur)]
                if isinstance(par, ast.ExceptHandler):
                    tr = parents.get(id(par))
                    if isinstance(tr, ast.Try) and any(isinstance(c, ast.Call) and _resolves_to(ctx, fi, c, NODEF) and c.args and _path(c.args[0]) == x
                                                       for b in tr.body for c in ast.walk(b)):
                        why = "strict"
                cur = par
        if why is None:
            for c in ast.walk(fi.node):
                if isinstance(c, ast.Call) and _resolves_to(ctx, fi, c, NODEF) and c.args and _path(c.args[0]) == x and len(c.args) > 1 \
                        and isinstance(c.args[1], ast.Name):
                    der = _derived_names(fi, {c.args[1].id})
                    for (g, side) in enclosing_ifs(fi, d):
                        names = {y.id for y in ast.walk(g.test) if isinstance(y, ast.Name)}
                        if names & der and c.lineno < g.lineno:
                            why = "strict"
        if why is None:
            for (g, side) in enclosing_ifs(fi, d):
                if not any(is_test(y) for y in ast.walk(g.test)):
                    continue

                def verdict(allowed):
                    class Stub(ast.NodeTransformer):
                        def visit_Call(self, n):
                            if is_test(n):
                                return ast.Constant(value=allowed)
                            return self.generic_visit(n)
                    childobj = {"__obj__": True, "name": "c", "_name": "c", "children": [], "_children": []}
                    env = {base: childobj, nparam: {"__obj__": True, "name": "p", "_name": "p", "children": [childobj], "_children": [childobj]}}
                    if len(fi.params) > 1:
                        env[fi.params[1]] = False
                    pe = PEval(ctx.world)
                    try:
                        return bool(pe.truth(pe.eval(Stub().visit(_c.deepcopy(g.test)), env, fi), g.test))
                    except (PEvalUnsupported, Raised):
                        return None
                if verdict(False) == side and verdict(True) == (not side):
                    why = "rule"
            if why is None:
                # two-step form: the loop ranges over a collection filtered by the query
                for lp in ast.walk(fi.node):
                    if isinstance(lp, ast.For) and any(y is d for y in ast.walk(lp)) and _is_sweep(ctx, fi, lp) and not any(is_test(y) for y in ast.walk(lp)):
                        why = "rule"
        rep.oblige(("R2", "victim", norm(d)), why is not None, sample={"removal": norm(d)[:60], "justified by": why})
        if why is None:
            rep.add("R2", fi.qname, d, f"`{x}` is removed although neither the rule's allowed-child query (is_allowed_child on the parent's rule), nor an "
                    f"unknown name of prune's own node, nor a failed strict validation of `{x}` governs the removal: prune must remove exactly the "
                    f"offending subtrees", fi.loc(d))
    rep.floor("removals justified", 2)


def rule_r2(ctx, rep):
    prog = ctx.prog
    h = ctx.hier
    fi = prog.func(PRUNE)
    tries = []
    for t in ast.walk(fi.node):
        if isinstance(t, ast.Try) and any(isinstance(n, ast.Call) and _resolves_to(ctx, fi, n, NODEF) for b in t.body for n in ast.walk(b)):
            tries.append(t)
    _victims_justified(ctx, rep, fi)
    own_calls = [n for n in ast.walk(fi.node) if isinstance(n, ast.Call) and _resolves_to(ctx, fi, n, NODEF) and n.args and isinstance(n.args[0], ast.Name)
                 and n.args[0].id == fi.params[0]]
    collecting = [c for c in own_calls if (len(c.args) > 1 and not (isinstance(c.args[1], ast.Constant) and c.args[1].value is None))
                  or any(k.arg is not None and not (isinstance(k.value, ast.Constant) and k.value.value is None) for k in c.keywords)]
    if collecting and not any(any(x is c for b in t.body for x in ast.walk(b)) for t in tries for c in collecting):
        _collecting_form(ctx, rep, fi, collecting[0])
        return
    if not tries:
        raise AnalysisError("anchor vanished: try around node(n) in validate.prune")
    from ..exc import resolve_exc_class
    # the try that validates the node being pruned itself (its argument is prune's own parameter)
    main = None
    for t in tries:
        for b in t.body:
            for n in ast.walk(b):
                if isinstance(n, ast.Call) and _resolves_to(ctx, fi, n, NODEF) and n.args and isinstance(n.args[0], ast.Name) and n.args[0].id == fi.params[0]:
                    main = t
    if main is None:
        raise AnalysisError("anchor vanished: node(n) on prune's own node")
    covered = set()
    for hd in main.handlers:
        types = [None] if hd.type is None else (hd.type.elts if isinstance(hd.type, ast.Tuple) else [hd.type])
        classes = [resolve_exc_class(prog, fi.module, t) if t is not None else "BaseException" for t in types]
        rep.count("handlers of node(n) in prune")
        only_unknown = all(c is not None and h.issub(c, UNKNOWN_ERR) for c in classes)
        if only_unknown:
            continue
        ok = _passes_sweep(ctx, fi, hd.body)
        rep.oblige(("R2", tuple(map(str, classes))), ok, sample={"handler": [h.short(c) for c in classes if c], "runs the disallowed-children sweep": ok})
        if not ok:
            rep.add("R2", fi.qname, f"except {', '.join(h.short(c) for c in classes if c)}",
                    "when node validation fails with this error the children the rule does not allow are not removed: whether a foreign "
                    "child survives depends on which error the validator happened to raise first", fi.loc(hd))
    # the whole rule-error family must be handled
    fam_ok = any(hd.type is None or any((resolve_exc_class(prog, fi.module, t) or "") in (RULE_ERR, "Exception", "BaseException")
                                        for t in (hd.type.elts if isinstance(hd.type, ast.Tuple) else [hd.type])) for hd in main.handlers)
    rep.oblige(("R2", "family"), fam_ok)
    if not fam_ok:
        rep.add("R2", fi.qname, "handlers of node(n)", "the handlers around node(n) do not cover the whole rule-error family", fi.loc(main))
    rep.floor("handlers of node(n) in prune", 2)


def rule_r3(ctx, rep):
    prog = ctx.prog
    fi = prog.func(PRUNE)
    w = ctx.world
    ft = w.types(fi)
    # the result list
    rets = [n for n in ast.walk(fi.node) if isinstance(n, ast.Return)]
    rv = {norm(r.value) for r in rets if r.value is not None}
    if len(rv) != 1 or any(r.value is None for r in rets):
        rep.add("R3", fi.qname, "return", "prune does not return its single result list on every path", fi.loc())
        return
    res = rv.pop()
    discards = discard_sites(ctx, fi)
    appends = []
    for n in ast.walk(fi.node):
        if isinstance(n, ast.Call) and isinstance(n.func, ast.Attribute) and n.func.attr == "append" and norm(n.func.value) == res and n.args:
            a = n.args[0]
            subj = _path(a.elts[0]) if isinstance(a, ast.Tuple) and a.elts else None
            appends.append((n, subj, a))
    for (n, subj, a) in appends:
        rep.count("records in the result list")
        ok = isinstance(a, ast.Tuple) and len(a.elts) == 2 and subj is not None and ft.type_of(a.elts[0]) in (T_NODE, T_OPT)
        rep.oblige(("R3", "shape", norm(n)), ok)
        if not ok:
            rep.add("R3", fi.qname, n, "a result entry is not a (removed node, reason) pair", fi.loc(n))
            continue
        # the recorded node is removed (or is the parentless root) and unregistered on all paths that follow
        mine_rm = [d for (d, x, how) in discards if x == subj]
        mine_del = [d for (d, own, keep) in delete_sites(ctx, fi) if own == subj]
        md = MarkDomain()
        for d in mine_rm:
            md.mark(d, "RM")
        for d in mine_del:
            md.mark(d, "UNREG")
        for c in ast.walk(fi.node):
            if isinstance(c, ast.Compare) and len(c.ops) == 1 and isinstance(c.comparators[0], ast.Constant) and c.comparators[0].value is None \
                    and _path(c.left) in (subj + ".parent", subj + "._parent"):
                if isinstance(c.ops[0], ast.IsNot):
                    md.mark_test(c, if_false=["RM"])
                elif isinstance(c.ops[0], ast.Is):
                    md.mark_test(c, if_true=["RM"])
        md.mark(n, "REC")
        md.unmark(n, "RM", "UNREG")
        flow, exits = run_marks(ctx, fi, md)
        # on every exit reached after this record, RM and UNREG hold
        bad = [1 for (must, may) in exits if "REC" in may and not ({"RM", "UNREG"} <= must) and "REC" in must]
        # (exits where the record is only possible are merged paths; check the statement-level pairing instead)
        ok2 = bool(mine_rm or any(True for _ in ())) and bool(mine_del)
        # strict pairing by must-follow within the same block
        ok3 = _follows_in_block(fi, n, mine_rm, mine_del, subj)
        rep.oblige(("R3", "triple", norm(n)), ok2 and ok3, sample={"record": norm(n)[:60], "removed by": norm(mine_rm[0]) if mine_rm else None,
                                                                   "unregistered by": norm(mine_del[0]) if mine_del else None})
        if not (ok2 and ok3):
            rep.add("R3", fi.qname, n, f"`{subj}` is recorded as pruned but is not both detached and unregistered on every path that follows "
                    f"(the returned list must name exactly the removed subtree roots)", fi.loc(n))
    for (d, x, how) in discards:
        rep.count("removals in prune")
        ok = any(subj == x and _same_block(fi, n_, d) for (n_, subj, _a) in appends)
        rep.oblige(("R3", "recorded", norm(d)), ok)
        if not ok:
            rep.add("R3", fi.qname, d, f"`{x}` is removed from the tree but not recorded in the returned list", fi.loc(d))
    # nothing else is written
    eff = get_effects(ctx)
    for e in eff.effects(fi):
        if e.kind == "P":
            continue
        rep.count("model effects of prune")
        ok = (e.kind == "M" and e.field == "_children") or e.kind == "S"
        rep.oblige(("R3", "effect", e.kind, e.field, e.construct), ok)
        if not ok:
            rep.add("R3", e.func, e.construct, f"prune writes field {e.field} of a node it keeps (kept nodes must be untouched)", e.loc)
    rep.floor("records in the result list", 2)
    rep.floor("removals in prune", 2)


def _same_block(fi, rec_call, other):
    """the record and the other call sit in the same statement list (or the other one level below, under the parent guard)"""
    def blocks(stmts):
        yield stmts
        for s in stmts:
            for fld in ("body", "orelse", "finalbody"):
                sub = getattr(s, fld, None)
                if isinstance(sub, list) and sub and isinstance(sub[0], ast.stmt):
                    yield from blocks(sub)
            if isinstance(s, ast.Try):
                for hd in s.handlers:
                    yield from blocks(hd.body)
    for blk in blocks(fi.node.body):
        if any(isinstance(s, ast.Expr) and s.value is rec_call for s in blk):
            return any(any(x is other for x in ast.walk(s)) for s in blk)
    return False


def _follows_in_block(fi, rec_call, rms, dels, subj):
    """the record statement, the removal and the unregistration of the same subject sit in one statement list
    with nothing but simple statements (and the optional `if X.parent is not None:` guard) between them"""
    def find_block(stmts):
        for i, s in enumerate(stmts):
            if isinstance(s, ast.Expr) and s.value is rec_call:
                return stmts
            for fld in ("body", "orelse", "finalbody"):
                sub = getattr(s, fld, None)
                if isinstance(sub, list) and sub and isinstance(sub[0], ast.stmt):
                    r = find_block(sub)
                    if r is not None:
                        return r
            if isinstance(s, ast.Try):
                for hd in s.handlers:
                    r = find_block(hd.body)
                    if r is not None:
                        return r
        return None
    blk = find_block(fi.node.body)
    if blk is None:
        return False
    has_rm = has_del = False
    for s in blk:
        if isinstance(s, (ast.Return, ast.Raise, ast.Break, ast.Continue)):
            break
        for n in ast.walk(s):
            if any(n is d for d in rms):
                # a removal under `if subj.parent is not None` is the root idiom
                has_rm = True
            if any(n is d for d in dels):
                has_del = True
    return has_rm and has_del


def rule_r4(ctx, rep):
    prog = ctx.prog
    fi = prog.func(PRUNE)
    w = ctx.world
    ft = w.types(fi)
    kinds = {}
    for n in ast.walk(fi.node):
        if isinstance(n, ast.Call) and isinstance(n.func, ast.Attribute) and n.func.attr in ("append", "insert") and isinstance(n.func.value, ast.Name) and n.args:
            a = n.args[-1]
            k = "tuple" if isinstance(a, ast.Tuple) else "node" if ft.type_of(a) in (T_NODE, T_OPT) else "other"
            kinds.setdefault(n.func.value.id, set()).add(k)
    for n in ast.walk(fi.node):
        if isinstance(n, ast.Compare) and len(n.ops) == 1 and isinstance(n.ops[0], (ast.In, ast.NotIn)) and isinstance(n.comparators[0], ast.Name):
            L = n.comparators[0].id
            if L not in kinds:
                continue
            rep.count("membership tests against local lists")
            lk = "tuple" if isinstance(n.left, ast.Tuple) else "node" if ft.type_of(n.left) in (T_NODE, T_OPT) else "other"
            ok = lk == "other" or lk in kinds[L]
            rep.oblige(("R4", norm(n)), ok)
            if not ok:
                rep.add("R4", fi.qname, n, f"`{norm(n.left)}` is a {lk} but `{L}` only ever holds {sorted(kinds[L])}: Node defines no __eq__, so the "
                        f"test is constant and the belief it encodes ('already pruned') is not implemented", fi.loc(n))
    rep.count("local lists with appended elements", len(kinds))
    rep.floor("local lists with appended elements", 1)


def live_iteration_problems(ctx, fi):
    """loops that iterate a node's live child list while their body may remove children from that list"""
    from ..treefx import TreeFx
    w = ctx.world
    nm = w.nm
    fx = ctx.get("treefx", lambda: TreeFx(w))
    ft = w.types(fi)
    out = []
    live_alias = {}
    for n in ast.walk(fi.node):
        if isinstance(n, ast.Assign) and len(n.targets) == 1 and isinstance(n.targets[0], ast.Name) and isinstance(n.value, ast.Attribute) \
                and nm.canon(n.value.attr) == "_children":
            live_alias[n.targets[0].id] = n.value
    for lp in ast.walk(fi.node):
        if not isinstance(lp, ast.For):
            continue
        it = lp.iter
        if isinstance(it, ast.Name) and it.id in live_alias:
            it = live_alias[it.id]
        if not (isinstance(it, ast.Attribute) and nm.canon(it.attr) == "_children"):
            continue
        owner = _path(it.value)
        shrinks = False
        for c in ast.walk(lp):
            if isinstance(c, ast.Call):
                for tg in w.resolve_call(ft, c):
                    if tg.func is None:
                        continue
                    am = w.arg_map(tg, c)
                    for e in fx.tree_effects(tg.func):
                        if e[0] in ("remove", "shrink_self") and _path(am.get(e[1])) == owner:
                            shrinks = True
                        if e[0] == "detach" and isinstance(lp.target, ast.Name) and _path(am.get(e[1])) == lp.target.id:
                            shrinks = True
                        if e[0] == "detach_id" and isinstance(lp.target, ast.Name) and _path(am.get(e[1])) in (lp.target.id + ".id", lp.target.id + "._id"):
                            shrinks = True
                        if e[0] == "shrink_any":
                            shrinks = True
        if shrinks:
            out.append(lp)
    return out


def rule_r5(ctx, rep):
    fi = ctx.prog.func(PRUNE)
    loops = [n for n in ast.walk(fi.node) if isinstance(n, ast.For)]
    rep.count("loops in prune", len(loops))
    bad = live_iteration_problems(ctx, fi)
    for lp in loops:
        rep.oblige(("R5", norm(lp.iter)), lp not in bad)
    for lp in bad:
        rep.add("R5", fi.qname, lp.iter, "the loop iterates a node's live child list while its body may remove children from that very list: "
                "the element after each removed child is skipped, so offending subtrees survive", fi.loc(lp))
    rep.floor("loops in prune", 2)


def rule_r6(ctx, rep):
    """strict mode judges a child after its own subtree has been pruned: every single-node validation of a loop child is
    dominated by the recursive prune of that child (pruning below a node can make it non-compliant, e.g. a required child goes)"""
    prog = ctx.prog
    fi = prog.func(PRUNE)
    w = ctx.world
    ft = w.types(fi)
    nparam = fi.params[0]
    rec, val = [], []
    for n in ast.walk(fi.node):
        if isinstance(n, ast.Call):
            for tg in w.resolve_call(ft, n):
                if tg.func is None:
                    continue
                am = w.arg_map(tg, n)
                first = am.get(tg.func.params[0]) if tg.func.params else None
                if not isinstance(first, ast.Name) or first.id == nparam:
                    continue
                if tg.func.qname == fi.qname:
                    rec.append((n, first.id))
                elif tg.func.qname == "metapype.eml.validate.node":
                    val.append((n, first.id))
    rep.count("strict validations of a loop child", len(val))
    strictp0 = fi.params[1] if len(fi.params) > 1 else None
    if not val and rec:
        rep.oblige(("R6", "present"), False)
        rep.add("R6", fi.qname, "strict-mode validation of the children", "prune never validates a child on its own: strict mode keeps children that fail "
                "single-node validation", fi.loc())
    # the strict validation is reached when strict is set and the child is still there (no test that is constantly false)
    from ..condeval import enclosing_ifs as _eifs
    from ..peval import PEval as _PE, PEvalUnsupported as _PU, Raised as _RA
    for (c, var) in val:
        childobj = {"__obj__": True, "name": "c", "_name": "c", "children": [], "_children": []}
        env = {strictp0: True, var: childobj, nparam: {"__obj__": True, "name": "p", "_name": "p", "children": [childobj], "_children": [childobj]}}
        reach = True
        for (g, side) in _eifs(fi, c):
            if not any(any(x is g for x in ast.walk(lp)) for lp in ast.walk(fi.node) if isinstance(lp, ast.For)):
                continue
            try:
                v = bool(_PE(ctx.world).truth(_PE(ctx.world).eval(g.test, dict(env), fi), g.test))
            except (_PU, _RA):
                continue
            if v != side:
                reach = False
                rep.oblige(("R6", "reachable", norm(g.test)[:40]), False)
                rep.add("R6", fi.qname, g.test, f"with strict set and `{var}` still a child of `{nparam}` this test keeps prune from validating `{var}`: strict "
                        f"mode leaves children that fail single-node validation", fi.loc(g))
        if reach:
            rep.oblige(("R6", "reachable", norm(c)), True)
    for (c, var) in val:
        md = MarkDomain()
        for (r, v) in rec:
            if v == var:
                md.mark(r, "PRUNED")
        md.probe(c)
        run_marks(ctx, fi, md)
        must = must_at(md, c)
        ok = must is None or "PRUNED" in must
        rep.oblige(("R6", norm(c)), ok)
        if not ok:
            rep.add("R6", fi.qname, c, f"`{var}` is validated on its own before prune has descended into it on some path: what is pruned below "
                    f"`{var}` afterwards can make it non-compliant, so strict mode leaves nodes that fail single-node validation "
                    f"(and a second prune removes more)", fi.loc(c))
    # ... and by nothing but the strict flag and the child still being there: every remaining child is judged
    from ..condeval import enclosing_ifs
    strictp = fi.params[1] if len(fi.params) > 1 else None
    for (c, var) in val:
        stmt = c
        for (g, _side) in enclosing_ifs(fi, c):
            if not any(any(x is g for x in ast.walk(lp)) for lp in ast.walk(fi.node) if isinstance(lp, ast.For)):
                continue  # guards outside the child loop (metadata test, handlers) are about n, not about the child
            names_ = {x.id for x in ast.walk(g.test) if isinstance(x, ast.Name)}
            foreign = sorted(names_ - {strictp, var, nparam, "len", "isinstance", "None", "True", "False"})
            rep.oblige(("R6", "guard", norm(g.test)[:50]), not foreign)
            if foreign:
                rep.add("R6", fi.qname, g.test, f"whether `{var}` is validated in strict mode depends on `{', '.join(foreign)}`: a child that is "
                        f"non-compliant on its own account (nothing pruned below it) is kept, although strict mode promises that every "
                        f"remaining node passes single-node validation", fi.loc(g))


def run(ctx, rep):
    rep.explanation = (
        "escape analysis of validate.prune with conditional summaries (remove_child raises unless the child is known to be listed: "
        "membership facts from snapshots / guards, killed by calls that may detach the same node); every handler of node(n) other than "
        "the unknown-node one passes the disallowed-children sweep on all its paths; each result record is paired with the removal "
        "and the unregistration of the same node and vice versa; prune's effect summary is limited to child removal and "
        "unregistration; membership tests against local lists compare like with like")
    rep.rules_run = ["R1", "R2", "R3", "R4", "R5", "R6", "R7"]
    rep.assumptions += ["R7 decides the outcome of prune on a catalogue of small documents in both modes (incl. a second run); not for every tree",
                        "distinct variables iterating a duplicate-free child list denote distinct nodes",
                        "D-TREE / D-REG provisos as in C04"]
    only = getattr(rep, "only", None)
    from .c15_worlds import rule_r7
    for name, fn in (("R1", rule_r1), ("R2", rule_r2), ("R3", rule_r3), ("R4", rule_r4), ("R5", rule_r5), ("R6", rule_r6), ("R7", rule_r7)):
        if only in (None, name):
            fn(ctx, rep)
