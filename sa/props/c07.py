"""C07 -- XML export is well-formed (partial): context-sensitive escaping (R1),
tag balance (R2), namespace re-declaration rule (R3), output coverage on every
return path (R4).  Round-trip equality
needs a parser run and is not decided."""
from __future__ import annotations

import ast

from ..marks import MarkDomain, may_at, run_marks
from ..model import AnalysisError, norm
from ..peval import PEval, PEvalUnsupported, Raised
from ..taint import run_taint

EXPORTERS = ["metapype.model.metapype_io.to_xml", "metapype.eml.export.to_xml"]
NSP = "metapype.model.metapype_io._nsp_unique"


def rule_r1_r2(ctx, rep):
    prog = ctx.prog
    for q in EXPORTERS:
        fi = prog.func(q)
        rep.touch(fi)
        dom = run_taint(ctx, fi)
        seen = set()
        for (node, piece, src, context, san, ok) in dom.sinks:
            key = (norm(piece), src, context, san)
            if key in seen:
                continue
            seen.add(key)
            rep.count(f"interpolation sinks in {q.rsplit('.', 2)[-2]}.to_xml")
            rep.oblige(("R1", q) + key, ok, sample={"exporter": q.split("metapype.")[-1], "piece": norm(piece), "source": src,
                                                     "context": context, "sanitised for": san})
            if not ok:
                need = {"attr": "an attribute-value context needs quoteattr() or escape() with a '\"' entity",
                        "text": "a text context needs escape()", "bare": "an unquoted attribute position needs quoteattr()"}[context]
                rep.add("R1", fi.qname, f"{norm(piece)} ({src}) in {context} context",
                        f"the node's {src} reaches the output {'unescaped' if san is None else 'escaped only for ' + san}: {need}; "
                        f"a value containing < & or a quote makes the document ill-formed", fi.loc(node))
        # ---- R2 tag balance
        names = {t[2] for t in dom.tag_names}
        kinds = {t[1] for t in dom.tag_names}
        rep.count("tag constructions", len({(id(t[0]), t[1]) for t in dom.tag_names}))
        ok = len(names) == 1 and kinds == {"open", "close"}
        rep.oblige(("R2", q, "same-name"), ok, sample={"exporter": q.split("metapype.")[-1], "element name expressions": sorted(names)})
        if not ok:
            rep.add("R2", fi.qname, f"tag names {sorted(names)}", "open, empty-element and close tags are not built from one and the same name "
                    "expression: the output is unbalanced for prefixed or renamed elements", fi.loc())
        elif names:
            var = names.pop()
            md = MarkDomain()
            uses = []
            for (node, kind, txt) in dom.tag_names:
                md.mark(node, "USED")
            assigns = [n for n in ast.walk(fi.node) if isinstance(n, (ast.Assign, ast.AugAssign)) and any(
                norm(t) == var for t in (n.targets if isinstance(n, ast.Assign) else [n.target]))]
            for a in assigns:
                md.probe(a)
            run_marks(ctx, fi, md)
            for a in assigns:
                may = may_at(md, a)
                okk = may is None or "USED" not in may
                rep.oblige(("R2", q, "stable", norm(a)), okk)
                if not okk:
                    rep.add("R2", fi.qname, a, f"`{var}` is re-assigned between the construction of the open and the close tag", fi.loc(a))
    rep.floor("interpolation sinks in metapype_io.to_xml", 5)
    rep.floor("interpolation sinks in export.to_xml", 2)
    rep.floor("tag constructions", 4)


def _redeclared_expr(ctx, tx):
    """the expression (in the general exporter) whose value is iterated to emit the xmlns declarations of a non-root node:
    (expression, local it is bound to) or None"""
    nodep = tx.params[0]
    parentp = tx.params[1] if len(tx.params) > 1 else None
    emit_vars = set()
    for n in ast.walk(tx.node):
        if isinstance(n, (ast.ListComp, ast.GeneratorExp, ast.For)):
            body_txt = norm(n.elt) if not isinstance(n, ast.For) else " ".join(norm(x) for x in n.body)
            if "xmlns:" in body_txt:
                it = n.generators[0].iter if not isinstance(n, ast.For) else n.iter
                if isinstance(it, ast.Call) and isinstance(it.func, ast.Attribute) and it.func.attr == "items":
                    it = it.func.value
                if isinstance(it, ast.Name):
                    emit_vars.add(it.id)
    for n in ast.walk(tx.node):
        if isinstance(n, ast.Assign) and len(n.targets) == 1 and isinstance(n.targets[0], ast.Name) and n.targets[0].id in emit_vars:
            names_ = {x.id for x in ast.walk(n.value) if isinstance(x, ast.Name)}
            if parentp in names_ and nodep in names_:
                return n.value, n.targets[0].id
    return None


def rule_r3(ctx, rep):
    prog = ctx.prog
    cases = [
        ({"a": "1", "b": "2", "c": "3"}, {"a": "1", "b": "9"}, {"b": "2", "c": "3"}),
        ({"a": "1"}, {"a": "1"}, {}),
        ({}, {"a": "1"}, {}),
        ({"a": "1"}, {}, {"a": "1"}),
        ({"a": "1", "b": "2"}, {"b": "2", "a": "1", "z": "0"}, {}),
    ]
    if NSP not in prog.funcs:
        # the helper was folded into the exporter: evaluate the expression that yields the bindings to re-declare
        from ..condeval import eval_at
        tx = prog.func(EXPORTERS[0])
        r = _redeclared_expr(ctx, tx)
        if r is None:
            raise AnalysisError(f"anchor vanished: function {NSP} (and no expression in to_xml that computes the bindings to re-declare from the node's and the parent's maps)")
        expr, var = r
        nodep, parentp = tx.params[0], tx.params[1]
        for (child, parent, want) in cases:
            rep.count("re-declaration cases folded")
            env = {nodep: {"__obj__": True, "nsmap": dict(child), "_nsmap": dict(child)}, parentp: {"__obj__": True, "nsmap": dict(parent), "_nsmap": dict(parent)}}
            try:
                got = PEval(ctx.world).eval(expr, dict(env), tx)
            except Raised as ex:
                got = f"raises {ex.cls}"
            except PEvalUnsupported as ex:
                raise AnalysisError(f"cannot fold the re-declaration expression `{norm(expr)[:80]}`: {ex}")
            ok = got == want
            rep.oblige(("R3", repr(child), repr(parent)), ok, sample={"child map": child, "parent map": parent, "re-declared": got})
            if not ok:
                rep.add("R3", tx.qname, expr, f"for child map {child} under parent map {parent} the bindings to re-declare are {got}; "
                        f"exactly the prefixes absent from or bound differently in the parent must be re-declared: {want}", tx.loc(expr))
                break
        rep.count("calls of the re-declaration helper")
        w = ctx.world
        rec = [n for n in ast.walk(tx.node) if isinstance(n, ast.Call) and any(tg.func is not None and tg.func.qname == tx.qname for tg in w.resolve_call(w.types(tx), n))]
        for rc in rec:
            am = w.arg_map(w.resolve_call(w.types(tx), rc)[0], rc)
            ok = isinstance(am.get(parentp), ast.Name) and am[parentp].id == nodep
            rep.oblige(("R3", "rec", norm(rc)), ok)
            if not ok:
                rep.add("R3", tx.qname, rc, "children are exported without their parent: every binding is re-declared or none is", tx.loc(rc))
        rep.floor("re-declaration cases folded", 5)
        return
    fi = prog.func(NSP)
    rep.touch(fi)
    pe = PEval(ctx.world)
    cases = [
        ({"a": "1", "b": "2", "c": "3"}, {"a": "1", "b": "9"}, {"b": "2", "c": "3"}),
        ({"a": "1"}, {"a": "1"}, {}),
        ({}, {"a": "1"}, {}),
        ({"a": "1"}, {}, {"a": "1"}),
        ({"a": "1", "b": "2"}, {"b": "2", "a": "1", "z": "0"}, {}),
    ]
    for (child, parent, want) in cases:
        rep.count("re-declaration cases folded")
        try:
            got = pe.call(fi, [dict(child), dict(parent)])
        except Raised as ex:
            got = f"raises {ex.cls}"
        except PEvalUnsupported as ex:
            raise AnalysisError(f"cannot fold _nsp_unique: {ex}")
        ok = got == want
        rep.oblige(("R3", repr(child), repr(parent)), ok, sample={"child map": child, "parent map": parent, "re-declared": got})
        if not ok:
            rep.add("R3", fi.qname, "returned bindings", f"for child map {child} under parent map {parent} the bindings to re-declare are {got}; "
                    f"exactly the prefixes absent from or bound differently in the parent must be re-declared: {want}", fi.loc())
            break
    # to_xml hands (node.nsmap, parent.nsmap), in that order, and emits what comes back
    tx = prog.func(EXPORTERS[0])
    w = ctx.world
    calls = [n for n in ast.walk(tx.node) if isinstance(n, ast.Call) and any(tg.func is not None and tg.func.qname == NSP for tg in w.resolve_call(w.types(tx), n))]
    rep.count("calls of the re-declaration helper", len(calls))
    nodep = tx.params[0]
    parentp = tx.params[1] if len(tx.params) > 1 else None
    for c in calls:
        a = [norm(x).replace("_nsmap", "nsmap") for x in c.args]
        ok = a == [f"{nodep}.nsmap", f"{parentp}.nsmap"]
        rep.oblige(("R3", "args", norm(c)), ok)
        if not ok:
            rep.add("R3", tx.qname, c, "the re-declaration helper is not given (node's map, parent's map) in that order", tx.loc(c))
    if not calls:
        rep.add("R3", tx.qname, "_nsp_unique(node.nsmap, parent.nsmap)", "a non-root node's namespace bindings are not reduced to those that differ from its parent's", tx.loc())
    # the recursion passes the node as the children's parent
    rec = [n for n in ast.walk(tx.node) if isinstance(n, ast.Call) and any(tg.func is not None and tg.func.qname == tx.qname for tg in w.resolve_call(w.types(tx), n))]
    for r in rec:
        am = w.arg_map(w.resolve_call(w.types(tx), r)[0], r)
        ok = parentp is not None and isinstance(am.get(parentp), ast.Name) and am[parentp].id == nodep
        rep.oblige(("R3", "rec", norm(r)), ok)
        if not ok:
            rep.add("R3", tx.qname, r, "children are exported without their parent: every binding is re-declared or none is", tx.loc(r))
    rep.floor("re-declaration cases folded", 5)
    rep.floor("calls of the re-declaration helper", 1)


REQUIRED = {"metapype.model.metapype_io.to_xml": {"_name", "_attributes", "_extras", "_nsmap", "_content", "_tail", "_children"},
            "metapype.eml.export.to_xml": {"_name", "_attributes", "_content", "_children"}}


def rule_r4(ctx, rep):
    """output coverage: on every return path of an exporter the returned text derives from every field the exporter serialises,
    unless the path is taken only under a test of that very field (e.g. no content and no children -> empty-element tag)"""
    from ..condeval import enclosing_ifs
    prog = ctx.prog
    nm = ctx.world.nm
    for q in EXPORTERS:
        fi = prog.func(q)
        nodep = fi.params[0]

        def fields_of(e):
            out = set()
            for n in ast.walk(e):
                if isinstance(n, ast.Attribute) and isinstance(n.value, ast.Name) and n.value.id == nodep:
                    f = nm.canon(n.attr)
                    if f:
                        out.add(f)
            return out
        # flow-insensitive dependences of every local on the node's fields
        deps = {}

        def dep_of(e):
            out = fields_of(e)
            for n in ast.walk(e):
                if isinstance(n, ast.Name) and n.id in deps:
                    out |= deps[n.id]
            return out

        def bind(t, d):
            ch = False
            for n in ast.walk(t):
                if isinstance(n, ast.Name) and isinstance(n.ctx, ast.Store):
                    if not d <= deps.get(n.id, set()):
                        deps.setdefault(n.id, set()).update(d)
                        ch = True
            return ch
        for _ in range(8):
            changed = False
            for n in ast.walk(fi.node):
                if isinstance(n, ast.Assign):
                    d = dep_of(n.value)
                    for t in n.targets:
                        changed |= bind(t, d)
                elif isinstance(n, ast.AugAssign):
                    changed |= bind(n.target, dep_of(n.value))
                elif isinstance(n, (ast.For, ast.comprehension)):
                    changed |= bind(n.target, dep_of(n.iter))
                elif isinstance(n, ast.Call) and isinstance(n.func, ast.Attribute) and isinstance(n.func.value, ast.Name) \
                        and n.func.attr in ("append", "extend", "insert", "write", "add", "update"):
                    d = set()
                    for a in n.args:
                        d |= dep_of(a)
                    if d and not d <= deps.get(n.func.value.id, set()):
                        deps.setdefault(n.func.value.id, set()).update(d)
                        changed = True
            if not changed:
                break
        rets = [n for n in ast.walk(fi.node) if isinstance(n, ast.Return) and n.value is not None]
        if not rets:
            raise AnalysisError(f"anchor vanished: {q} returns nothing")
        union = set()
        per = []
        for r in rets:
            d = dep_of(r.value)
            per.append((r, d))
            union |= d
        missing_all = REQUIRED[q] - union
        rep.count("exporter return paths", len(rets))
        for f in sorted(missing_all):
            rep.oblige(("R4", q, "emits", f), False)
            rep.add("R4", fi.qname, f"node.{f[1:]}", f"the exporter's output never depends on the node's {f[1:]}: it cannot parse back to the same tree", fi.loc())
        # prefixed (qualified) attribute names are only legal with their namespace declared: an exporter that writes the extras
        # must write the namespace bindings as well
        if "_extras" in union and "_nsmap" not in union:
            rep.oblige(("R4", q, "extras need nsmap"), False)
            rep.add("R4", fi.qname, "node.extras", "the exporter writes the qualified attributes (extras) but never the node's namespace bindings: a prefix "
                    "other than the ones it declares itself is unbound in the output, which then does not parse", fi.loc())
        for (r, d) in per:
            for f in sorted((REQUIRED[q] & union) - d):
                guards = enclosing_ifs(fi, r)
                excused = any(f in fields_of(g.test) for (g, _b) in guards)
                rep.oblige(("R4", q, f, getattr(r, "lineno", 0)), excused)
                if not excused:
                    rep.add("R4", fi.qname, r, f"this return path leaves out the node's {f[1:]} although the path is not taken under a test of "
                            f"{f[1:]}: a node with {f[1:]} set loses it in the exported document", fi.loc(r))
    rep.floor("exporter return paths", 2)


def run(ctx, rep):
    rep.explanation = (
        "flow-sensitive taint analysis of both XML exporters: every piece of node data (content, tail, attribute / qualified-"
        "attribute values, namespace URIs) interpolated into the returned string is checked against the context computed from the "
        "constant text in front of it (text vs attribute value) and must carry the sanitiser of that context; tag names of open / "
        "empty / close tags are one unchanged variable; the re-declaration helper is constant-folded on representative map pairs")
    rep.rules_run = ["R1", "R2", "R3", "R4", "R5", "R6", "R7"]
    rep.assumptions += ["NOT decided: parse-back equality for arbitrary strings (needs a parser run); R7 decides the tag structure per combination class",
                        "element names and prefixes are XML-legal (the property's quantifier)",
                        "for the EML exporter, content holding pre-escaped entity spellings or inline para tags is outside the quantifier "
                        "(the branch taken only for such content is pruned; constant-literal replace keeps the sanitised status)"]
    only = getattr(rep, "only", None)
    if only in (None, "R1", "R2"):
        rule_r1_r2(ctx, rep)
    if only in (None, "R3"):
        rule_r3(ctx, rep)
    if only in (None, "R4"):
        rule_r4(ctx, rep)
    if only in (None, "R6"):
        # entity tables handed to escape() / quoteattr(): only the predefined XML entities and character references are
        # defined without a DTD -- anything else (&nbsp; ...) makes the output ill-formed
        import re as _re
        from ..astutil import fold_local as _fl
        from ..valslice import reachable as _reach
        ok_ent = _re.compile(r"^&(amp|lt|gt|quot|apos|#[0-9]+|#x[0-9A-Fa-f]+);$")
        for f_ in _reach(ctx, [ctx.prog.func(q) for q in EXPORTERS]):
            for n_ in ast.walk(f_.node):
                if isinstance(n_, ast.Call) and len(n_.args) >= 2:
                    r_ = ctx.prog.resolve_name_expr(f_.module, n_.func) if isinstance(n_.func, (ast.Name, ast.Attribute)) else None
                    if r_ and r_[0] == "external" and r_[1] in ("xml.sax.saxutils.escape", "xml.sax.saxutils.quoteattr"):
                        rep.count("entity tables handed to escape / quoteattr")
                        tbl = _fl(ctx.prog, f_, n_.args[1])
                        if not isinstance(tbl, dict):
                            rep.oblige(("R6", f_.qname, norm(n_)[:50]), False)
                            rep.add("R6", f_.qname, n_, "the entity table handed to the escaper does not fold to a constant dict: what it writes cannot be checked", f_.loc(n_))
                            continue
                        bad_ = {k: v for k, v in tbl.items() if not (isinstance(v, str) and ok_ent.match(v))}
                        rep.oblige(("R6", f_.qname, norm(n_)[:50]), not bad_)
                        if bad_:
                            rep.add("R6", f_.qname, n_, f"the entity table writes {bad_}: only &amp; &lt; &gt; &quot; &apos; and character references are defined in a "
                                    f"document without a DTD, so the output is not well-formed when such a character occurs", f_.loc(n_))
    if only in (None, "R7"):
        from .c07_worlds import rule_r7
        rule_r7(ctx, rep, EXPORTERS)
    if only in (None, "R5"):
        from ..memo import check_slice
        from ..valslice import reachable
        sl = [f for f in reachable(ctx, [ctx.prog.func(q) for q in EXPORTERS]) if not f.module.name.endswith(".node")]
        check_slice(ctx, rep, "R5", sl, "XML export")
