"""C03 -- attribute validation enforces exactly required / allowed / enumerated (partial).

R1 slot agreement between validator and introspection helpers (and the helpers
folded over every attribute spec of rules.json), R2 one report per constraint
(loop shape) with each report's guard evaluated over the abstraction
{absent, listed value, unlisted value} x {foreign attribute}, R3 totality in
both modes."""
from __future__ import annotations

import ast
import itertools

from .. import prereq
from ..anchors import rule_method
from ..condeval import enclosing_ifs
from ..model import UNKNOWN, AnalysisError, EnumMember, norm
from ..peval import Opaque, PEval, PEvalUnsupported, Raised
from ..types import RULE_Q, T_SPEC
from ..valslice import RULE_ERR, mode_params, reachable, report_sites

FUNCS = ["_validate_attributes", "is_required_attribute", "allowed_attribute_values"]


def _attr_spec_exprs(fi, s):
    """expressions denoting one attribute spec: self._attributes[x] and local aliases of it"""
    aliases = set()
    for n in ast.walk(fi.node):
        if isinstance(n, ast.Assign) and len(n.targets) == 1 and isinstance(n.targets[0], ast.Name) and _is_spec(n.value, s, aliases):
            aliases.add(n.targets[0].id)
    return aliases


def _is_spec(e, s, aliases):
    if isinstance(e, ast.Subscript) and isinstance(e.value, ast.Attribute) and isinstance(e.value.value, ast.Name) \
            and e.value.value.id == s and e.value.attr in ("_attributes", "attributes") and not isinstance(e.slice, ast.Slice):
        return True
    if isinstance(e, ast.Name) and e.id in aliases:
        return True
    return False


def descriptor(ctx, fi):
    prog = ctx.prog
    s = fi.params[0]
    aliases = _attr_spec_exprs(fi, s)
    flags, starts, guards = set(), set(), set()
    sites = 0
    for n in ast.walk(fi.node):
        if isinstance(n, ast.Subscript) and _is_spec(n.value, s, aliases):
            sites += 1
            if isinstance(n.slice, ast.Slice):
                lo = prog.const(fi.module, n.slice.lower) if n.slice.lower is not None else 0
                up = n.slice.upper
                starts.add((lo, None if up is None else norm(up)))
            else:
                flags.add(prog.const(fi.module, n.slice))
        if isinstance(n, ast.Compare) and len(n.ops) == 1:
            l, r = n.left, n.comparators[0]
            for a, b, flip in ((l, r, False), (r, l, True)):
                if isinstance(a, ast.Call) and isinstance(a.func, ast.Name) and a.func.id == "len" and a.args and _is_spec(a.args[0], s, aliases):
                    c = prog.const(fi.module, b)
                    op = type(n.ops[0])
                    if flip:
                        op = {ast.Lt: ast.Gt, ast.Gt: ast.Lt, ast.LtE: ast.GtE, ast.GtE: ast.LtE}.get(op, op)
                    if isinstance(c, int):
                        if op is ast.Gt:
                            guards.add(c + 1)
                        elif op is ast.GtE:
                            guards.add(c)
                        elif op is ast.NotEq and c == 1:
                            guards.add(2)
                        else:
                            guards.add(("other", norm(n)))
    return flags, starts, guards, sites


def rule_r1(ctx, rep):
    prog = ctx.prog
    descs = {}
    for name in FUNCS:
        fi = rule_method(prog, name)
        rep.touch(fi)
        flags, starts, guards, sites = descriptor(ctx, fi)
        descs[name] = (flags, starts, guards)
        rep.count("attribute-spec subscripts", sites)
        ok = flags <= {0} and starts <= {(1, None)}
        rep.oblige(("R1", name), ok, sample={"function": name, "flag index": sorted(map(str, flags)), "value slices": sorted(map(str, starts)),
                                             "length guards (len >=)": sorted(map(str, guards))})
        if flags - {0}:
            rep.add("R1", fi.qname, f"flag index {sorted(map(str, flags - {0}))}", "the required flag of an attribute spec is read at a "
                    "position other than 0 (the table leads every spec with the flag, C10-R2)", fi.loc())
        if starts - {(1, None)}:
            rep.add("R1", fi.qname, f"value slice {sorted(map(str, starts - {(1, None)}))}", "the allowed values of an attribute spec are "
                    "taken from a slice other than [1:]", fi.loc())
        # the length guard is reported as evidence only: whether an attribute counts as enumerated is decided semantically
        # (R2 evaluates the validator's guard chain, the table fold below evaluates the helpers)
    rep.floor("attribute-spec subscripts", 1)
    # introspection helpers folded over every attribute spec of the table
    pe = PEval(ctx.world)
    f_req = rule_method(prog, "is_required_attribute")
    f_val = rule_method(prog, "allowed_attribute_values")
    stop = False
    # besides the table's own specs an abstract rule with one spec of every kind the format allows (required / optional, with no,
    # one, several listed values): the helpers must be right for every rule, not only for the kinds the table happens to use today
    abs_rule = [{"r": [True], "o": [False], "e1": [False, "a"], "e": [False, "a", "b"], "re1": [True, "a"], "re": [True, "a", "b", "c"]}, [],
                {"content_rules": ["anyContent"]}]
    items = sorted(ctx.tables.rules.items())
    try:
        init0 = rule_method(prog, "__init__")
        r0 = prog.resolve_name_expr(init0.module, ast.Name(id="rules_dict", ctx=ast.Load()))
        if r0 and r0[0] == "const":
            tbl = pe._module_state(r0[1], r0[2], init0, 0)
            if isinstance(tbl, dict):
                tbl["<abstract>"] = abs_rule
                items = [("<abstract>", abs_rule)] + items
    except (PEvalUnsupported, Raised, AnalysisError):
        pass
    for rname, r in items:
        if stop:
            break
        if not (isinstance(r, list) and len(r) == 3 and isinstance(r[0], dict)):
            continue
        # the Rule object as its own constructor builds it (folded; falls back to the documented field when the constructor
        # does something the folder cannot follow)
        selfobj = {"__obj__": True}
        try:
            init = rule_method(prog, "__init__")
            pe.call(init, [selfobj, rname])
        except (PEvalUnsupported, Raised, AnalysisError):
            selfobj = {"__obj__": True, "_attributes": dict(r[0]), "attributes": dict(r[0])}
            if rname == "<abstract>":
                continue

        def long_lived_lists():
            seen, out, todo = set(), [], [selfobj] + [v for k, v in pe.class_state.items()]
            while todo:
                x = todo.pop()
                if id(x) in seen:
                    continue
                seen.add(id(x))
                if isinstance(x, list):
                    out.append(x)
                    todo.extend(x)
                elif isinstance(x, tuple):
                    todo.extend(x)
                elif isinstance(x, dict):
                    todo.extend(x.values())
            return out
        for an, spec in r[0].items():
            if not (isinstance(spec, list) and spec):
                continue
            rep.count("attribute specs folded through the introspection helpers")
            try:
                got_r = pe.call(f_req, [selfobj, an])
                got_v = pe.call(f_val, [selfobj, an])
            except Raised as ex:
                got_r, got_v = f"raises {ex.cls}", None
            except PEvalUnsupported as ex:
                raise AnalysisError(f"cannot fold the introspection helpers over the table: {ex}")
            if isinstance(got_v, list) and any(got_v is x for x in long_lived_lists()):
                rep.oblige(("R1a", rname, an), False)
                rep.add("R1", f_val.qname, f"{rname}.{an}", "allowed_attribute_values hands out the very list kept in the rule object / a module-level table, "
                        "not a copy: a caller that edits it (e.g. a form adding a blank choice) changes what every later validation accepts", f_val.loc())
                stop = True
                break
            ok = got_r == spec[0] and got_v == list(spec[1:])
            rep.oblige(("R1t", rname, an), ok)
            if not ok:
                rep.add("R1", f_req.qname if got_r != spec[0] else f_val.qname, f"{rname}.{an} = {spec!r}"[:120],
                        f"introspection reports required={got_r!r}, values={got_v!r}; the table says required={spec[0]!r}, "
                        f"values={list(spec[1:])!r}", f_req.loc())
                stop = True
                break
    rep.floor("attribute specs folded through the introspection helpers", 80)


def _loop_of(fi, node):
    best = None
    for n in ast.walk(fi.node):
        if isinstance(n, ast.For) and any(x is node for x in ast.walk(n)):
            best = n  # innermost wins because ast.walk is breadth-first: later = deeper
    return best


def rule_r2(ctx, rep):
    prog = ctx.prog
    fi = rule_method(prog, "_validate_attributes")
    s = fi.params[0]
    mp = mode_params(ctx, reachable(ctx, [fi])).get(fi.qname)
    if mp is None:
        raise AnalysisError("anchor vanished: mode parameter of Rule._validate_attributes")
    pairs, _ = report_sites(ctx, fi, mp)
    by_code = {}
    for p in pairs:
        if isinstance(p.code, EnumMember):
            by_code.setdefault(p.code.member, []).append(p)
    nodep = [p for p in fi.params if p not in (s, mp)]
    if len(nodep) != 1:
        raise AnalysisError("Rule._validate_attributes: cannot single out the node parameter")
    nodep = nodep[0]
    want_codes = {"ATTRIBUTE_REQUIRED": "rule", "ATTRIBUTE_UNRECOGNIZED": "node", "ATTRIBUTE_EXPECTED_ENUM": "node"}
    rule_attrs = {"r": [True], "o": [False], "e": [False, "a", "b"], "re": [True, "a"]}
    worlds = []
    ABSENT = "<absent>"
    # an attribute can be absent, present with a listed / an unlisted value, or present with the value None (a JSON null, or set
    # programmatically): presence is what counts for "required", the value for the enumeration
    # ... or with a value that is not a string at all (a JSON true / false): it equals the spec's leading flag, so a membership test
    # against the whole spec instead of the value slice lets it through (seed C03-s1)
    for combo in itertools.product([ABSENT, "a", "z", None, False, True], repeat=4):
        if sum(1 for v in combo if v is None or v is False or v is True) > 1:
            continue
        for foreign in (False, True):
            na = {k: v for k, v in zip(rule_attrs, combo) if v is not ABSENT}
            if foreign:
                na["f"] = "a"
            worlds.append(na)
    for code, coll in want_codes.items():
        rep.count("attribute constraints")
        ps = by_code.get(code, [])
        if len(ps) != 1:
            rep.oblige(("R2", code, "site"), False)
            rep.add("R2", fi.qname, f"{code} report", f"{len(ps)} report sites for {code} (exactly one per constraint is required: "
                    f"collecting mode reports one error per violated constraint)", fi.loc())
            continue
        p = ps[0]
        loop = _loop_of(fi, p.if_node)
        if loop is None or not isinstance(loop.target, (ast.Name, ast.Tuple)):
            rep.oblige(("R2", code, "loop"), False)
            rep.add("R2", fi.qname, p.append_call, f"the {code} report is not inside a loop over the attributes", fi.loc(p.if_node))
            continue
        it = norm(loop.iter)
        # which collection the loop actually ranges over; whether that is enough is decided by the verdicts below
        names_it = {x.id for x in ast.walk(loop.iter) if isinstance(x, ast.Name)}
        actual = "rule" if s in names_it and nodep not in names_it else "node" if nodep in names_it and s not in names_it else None
        rep.oblige(("R2", code, "collection"), actual is not None)
        if actual is None:
            rep.add("R2", fi.qname, loop.iter, f"the {code} report ranges over `{it}`, which is neither the rule's attribute table nor the node's attributes",
                    fi.loc(loop))
            continue
        coll = actual
        early = [x for x in ast.walk(loop) if isinstance(x, (ast.Break, ast.Continue, ast.Return))]
        # a `continue` that only skips the remainder for a different attribute is fine when the report precedes it; keep it simple:
        bad = [x for x in early if isinstance(x, (ast.Break, ast.Return))]
        rep.oblige(("R2", code, "no-early-exit"), not bad)
        if bad:
            rep.add("R2", fi.qname, bad[0], f"the attribute loop is left early: later violations of {code} are not reported in collecting mode",
                    fi.loc(bad[0]))
        # evaluate the report's guard chain over the abstraction
        from ..condeval import guard_verdict
        pe = PEval(ctx.world)
        failed = False
        tgt = loop.target
        # the abstract Rule object, built by folding the constructor over a one-rule table holding the abstract attribute specs
        selfobj0 = None
        try:
            pe0 = PEval(ctx.world)
            init = rule_method(prog, "__init__")
            r0 = prog.resolve_name_expr(init.module, ast.Name(id="rules_dict", ctx=ast.Load()))
            if r0 and r0[0] == "const":
                pe0.class_state[("<module>", r0[1].name, r0[2])] = {"absRule": [{k: list(v) for k, v in rule_attrs.items()}, [], {"content_rules": ["anyContent"]}]}
                so = {"__obj__": True}
                pe0.call(init, [so, "absRule"])
                so.setdefault("attributes", so.get("_attributes"))
                selfobj0 = so
                pe.class_state.update(pe0.class_state)
        except (PEvalUnsupported, Raised, AnalysisError):
            selfobj0 = None
        for na in worlds:
            selfobj = dict(selfobj0) if selfobj0 is not None else {"__obj__": True, "_attributes": rule_attrs, "attributes": rule_attrs}
            nodeobj = {"__obj__": True, "attributes": na, "_attributes": na, "name": "n", "_name": "n"}
            coll_d = rule_attrs if coll == "rule" else na
            reported = set()
            universe = list(dict.fromkeys(list(rule_attrs) + list(na)))

            def wanted(a):
                if code == "ATTRIBUTE_REQUIRED":
                    return a in rule_attrs and rule_attrs[a][0] is True and a not in na
                if code == "ATTRIBUTE_UNRECOGNIZED":
                    return a in na and a not in rule_attrs
                return a in na and a in rule_attrs and len(rule_attrs[a]) > 1 and na[a] not in rule_attrs[a][1:]
            # what the loop really ranges over (a derived collection -- "the required attributes", items() pairs -- folds to its
            # elements; anything unreadable falls back to the keys of the rule's / the node's attribute table)
            try:
                elems = pe.eval(loop.iter, {s: selfobj, nodep: nodeobj, mp: None}, fi, 0)
                elems = list(elems) if isinstance(elems, (list, tuple, set, frozenset, dict)) and not (isinstance(elems, dict) and "__obj__" in elems) else None
            except (PEvalUnsupported, Raised):
                elems = None
            if elems is None:
                elems = [(a, coll_d[a]) for a in coll_d] if isinstance(tgt, ast.Tuple) else list(coll_d)
            for el in elems:
                a = el[0] if isinstance(tgt, ast.Tuple) and isinstance(el, tuple) and el else el
                env = {s: selfobj, nodep: nodeobj, mp: None}
                try:
                    pe.assign(tgt, el, env, fi, 0)
                except (PEvalUnsupported, Raised) as ex:
                    raise AnalysisError(f"{fi.loc(loop)}: cannot bind the loop target `{norm(tgt)}`: {ex}")
                try:
                    verdict = guard_verdict(ctx, fi, p.if_node, env, pe)
                    if isinstance(verdict, tuple):
                        verdict = f"raises {verdict[1]}"
                except PEvalUnsupported as ex:
                    raise AnalysisError(f"{fi.loc(p.if_node)}: cannot evaluate the guard of the {code} report: {ex}")
                want = wanted(a)
                if verdict is True:
                    reported.add(a)
                rep.count("attribute guard verdicts")
                ok = verdict == want
                rep.oblige(("R2e", code, a, tuple(sorted(na.items()))), ok)
                if not ok and not failed:
                    failed = True
                    rep.add("R2", fi.qname, p.append_call,
                            f"{code}: with rule attributes {rule_attrs} and node attributes {na}, attribute '{a}' is "
                            f"{'reported' if verdict is True else 'not reported' if verdict is False else verdict}; the constraint requires "
                            f"{'a report' if want else 'no report'}", fi.loc(p.if_node))
            if not failed:
                missing = [a for a in universe if wanted(a) and a not in reported]
                rep.oblige(("R2c", code, tuple(sorted(na.items()))), not missing)
                if missing:
                    failed = True
                    rep.add("R2", fi.qname, loop.iter,
                            f"{code}: with rule attributes {rule_attrs} and node attributes {na}, attribute '{missing[0]}' violates the constraint but "
                            f"the loop over `{it}` never looks at it", fi.loc(loop))
            if failed:
                break
    extra = set(by_code) - set(want_codes)
    if extra:
        rep.notes.append(f"_validate_attributes also reports {sorted(extra)}")
    rep.floor("attribute constraints", 3)
    rep.floor("attribute guard verdicts", 300)


def rule_r3(ctx, rep):
    eng = prereq.engine(ctx)
    h = ctx.hier
    fi = rule_method(ctx.prog, "_validate_attributes")
    mp = mode_params(ctx, reachable(ctx, [fi])).get(fi.qname)
    for mode, k in (("FF", "none"), ("COLLECT", "nn")):
        s = eng.entry(fi, frozenset({(k, mp)}) if mp else frozenset())
        rep.count("attribute entry x mode")
        if not s.escapes:
            rep.oblige(("R3", mode), True)
        for key, esc in s.escapes.items():
            ok = mode == "FF" and h.issub(esc.cls, RULE_ERR)
            rep.oblige(("R3", mode, esc.cls, esc.origin[:2]), ok)
            if not ok:
                rep.add("R3", esc.origin[0], esc.origin[1], f"{h.short(esc.cls)} escapes attribute validation ({mode} mode): {esc.origin[2]}", esc.loc)
    for (q, cf), s in eng.memo.items():
        if q == fi.qname:
            for r in s.ledger:
                if r["op"] != "raise" and len(rep.samples) < 20:
                    rep.sample({"partial operation": r["construct"][:70], "discharged by": r["discharge"]})
    rep.floor("attribute entry x mode", 2)


def run(ctx, rep):
    rep.explanation = (
        "slot layout (flag index, value slice, length guard) extracted from the validator and both introspection helpers and "
        "compared; the helpers constant-folded over every attribute spec of rules.json; each of the three reports located in "
        "its loop, checked for early exits, and its guard chain evaluated over the complete abstraction {absent, listed, "
        "unlisted} per declared attribute x {foreign attribute}; escape analysis of _validate_attributes in both modes")
    rep.rules_run = ["R1", "R2", "R3"]
    rep.assumptions += ["the guard evaluation covers one attribute at a time over a four-attribute abstract rule; interactions between "
                        "attributes do not exist in the code (each iteration reads only its own attribute: checked by the loop shape)"]
    only = getattr(rep, "only", None)
    for name, fn in (("R1", rule_r1), ("R2", rule_r2), ("R3", rule_r3)):
        if only in (None, name):
            fn(ctx, rep)
