"""C08-R9 -- the element-to-node conversion folded over abstract elements.

`_process_element` reads an lxml element through its tag, prefix, nsmap, text, tail, attributes and child iteration, and decides by a
handful of tests: clean or raw mode, is the text None / only blanks / something to trim / empty after trimming, is the element one
of the literal ones, is inner collapsing asked for, does an attribute name carry a namespace, is a child a comment.  It is folded
(sa/peval.py; nothing of the repository or of lxml is imported) over abstract elements -- dicts carrying exactly those members,
comments marked by the sentinel that stands for `etree.Comment` -- one per class of those facts, and the folded tree is compared
with what the statement of the property says: one node per element in document order, local name and prefix, unqualified
attributes as attributes, qualified ones under their prefixed name, the element's prefixed in-scope bindings, text and tail
exactly (raw) or per the whitespace policy (clean), comments dropped, parent links set."""
from __future__ import annotations

import re

from ..peval import Opaque, PEval, PEvalUnsupported, Raised
from ..types import NODE_Q
from .worlds import is_node

PROC = "metapype.model.metapype_io._process_element"
XSI = "http://www.w3.org/2001/XMLSchema-instance"
EML = "https://eml.ecoinformatics.org/eml-2.2.0"
XMLNS = "http://www.w3.org/XML/1998/namespace"
NS = {"eml": EML, "xsi": XSI}

COMMENT = object()  # stands for lxml.etree.Comment in the folder's table of external values


def el(tag, text=None, tail=None, attrib=None, children=(), nsmap=None, prefix=None, comment=False):
    """an abstract lxml element: what _process_element may look at, nothing else"""
    e = {"__obj__": True, "__abstract__": "lxml element", "tag": COMMENT if comment else tag, "text": text, "tail": tail, "attrib": dict(attrib or {}),
         "nsmap": dict(nsmap or {}), "prefix": prefix, "__iter__": list(children)}
    return e


BLANKS = ["   ", "\t ", "\xa0", " \xa0\t"]
TEXTS = [None, "", "x", "  x  ", "\n  x y\n", "a  b\n   c", "\n   \n"] + BLANKS


def policy(t, clean, collapse, literal):
    """the documented whitespace policy for one text / tail value"""
    if not clean or t is None:
        return t
    if literal:
        return t
    if re.fullmatch("[ \xa0\t]+", t):
        return t
    s = t.strip()
    if s == "":
        return None
    return " ".join(t.split()) if collapse else s


def expected(e, clean, collapse, literals, is_text_literal=None):
    """the model node (as a plain dict) the statement of the property gives for element e"""
    tag = e["tag"]
    local = tag[tag.find("}") + 1:]
    lit = local in literals
    attrs, extras = {}, {}
    for k, v in e["attrib"].items():
        if "{" not in k:
            attrs[k] = v
        else:
            uri, name = k[1:].split("}", 1)
            pfx = "xml" if uri == XMLNS else None
            for p, u in e["nsmap"].items():
                if u == uri:
                    pfx = p
            extras[f"{pfx}:{name}" if pfx else k] = v
    return {"name": local, "prefix": e["prefix"], "nsmap": dict(e["nsmap"]), "content": policy(e["text"], clean, collapse, lit),
            "tail": policy(e["tail"], clean, collapse, False), "attributes": attrs, "extras": extras,
            "children": [expected(c, clean, collapse, literals) for c in e["__iter__"] if c["tag"] is not COMMENT]}


def compare(want, got, path=""):
    if not is_node(got):
        return f"{path or '/'}: not a node"
    here = f"{path}/{want['name']}"
    for f in ("name", "prefix", "nsmap", "content", "tail", "attributes", "extras"):
        if got.get("_" + f) != want[f]:
            return f"{here}: {f} should be {want[f]!r}, is {got.get('_' + f)!r}"
    kids = got.get("_children")
    if not isinstance(kids, list) or len(kids) != len(want["children"]):
        return f"{here}: {len(want['children'])} element children, {len(kids) if isinstance(kids, list) else '?'} nodes ({', '.join(str(k.get('_name')) for k in kids) if isinstance(kids, list) else ''})"
    for w, g in zip(want["children"], kids):
        d = compare(w, g, here)
        if d:
            return d
        if g.get("_parent") is not got:
            return f"{here}/{w['name']}: parent link not set to the node that lists it"
    return None


def worlds():
    out = []
    # the whitespace policy, one text / tail class at a time, on a plain and on a literal element
    for t in TEXTS:
        out.append((f"text {t!r}", lambda t=t: el("title", text=t)))
        out.append((f"tail {t!r} on a child", lambda t=t: el("para", text="p", children=[el("emphasis", text="e", tail=t)])))
        out.append((f"text {t!r} in a literal element", lambda t=t: el("literalLayout", text=t)))
        out.append((f"tail {t!r} after a literal element", lambda t=t: el("para", text="p", children=[el("literalLayout", text=" kept ", tail=t)])))
    out += [
        ("a namespaced tag with prefix and bindings", lambda: el("{%s}eml" % EML, nsmap=NS, prefix="eml", children=[el("dataset", nsmap=NS, children=[el("title", text="t", nsmap=NS)])])),
        ("plain and qualified attributes", lambda: el("{%s}eml" % EML, nsmap=NS, prefix="eml", attrib={"packageId": "p.1", "{%s}schemaLocation" % XSI: "a b", "system": "s"})),
        ("a qualified attribute in the reserved xml namespace", lambda: el("para", text="x", attrib={"{%s}lang" % XMLNS: "en"})),
        ("a qualified attribute whose namespace the element does not bind", lambda: el("a", attrib={"{urn:none}k": "v"})),
        ("comments among the children", lambda: el("dataset", children=[el(None, text="c1", comment=True), el("title", text="t"), el(None, text="c2", tail=" after ", comment=True),
                                                                        el("abstract", text="a")])),
        ("three levels in document order", lambda: el("a", children=[el("b", children=[el("c", text="1"), el("d", text="2")]), el("e", text="3"), el("b", children=[el("c", text="4")])])),
        ("a child that binds a prefix of its own", lambda: el("a", nsmap=NS, children=[el("{urn:p}b", text="x", nsmap=dict(NS, p="urn:p"), prefix="p")])),
        ("a child that re-binds an inherited prefix", lambda: el("a", nsmap=NS, children=[el("{urn:other}b", text="x", nsmap=dict(NS, eml="urn:other"), prefix="eml",
                                                                                              children=[el("c", text="y", nsmap=dict(NS, eml="urn:other"))])])),
        ("mixed content with tails", lambda: el("para", text=" head ", children=[el("emphasis", text="bold", tail=" middle "), el("br", tail="\xa0"), el("sub", text=None, tail=None)])),
    ]
    return out


def rule_r9(ctx, rep):
    fi = ctx.prog.funcs.get(PROC)
    if fi is None:
        return
    params = fi.params
    if len(params) != 4:
        rep.notes.append(f"_process_element takes {params}: not folded")
        return
    modes = [(True, False, ()), (True, True, ()), (False, False, ()), (True, False, ("literalLayout",)), (True, True, ("literalLayout", "para")), (False, True, ("literalLayout",))]
    for what, build in worlds():
        for (clean, collapse, literals) in modes:
            e = build()
            pe = PEval(ctx.world)
            pe.externals = {"lxml.etree.Comment": COMMENT}
            pe.class_state[(NODE_Q, "store")] = {}
            label = f"{what}, clean={clean}, collapse={collapse}, literals={literals}"
            try:
                got = pe.call(fi, [e, clean, collapse, literals])
            except Raised as r:
                rep.count("import verdicts")
                rep.oblige(("R9", label), False)
                rep.add("R9", fi.qname, what, f"importing an element with {label} raises {(r.cls or '').rsplit('.', 1)[-1]}", fi.loc())
                return
            except PEvalUnsupported as ex:
                rep.notes.append(f"_process_element not folded for {label}: {ex}")
                continue
            if isinstance(got, Opaque):
                rep.notes.append(f"_process_element not folded for {label}: opaque result")
                continue
            rep.count("import verdicts")
            d = compare(expected(e, clean, collapse, literals), got)
            rep.oblige(("R9", label), d is None, sample={"element": what, "clean": clean, "collapse": collapse, "literals": list(literals)})
            if d is not None:
                rep.add("R9", fi.qname, what, f"importing an element with {label}: {d}", fi.loc())
                return


# ---------------------------------------------------------------------------------------------------------------------------
# R10 -- import -> export -> import, all three folded
# ---------------------------------------------------------------------------------------------------------------------------
def to_element(x, inherited=None):
    """the element structure read back from exported text (c07_worlds.read_back) as the abstract lxml element a namespace-aware parser would
    hand to _process_element: in-scope bindings, Clark names for prefixed tags and attributes, None for absent text"""
    from xml.sax.saxutils import unescape
    ns = dict(inherited or {})
    for k, v in x["attrs"].items():
        if k.startswith("xmlns:"):
            ns[k[6:]] = v
    name = x["name"]
    prefix, local = (name.split(":", 1) + [None])[:2] if ":" in name else (None, name)
    if prefix is not None and prefix not in ns:
        raise ValueError(f"prefix {prefix} of <{name}> is not bound")
    tag = ("{%s}%s" % (ns[prefix], local)) if prefix else local
    attrib = {}
    for k, v in x["attrs"].items():
        if k.startswith("xmlns:") or k == "xmlns":
            continue
        if ":" in k:
            p, l = k.split(":", 1)
            u = XMLNS if p == "xml" else ns.get(p)
            if u is None:
                raise ValueError(f"prefix {p} of attribute {k} is not bound")
            attrib["{%s}%s" % (u, l)] = v
        else:
            attrib[k] = v
    text = unescape(x["text"]) if x["text"] != "" else None
    tail = unescape(x["tail"]) if x["tail"] != "" else None
    return el(tag, text=text, tail=tail, attrib=attrib, children=[to_element(c, ns) for c in x["children"]], nsmap=ns, prefix=prefix)


def same_tree(a, b, path=""):
    here = f"{path}/{a.get('_name')}"
    for f in ("_name", "_prefix", "_nsmap", "_content", "_tail", "_attributes", "_extras"):
        if a.get(f) != b.get(f):
            return f"{here}: {f[1:]} {a.get(f)!r} came back as {b.get(f)!r}"
    if len(a["_children"]) != len(b["_children"]):
        return f"{here}: {len(a['_children'])} children came back as {len(b['_children'])}"
    for x, y in zip(a["_children"], b["_children"]):
        d = same_tree(x, y, here)
        if d:
            return d
    return None


def stable_worlds():
    return [
        ("a namespaced document", lambda: el("{%s}eml" % EML, nsmap=NS, prefix="eml", attrib={"packageId": "p.1", "{%s}schemaLocation" % XSI: "a b"},
                                           children=[el("dataset", nsmap=NS, attrib={"id": "d"}, children=[el("title", text=" A title ", nsmap=NS), el("abstract", text=None, nsmap=NS)])])),
        ("mixed content with text tails", lambda: el("para", text=" head ", children=[el("emphasis", text="bold", tail=" middle "), el("br", tail="end"), el("sub", text="x")])),
        ("text that needs escaping", lambda: el("title", text="a < b & c", attrib={"note": 'say "x" & <y>'})),
        ("a child that binds a prefix of its own", lambda: el("a", nsmap=NS, children=[el("{urn:p}b", text="x", nsmap=dict(NS, p="urn:p"), prefix="p", attrib={"{urn:p}k": "v"})])),
        ("a child that re-binds an inherited prefix", lambda: el("a", nsmap=NS, children=[el("{urn:other}b", text="x", nsmap=dict(NS, eml="urn:other"), prefix="eml")])),
        ("comments and three levels", lambda: el("a", children=[el(None, text="c", comment=True), el("b", children=[el("c", text="1"), el("d")]), el("e", text="3")])),
        ("the reserved xml prefix on an attribute", lambda: el("para", text="x", attrib={"{%s}lang" % XMLNS: "en"})),
    ]


def rule_r10(ctx, rep):
    from .c07_worlds import IllFormed, read_back
    fi = ctx.prog.funcs.get(PROC)
    fx = ctx.prog.funcs.get("metapype.model.metapype_io.to_xml")
    if fi is None or fx is None or len(fi.params) != 4:
        return
    for what, build in stable_worlds():
        pe = PEval(ctx.world)
        pe.externals = {"lxml.etree.Comment": COMMENT}
        pe.class_state[(NODE_Q, "store")] = {}
        try:
            t1 = pe.call(fi, [build(), True, False, ()])
            text = pe.call(fx, [t1])
            if isinstance(t1, Opaque) or not isinstance(text, str):
                raise PEvalUnsupported("opaque result")
            try:
                e1 = to_element(read_back(text))
            except (IllFormed, ValueError) as ex:
                rep.count("import / export / import verdicts")
                rep.oblige(("R10", what), False)
                rep.add("R10", fx.qname, what, f"the export of the imported tree ({what}) cannot be parsed back: {ex}; exported {text[:120]!r}", fx.loc())
                return
            t2 = pe.call(fi, [e1, True, False, ()])
        except Raised as r:
            rep.count("import / export / import verdicts")
            rep.oblige(("R10", what), False)
            rep.add("R10", fi.qname, what, f"import / export / import of {what} raises {(r.cls or '').rsplit('.', 1)[-1]}", fi.loc())
            return
        except PEvalUnsupported as ex:
            rep.notes.append(f"import / export / import not folded for {what}: {ex}")
            continue
        rep.count("import / export / import verdicts")
        d = same_tree(t1, t2) if is_node(t2) else "the second import did not give a node"
        rep.oblige(("R10", what), d is None, sample={"document": what, "exported": text[:120]})
        if d is not None:
            rep.add("R10", fi.qname, what, f"importing {what}, exporting the tree and importing that again gives a different tree -- {d}; exported {text[:160]!r}", fi.loc())
            return
