"""C19 -- evaluation is total and reports the documented recommendations (partial):
totality (R1), dispatch-table and warning-tuple shape (R2), every declared
warning emitted / none undeclared (R3), thresholds evaluated at their boundary
(R4).  Purity is C11's."""
from __future__ import annotations

import ast

from .. import prereq
from ..condeval import enclosing_ifs, eval_at, free_names
from ..model import UNKNOWN, AnalysisError, EnumMember, norm
from ..peval import PEvalUnsupported
from ..types import T_NODE, T_OPT, T_STR
from .c05 import children_owner

EVAL = "metapype.eml.evaluate"
EWARN = "metapype.eml.evaluation_warnings.EvaluationWarning"
THRESHOLDS = {"TITLE_TOO_SHORT": 5, "DATASET_ABSTRACT_TOO_SHORT": 20, "KEYWORDS_INSUFFICIENT": 5}


def rule_r1(ctx, rep):
    eng = prereq.engine(ctx)
    h = ctx.hier
    prog = ctx.prog
    seen = set()
    for q in (EVAL + ".tree", EVAL + ".node"):
        fi = prog.func(q)
        rep.touch(fi)
        s = eng.entry(fi, frozenset())
        rep.count("evaluation entry points")
        if not s.escapes:
            rep.oblige(("R1", q), True)
        for key, esc in sorted(s.escapes.items(), key=lambda kv: str(kv[0])):
            k = (esc.origin[0], esc.origin[1], esc.cls)
            rep.oblige(("R1",) + k, False)
            if k in seen:
                continue
            seen.add(k)
            chain = " <- ".join(x.rsplit(".", 1)[-1] for x in esc.chain)
            rep.add("R1", esc.origin[0], esc.origin[1], f"{h.short(esc.cls)} may escape evaluation, which must never raise: {esc.origin[2]}",
                    esc.loc, path=f"{q.rsplit('.', 1)[-1]}: {chain}")
    n = 0
    for (q, cf), s in eng.memo.items():
        if q.startswith(EVAL + "."):
            f = prog.funcs.get(q)
            if f is not None:
                rep.touch(f)
            for r in s.ledger:
                if r["op"] in ("attribute of nullable", "nullable operand", "len(nullable)", "ordered comparison with nullable") or "nullable" in r["op"]:
                    n += 1
                    if len(rep.samples) < 25:
                        rep.sample({"strict use of a nullable field": r["construct"][:70], "in": r["func"].rsplit(".", 1)[-1], "discharged by": r["discharge"]})
    rep.count("strict uses of nullable values in evaluate", n)
    rep.assumed_total |= eng.assumed_total
    rep.floor("strict uses of nullable values in evaluate", 8)


def rule_r2_r3(ctx, rep):
    prog = ctx.prog
    w = ctx.world
    mi = prog.module(EVAL)
    table = _as_dict_literal(prog, mi, mi.consts.get("rules"))
    if not isinstance(table, ast.Dict):
        raise AnalysisError("anchor vanished: evaluate.rules is not a dict literal (nor dict(<literal sequence of pairs>))")
    T = ctx.tables
    ci = prog.cls(EWARN)
    members = set(prog.enum_members(ci))
    from ..astutil import enum_aliases
    for (m2, m1) in enum_aliases(prog, ci):
        rep.oblige(("R3", "distinct", m2), False)
        rep.add("R3", EWARN, f"member {m2}", f"{m2} has the same value as {m1}: it is an alias of that member, so the recommendation is reported "
                f"under the other code", ci.module.relpath)
    emitted = set()
    evaluators = []
    for k, v in zip(table.keys, table.values):
        rep.count("evaluators in the dispatch table")
        kv = prog.const(mi, k) if k is not None else UNKNOWN
        ok = isinstance(kv, str) and kv in T.mapping
        rep.oblige(("R2", "key", norm(k) if k is not None else "?"), ok)
        if not ok:
            rep.add("R2", EVAL + ".rules", k if k is not None else "**", f"dispatch key `{norm(k) if k is not None else '**'}` does not fold to a known element name", f"{mi.relpath}:{getattr(k, 'lineno', 0)}")
        r = prog.resolve_name_expr(mi, v)
        if not (r and r[0] == "func"):
            rep.add("R2", EVAL + ".rules", v, "dispatch value is not a function of this module", f"{mi.relpath}:{v.lineno}")
            continue
        evaluators.append(r[1])
    todo = list(evaluators)
    seen = set()
    while todo:
        fi = todo.pop()
        if fi.qname in seen:
            continue
        seen.add(fi.qname)
        rep.touch(fi)
        ft = w.types(fi)
        if len(fi.params) != 1:
            rep.add("R2", fi.qname, "signature", "an evaluator takes exactly the node", fi.loc())
        # follow delegation
        for n in ast.walk(fi.node):
            if isinstance(n, ast.Return) and isinstance(n.value, ast.Call):
                for tg in w.resolve_call(ft, n.value):
                    if tg.func is not None and tg.func.qname.startswith(EVAL + "."):
                        todo.append(tg.func)
        # result variables
        rvars = set()
        for n in ast.walk(fi.node):
            if isinstance(n, ast.Return) and n.value is not None:
                if isinstance(n.value, ast.Name):
                    rvars.add(n.value.id)
                elif isinstance(n.value, ast.Constant) and n.value.value is None:
                    pass
                elif isinstance(n.value, ast.Call):
                    pass
                elif isinstance(n.value, ast.List):
                    for x in n.value.elts:
                        _check_tuple(ctx, rep, fi, ft, x, members, emitted)
                else:
                    rep.add("R2", fi.qname, n, "an evaluator returns something other than its warning list or None", fi.loc(n))
        for n in ast.walk(fi.node):
            if isinstance(n, ast.Assign) and any(isinstance(t, ast.Name) and t.id in rvars for t in n.targets):
                v = n.value
                ok = (isinstance(v, ast.List)) or (isinstance(v, ast.Constant) and v.value is None) or \
                     (isinstance(v, ast.Call) and isinstance(v.func, ast.Name) and v.func.id == "list" and not v.args)
                if isinstance(v, ast.List):
                    for x in v.elts:
                        _check_tuple(ctx, rep, fi, ft, x, members, emitted)
                if not ok:
                    rep.add("R2", fi.qname, n, "the warning list is bound to something that is not a list literal or None", fi.loc(n))
            if isinstance(n, ast.Call) and isinstance(n.func, ast.Attribute) and isinstance(n.func.value, ast.Name) and n.func.value.id in rvars:
                if n.func.attr == "append" and n.args:
                    _check_tuple(ctx, rep, fi, ft, n.args[0], members, emitted)
                elif n.func.attr in ("extend", "insert", "remove", "pop", "clear"):
                    rep.add("R2", fi.qname, n, f"the warning list is changed by `{n.func.attr}`; only appended (code, message, node) triples are expected", fi.loc(n))
    # ---- tree(): adds by extend/append of evaluator results, recurses over all children
    tfi = prog.func(EVAL + ".tree")
    rep.touch(tfi)
    ft = w.types(tfi)
    wparam = tfi.params[1] if len(tfi.params) > 1 else None
    rec = [n for n in ast.walk(tfi.node) if isinstance(n, ast.Call) and any(tg.func is not None and tg.func.qname == tfi.qname for tg in w.resolve_call(ft, n))]
    loops = [n for n in ast.walk(tfi.node) if isinstance(n, ast.For) and any(any(x is r for x in ast.walk(n)) for r in rec)]
    rep.count("evaluation walk loops", len(loops))
    ok = False
    for lp in loops:
        own = children_owner(lp.iter)
        bad = [x for x in ast.walk(lp) if isinstance(x, (ast.Break, ast.Continue, ast.Return, ast.If, ast.Try))]
        if own is not None and isinstance(own[0], ast.Name) and own[0].id == tfi.params[0] and not bad:
            ok = True
    if not rec:
        # explicit-stack form: W = [root]; while W: cur = W.pop(); ...; W.extend(reversed(cur.children))
        from .c05 import worklist_form
        from ..condeval import enclosing_ifs
        wl = worklist_form(tfi, tfi.params[0])
        if wl is not None and wl["cur"] and len(wl["pops"]) == 1 and len(wl["pushes"]) == 1:
            rep.count("evaluation walk loops")
            lp, cur, (pop, kind), p = wl["loop"], wl["cur"], wl["pops"][0], wl["pushes"][0]
            seq = p.value if isinstance(p, ast.AugAssign) else (p.args[0] if p.args and p.func.attr in ("extend", "extendleft") else None)
            rev = False
            if isinstance(seq, ast.Call) and isinstance(seq.func, ast.Name) and seq.func.id == "reversed" and len(seq.args) == 1:
                rev, seq = True, seq.args[0]
            elif isinstance(seq, ast.Subscript) and isinstance(seq.slice, ast.Slice) and isinstance(seq.slice.step, ast.UnaryOp) and norm(seq.slice.step) == "-1" \
                    and seq.slice.lower is None and seq.slice.upper is None:
                rev, seq = True, seq.value
            own = children_owner(seq) if seq is not None else None
            stmt_of_push = next((s_ for s_ in ast.walk(lp) if isinstance(s_, (ast.Expr, ast.AugAssign)) and (s_ is p or getattr(s_, "value", None) is p)), None)
            cond = [g for (g, _b) in enclosing_ifs(tfi, stmt_of_push) if any(x is g for x in ast.walk(lp))] if stmt_of_push is not None else [None]
            exits = [x for x in ast.walk(lp) if isinstance(x, (ast.Break, ast.Continue, ast.Return, ast.Try))]
            evaluated = any(isinstance(c, ast.Call) and any(tg.func is not None and tg.func.qname == EVAL + ".node" for tg in w.resolve_call(ft, c))
                            and c.args and isinstance(c.args[0], ast.Name) and c.args[0].id == cur for c in ast.walk(lp))
            ok = own is not None and isinstance(own[0], ast.Name) and own[0].id == cur and kind == "lifo" and rev and not cond and not exits and evaluated
    rep.oblige(("R2", "walk"), ok)
    if not ok:
        rep.add("R2", tfi.qname, "walk over the children", "evaluate.tree does not visit every child unconditionally and in order", tfi.loc())
    else:
        # ... and on every path: no early exit in front of the evaluation of the node or of the walk (whatever the node is called)
        from ..marks import MarkDomain as _MD, run_marks as _rm
        md_ = _MD()
        for lp in [n for n in ast.walk(tfi.node) if isinstance(n, (ast.For, ast.While))]:
            md_.mark(lp.iter if isinstance(lp, ast.For) else lp.test, "WALK")
        for c in ast.walk(tfi.node):
            if isinstance(c, ast.Call) and any(tg.func is not None and tg.func.qname == EVAL + ".node" for tg in w.resolve_call(ft, c)):
                md_.mark(c, "EVAL")
        _fl, exits_ = _rm(ctx, tfi, md_)
        okx = bool(exits_) and all("WALK" in must and "EVAL" in must for (must, _may) in exits_)
        if not rec:
            # explicit-stack form: the loop body was held to "no exit, no condition" above and the stack starts with the root, so the
            # only way around the evaluation is a return in front of / outside the loop
            okx = not [x for x in ast.walk(tfi.node) if isinstance(x, ast.Return) and x is not tfi.node.body[-1]]
        rep.oblige(("R2", "walk-all-paths"), okx)
        if not okx:
            rep.add("R2", tfi.qname, "early exit of evaluate.tree", "evaluate.tree can return without evaluating the node and walking its children (a test on the "
                    "node decides whether a subtree is evaluated at all): the recommendations for the elements below are lost", tfi.loc())
    for n in ast.walk(tfi.node):
        if isinstance(n, ast.Call) and isinstance(n.func, ast.Attribute) and isinstance(n.func.value, ast.Name) and n.func.value.id == wparam:
            rep.count("writes to the caller's warning list")
            okw = n.func.attr in ("extend", "append")
            rep.oblige(("R2", "warnings", norm(n)), okw)
            if not okw:
                rep.add("R2", tfi.qname, n, "evaluate.tree disturbs earlier entries of the caller's warning list", tfi.loc(n))
        if isinstance(n, (ast.Assign, ast.AugAssign, ast.Delete)):
            ts = n.targets if isinstance(n, (ast.Assign, ast.Delete)) else [n.target]
            for t in ts:
                if isinstance(t, ast.Subscript) and isinstance(t.value, ast.Name) and t.value.id == wparam:
                    rep.add("R2", tfi.qname, n, "evaluate.tree overwrites entries of the caller's warning list", tfi.loc(n))
    # ---- R3
    for m in sorted(members):
        rep.count("declared warnings")
        ok = m in emitted
        rep.oblige(("R3", m), ok)
        if not ok:
            rep.add("R3", EWARN, f"member {m}", "a declared recommendation is never reported by any evaluator", ci.module.relpath)
    rep.floor("evaluators in the dispatch table", 11)
    rep.floor("declared warnings", 28)
    rep.floor("evaluation walk loops", 1)
    return evaluators


from ..astutil import as_dict_literal as _as_dict_literal  # noqa: E402


def _check_tuple(ctx, rep, fi, ft, x, members, emitted):
    prog = ctx.prog
    rep.count("warning tuples")
    if isinstance(x, ast.Name):
        # a local bound once to the triple
        defs = [n.value for n in ast.walk(fi.node) if isinstance(n, ast.Assign) and len(n.targets) == 1 and isinstance(n.targets[0], ast.Name) and n.targets[0].id == x.id]
        if len(defs) == 1 and isinstance(defs[0], ast.Tuple):
            x = defs[0]
    ok = isinstance(x, ast.Tuple) and len(x.elts) == 3
    why = "a warning is not a (code, message, node) triple"
    if ok:
        code = prog.const(fi.module, x.elts[0])
        codes = []
        if isinstance(code, EnumMember) and code.cls == EWARN:
            codes = [code.member]
        elif isinstance(x.elts[0], ast.Name):
            # a variable assigned from members (the description rule)
            for n in ast.walk(fi.node):
                if isinstance(n, ast.Assign) and any(isinstance(t, ast.Name) and t.id == x.elts[0].id for t in n.targets):
                    c = prog.const(fi.module, n.value)
                    tbl = None
                    if isinstance(n.value, ast.Call) and isinstance(n.value.func, ast.Attribute) and n.value.func.attr == "get" and 1 <= len(n.value.args) <= 2 \
                            and (len(n.value.args) == 1 or (isinstance(n.value.args[1], ast.Constant) and n.value.args[1].value is None)):
                        tbl = prog.const(fi.module, n.value.func.value)  # TABLE.get(key): one of the table's values, or None
                    elif isinstance(n.value, ast.Subscript):
                        tbl = prog.const(fi.module, n.value.value)
                    if isinstance(c, EnumMember) and c.cls == EWARN:
                        codes.append(c.member)
                    elif isinstance(tbl, dict) and tbl and all(isinstance(v_, EnumMember) and v_.cls == EWARN for v_ in tbl.values()):
                        codes.extend(v_.member for v_ in tbl.values())
                    elif not (isinstance(n.value, ast.Constant) and n.value.value is None):
                        ok, why = False, f"the warning code variable is bound to `{norm(n.value)}`, not an EvaluationWarning member"
        else:
            ok, why = False, f"element 0 `{norm(x.elts[0])}` is not an EvaluationWarning member"
        for c in codes:
            if c not in members:
                ok, why = False, f"EvaluationWarning declares no member {c}"
            emitted.add(c)
        if ok and ft.type_of(x.elts[1]) != T_STR:
            ok, why = False, f"element 1 `{norm(x.elts[1])[:40]}` is not the message string"
        if ok and ft.type_of(x.elts[2]) not in (T_NODE, T_OPT):
            ok, why = False, f"element 2 `{norm(x.elts[2])}` is not the node"
    rep.oblige(("R2", "tuple", fi.qname, norm(x)[:80]), ok)
    if not ok:
        rep.add("R2", fi.qname, x, why, fi.loc(x))


def eval_funcs(ctx):
    """the functions of the evaluation module, including those that were moved to another file (filed under their baseline
    name by the normaliser) and helpers of that module"""
    return [f for q, f in sorted(ctx.prog.funcs.items()) if q.startswith(EVAL + ".")]


def rule_r4(ctx, rep):
    prog = ctx.prog
    mi = prog.module(EVAL)
    found = set()
    for fi in eval_funcs(ctx):
        for n in ast.walk(fi.node):
            if isinstance(n, ast.Tuple) and n.elts:
                code = prog.const(mi, n.elts[0])
                if isinstance(code, EnumMember) and code.member in THRESHOLDS:
                    t = THRESHOLDS[code.member]
                    found.add(code.member)
                    guards = enclosing_ifs(fi, n)
                    # the innermost guard that is a numeric comparison
                    g, g_side = None, True
                    for (gi, b) in reversed(guards):
                        if any(isinstance(c, ast.Compare) and isinstance(c.ops[0], (ast.Lt, ast.LtE, ast.Gt, ast.GtE)) and
                               any(isinstance(prog.const(mi, o), int) and not isinstance(prog.const(mi, o), bool) for o in [c.left] + c.comparators)
                               for c in ast.walk(gi.test)):
                            g, g_side = gi, b
                            break
                    rep.count("threshold guards")
                    if g is None:
                        rep.oblige(("R4", code.member), False)
                        rep.add("R4", fi.qname, n.elts[0], f"{code.member} is not guarded by a comparison of a count with a constant", fi.loc(n))
                        continue
                    # the count is whatever is compared with the constant: replace that operand by a variable and evaluate
                    import copy as _copy
                    test2 = _copy.deepcopy(g.test)
                    replaced = 0
                    for c in ast.walk(test2):
                        if isinstance(c, ast.Compare) and len(c.ops) == 1:
                            l_c = prog.const(mi, c.left)
                            r_c = prog.const(mi, c.comparators[0])
                            if isinstance(r_c, int) and not isinstance(r_c, bool) and not isinstance(l_c, int):
                                c.left = ast.Name(id="__count__", ctx=ast.Load())
                                replaced += 1
                            elif isinstance(l_c, int) and not isinstance(l_c, bool) and not isinstance(r_c, int):
                                c.comparators[0] = ast.Name(id="__count__", ctx=ast.Load())
                                replaced += 1
                    ast.fix_missing_locations(test2)
                    if replaced != 1 or [v for v in free_names(test2) if v != "__count__" and not isinstance(prog.const(mi, ast.Name(id=v, ctx=ast.Load())), (int, float, str))]:
                        rep.notes.append(f"{fi.qname}: threshold guard `{norm(g.test)}` not evaluated (cannot single out the count)")
                        continue
                    for k in (0, t - 1, t, t + 1):
                        env = {"__count__": k}
                        try:
                            res = eval_at(ctx, fi, test2, env)
                        except PEvalUnsupported as ex:
                            raise AnalysisError(f"{fi.loc(g)}: cannot evaluate threshold guard `{norm(g.test)}`: {ex}")
                        want = k < t
                        rep.count("threshold points")
                        if res[0] == "value" and not g_side:
                            res = ("value", not res[1])   # the report sits on the other side of the guard (guard clause / else branch)
                        ok = res == ("value", want)
                        rep.oblige(("R4", code.member, k), ok, sample={"warning": code.member, "count": k, "fires": res[1], "documented threshold": t}
                                   if k in (t - 1, t) else None)
                        if not ok:
                            rep.add("R4", fi.qname, g.test, f"{code.member} {'fires' if res[1] is True else 'does not fire'} for a count of {k}; "
                                    f"the documented recommendation is 'fewer than {t}'", fi.loc(g))
                            break
    for m in THRESHOLDS:
        if m not in found:
            rep.add("R4", EVAL, f"{m}", "the thresholded recommendation is never reported", mi.relpath)
    rep.floor("threshold guards", 3)
    rep.floor("threshold points", 12)


def rule_r5_r6(ctx, rep):
    """R5: the text of a TextType element is collected over *all* para / markdown descendants (not children only);
    R6: 'exists' flags that guard a recommendation are latched: inside the scan loop they are only ever set to True"""
    prog = ctx.prog
    w = ctx.world
    mi = prog.module(EVAL)
    gt = prog.func(EVAL + ".get_text_content")
    rep.touch(gt)
    ft = w.types(gt)
    want = {"para", "markdown"}
    got = set()
    for n in ast.walk(gt.node):
        if isinstance(n, ast.Call):
            for tg in w.resolve_call(ft, n):
                if tg.func is not None and tg.func.name == "find_all_descendants" and n.args and isinstance(n.func, ast.Attribute) \
                        and isinstance(n.func.value, ast.Name) and n.func.value.id == gt.params[0]:
                    v = prog.const(mi, n.args[0])
                    if isinstance(v, str):
                        got.add(v)
                    elif isinstance(n.args[0], ast.Name):
                        # the element name is the variable of a loop over a constant tuple of names
                        for lp_ in ast.walk(gt.node):
                            if isinstance(lp_, ast.For) and isinstance(lp_.target, ast.Name) and lp_.target.id == n.args[0].id and any(x is n for x in ast.walk(lp_)):
                                vs = prog.const(mi, lp_.iter)
                                if isinstance(vs, (tuple, list)) and all(isinstance(x, str) for x in vs):
                                    got |= set(vs)
    for name in sorted(want):
        rep.count("text collections over descendants")
        ok = name in got
        rep.oblige(("R5", name), ok)
        if not ok:
            rep.add("R5", gt.qname, f"collection of '{name}' text", f"the text of '{name}' elements is not collected from all descendants of the text element: "
                    f"text inside section / list items is not counted, so a long abstract or a filled description is reported as missing or too short", gt.loc())
    # R6 latched flags
    for fi in eval_funcs(ctx):
        flags = {}
        for st_ in fi.node.body:
            if isinstance(st_, ast.Assign) and len(st_.targets) == 1 and isinstance(st_.targets[0], ast.Name) and isinstance(st_.value, ast.Constant) and st_.value.value is False:
                flags[st_.targets[0].id] = st_
        if not flags:
            continue
        for lp in ast.walk(fi.node):
            if not isinstance(lp, ast.For):
                continue
            for n in ast.walk(lp):
                if isinstance(n, (ast.Assign, ast.AugAssign)):
                    for t in (n.targets if isinstance(n, ast.Assign) else [n.target]):
                        if isinstance(t, ast.Name) and t.id in flags:
                            rep.count("flag assignments inside scan loops")
                            ok = isinstance(n, ast.Assign) and isinstance(n.value, ast.Constant) and n.value.value is True
                            rep.oblige(("R6", fi.qname, t.id, norm(n)), ok)
                            if not ok:
                                rep.add("R6", fi.qname, n, f"the 'found' flag `{t.id}` can be reset inside the scan loop (it is assigned `{norm(n.value)}`, not the "
                                        f"constant True): whether the recommendation fires depends on the order of the children", fi.loc(n))
    rep.floor("text collections over descendants", 2)


# R4 (threshold guards at t-1, t, t+1), R5 (text collected over all descendants) and R6 (found-flags latched) read the shape of the evaluators; R10
# folds every evaluator over the classes of facts its recommendation is stated in, counts on and around each threshold included
FOLDS = {"R10": {"count": "recommendation verdicts", "min": 200, "about": ("_rule", "get_text_content", "evaluate")}}
SUBORDINATE = {"R4": "R10", "R5": "R10", "R6": "R10"}


def run(ctx, rep):
    rep.explanation = (
        "escape analysis of evaluate.tree / evaluate.node through the dispatch table (every strict use of a nullable Node field "
        "must hold a non-null fact); keys of the table fold to known element names; every value appended to a warning list is a "
        "(declared EvaluationWarning member, str, Node) triple; the walk visits all children unconditionally; every declared "
        "warning is emitted somewhere; the three threshold guards are evaluated at t-1, t, t+1")
    rep.rules_run = ["R1", "R2", "R3", "R4", "R5", "R6", "R7", "R8", "R9", "R10", "R11"]
    rep.assumptions += ["R10 decides the emitted set per class of facts the recommendations are stated in; classes on which the documentation is ambiguous "
                        "(present-but-empty TextType elements other than abstract / description, a second physical element, ...) are not listed",
                        "word counting relies on normalize()/str.split (library semantics, C20)"]
    only = getattr(rep, "only", None)
    if only in (None, "R1"):
        rule_r1(ctx, rep)
    if only in (None, "R2", "R3"):
        rule_r2_r3(ctx, rep)
    if only in (None, "R4"):
        rep.guarded("R4", rule_r4, ctx, rep)
    if only in (None, "R5", "R6"):
        rep.guarded("R5", rule_r5_r6, ctx, rep)
    if only in (None, "R10"):
        from .c19_worlds import rule_r10
        mi_ = ctx.prog.module(EVAL)
        tbl_ = _as_dict_literal(ctx.prog, mi_, mi_.consts.get("rules"))
        table_of = {}
        if isinstance(tbl_, ast.Dict):
            for k_, v_ in zip(tbl_.keys, tbl_.values):
                kv_ = ctx.prog.const(mi_, k_) if k_ is not None else UNKNOWN
                r_ = ctx.prog.resolve_name_expr(mi_, v_) if isinstance(v_, (ast.Name, ast.Attribute)) else None
                if isinstance(kv_, str) and r_ and r_[0] == "func":
                    table_of[kv_] = r_[1]
        rule_r10(ctx, rep, table_of)
        from .c19_worlds import rule_r11
        rule_r11(ctx, rep)
    if only in (None, "R9"):
        # `if some_node:` means "the element is there" only while Node has plain object truthiness
        from ..types import T_NODE as _TN, T_OPT as _TO
        nmci = ctx.world.nm.ci
        dund = [m for m in ("__bool__", "__len__") if m in nmci.methods]
        rep.count("truth tests of nodes in evaluators", 0)
        for f_ in eval_funcs(ctx):
            ft_ = ctx.world.types(f_)
            tests = []
            for n_ in ast.walk(f_.node):
                if isinstance(n_, (ast.If, ast.While, ast.IfExp)):
                    tests.append(n_.test)
                elif isinstance(n_, ast.BoolOp):
                    tests.extend(n_.values[:-1])
                elif isinstance(n_, ast.UnaryOp) and isinstance(n_.op, ast.Not):
                    tests.append(n_.operand)
                elif isinstance(n_, ast.comprehension):
                    tests.extend(n_.ifs)
            for t_ in tests:
                parts_ = t_.values if isinstance(t_, ast.BoolOp) else [t_]
                for x_ in parts_:
                    if isinstance(x_, ast.UnaryOp) and isinstance(x_.op, ast.Not):
                        x_ = x_.operand
                    if isinstance(x_, (ast.Name, ast.Attribute)) and ft_.type_of(x_) in (_TN, _TO):
                        rep.count("truth tests of nodes in evaluators")
                        rep.oblige(("R9", f_.qname, norm(x_), getattr(x_, "lineno", 0)), not dund)
                        if dund:
                            rep.add("R9", f_.qname, x_, f"`{norm(x_)}` is truth-tested to mean 'the element is present', but Node defines {', '.join(dund)}: a node "
                                    f"without children now counts as absent, so recommendations are reported for elements that are there", f_.loc(x_))
    if only in (None, "R8"):
        # the recommendations are about an element's own children: a deep (descendant) query in an evaluator finds the named
        # element anywhere below -- e.g. an abstract under project silences "dataset abstract missing".  Deep queries are
        # for collecting text (get_text_content, R5) only.
        from ..valslice import reachable as _reach
        mi_ = ctx.prog.module(EVAL)
        _iter = lambda _m: eval_funcs(ctx)
        for f_ in _iter(mi_):
            if f_.name == "get_text_content":
                continue
            for n_ in ast.walk(f_.node):
                if isinstance(n_, ast.Call) and isinstance(n_.func, ast.Attribute) and n_.func.attr in ("find_descendant", "find_all_descendants", "find_all_nodes_by_path",
                                                                                                       "find_single_node_by_path"):
                    rep.oblige(("R8", f_.qname, norm(n_)[:60]), False)
                    rep.add("R8", f_.qname, n_, f"{f_.name} looks for an element anywhere below the evaluated node: the recommendation is about the "
                            f"node's own children, so an element of that name deeper down (e.g. an abstract under project) satisfies it wrongly", f_.loc(n_))
        rep.count("evaluator functions scanned for deep queries", sum(1 for _ in _iter(mi_)))
    if only in (None, "R7"):
        # the warnings are a function of the tree alone: nothing on the evaluation slice keeps state between calls
        from ..memo import check_slice
        from ..valslice import reachable
        entries = [ctx.prog.func(q) for q in ("metapype.eml.evaluate.tree", "metapype.eml.evaluate.node") if q in ctx.prog.funcs]
        check_slice(ctx, rep, "R7", list(reachable(ctx, entries)), "evaluation")
