"""C16-R6 -- reference expansion folded over small documents.

`expand` looks at its tree through names (`references`), the `id` attribute, the text of a references node and positions in
child lists.  It is folded (sa/peval.py) on documents that hold each situation the property speaks of -- a reference as the only
child, in front of / behind siblings, two references to one element, a referenced element with several children, no reference at
all, an id used twice, a reference to no id, a dangling reference behind a resolvable one -- and the folded tree is compared with
the statement: copies of the referenced element's children, in order, in the place of the references node; independent of the
originals; the referenced element untouched; no references node left, the discarded one unregistered, the copies registered;
ValueError and an untouched tree otherwise."""
from __future__ import annotations

from ..peval import Opaque, PEval, PEvalUnsupported, Raised
from ..types import NODE_Q
from .worlds import FIELDS, diff, is_node, mkc, nodes, number

EXPAND = "metapype.eml.references.expand"


def party(id_=None):
    kids = [mkc("individualName", None, [mkc("givenName", "G"), mkc("surName", "S")]), mkc("organizationName", "O"), mkc("electronicMailAddress", "a@b.c")]
    return mkc("creator", None, kids, {"id": id_} if id_ else None)


def ref(to):
    return mkc("references", to)


def documents():
    """(description, builder -> (root, {role: node}), outcome)   outcome: 'ok' or 'ValueError'"""
    def d1():
        c = party("c1")
        contact = mkc("contact", None, [ref("c1")])
        return mkc("dataset", None, [mkc("title", "t"), c, contact]), {"source": [c], "dest": [(contact, [], [])]}

    def d2():
        c = party("c1")
        role, pre = mkc("role", "pi"), mkc("onlineUrl", "u")
        pers = mkc("personnel", None, [pre, ref("c1"), role])
        return mkc("dataset", None, [c, mkc("project", None, [mkc("title", "p"), pers])]), {"source": [c], "dest": [(pers, [pre], [role])]}

    def d3():
        c = party("c1")
        a, b = mkc("contact", None, [ref("c1")]), mkc("metadataProvider", None, [ref("c1")])
        return mkc("dataset", None, [c, a, b]), {"source": [c, c], "dest": [(a, [], []), (b, [], [])]}

    def d4():
        c, e = party("c1"), party("c2")
        a, b = mkc("contact", None, [ref("c2")]), mkc("publisher", None, [ref("c1")])
        return mkc("dataset", None, [c, e, a, b]), {"source": [e, c], "dest": [(a, [], []), (b, [], [])]}

    def d5():
        return mkc("dataset", None, [mkc("title", "t"), party("c1"), mkc("contact", None, [mkc("organizationName", "O")])]), {"source": [], "dest": []}

    def bad1():
        return mkc("dataset", None, [party("c1"), party("c1"), mkc("contact", None, [ref("c1")])]), {}

    def bad2():
        return mkc("dataset", None, [party("c1"), mkc("contact", None, [ref("nope")])]), {}

    def bad3():
        return mkc("dataset", None, [party("c1"), mkc("contact", None, [ref("c1")]), mkc("publisher", None, [ref("nope")])]), {}
    def d6():
        # two references under one parent; the first referenced element has three children, the second carries an id on a child
        c, e = party("c1"), mkc("creator", None, [mkc("organizationName", "O2"), mkc("address", None, [mkc("city", "X")], {"id": "adr"})], {"id": "c2"})
        head, tail = mkc("title", "p"), mkc("funding", "f")
        both = mkc("project", None, [head, ref("c1"), ref("c2"), tail])
        return mkc("dataset", None, [c, e, both]), {"source": [c, e], "dest": [(both, [head], None), (both, None, [tail])], "joint": (both, [head], [c, e], [tail])}

    def bad4():
        inner = mkc("address", None, [mkc("city", "X")], {"id": "c1"})
        c = party("c1")
        c["_children"].append(inner)
        inner["_parent"] = c
        return mkc("dataset", None, [c, mkc("contact", None, [ref("c1")])]), {}

    def bad5():
        return mkc("dataset", None, [party("c1"), mkc("creator", None, [mkc("organizationName", "A")], {"id": "z"}), mkc("creator", None, [mkc("organizationName", "B")], {"id": "z"}),
                                     mkc("contact", None, [ref("c1")])]), {}
    return [("two references under one parent, the second to an element whose child has an id", d6, "ok"),
            ("an id shared by an element and its own descendant", bad4, "ValueError"), ("an id used twice that no reference names", bad5, "ValueError"),
            ("a reference as the only child", d1, "ok"), ("a reference between siblings, below the top level", d2, "ok"),
            ("two references to one element", d3, "ok"), ("two references to two elements, in the other order", d4, "ok"),
            ("a document without references", d5, "ok"), ("an id used twice", bad1, "ValueError"), ("a reference that names no id", bad2, "ValueError"),
            ("a dangling reference behind a resolvable one", bad3, "ValueError")]


def freeze(root):
    """the whole state of a tree, objects included, for "left as it was" """
    return [(id(n), tuple((f, repr(n.get(f))) for f in FIELDS), tuple(id(c) for c in n["_children"]), id(n.get("_parent"))) for n in nodes(root)]


def rule_r6(ctx, rep):
    fi = ctx.prog.funcs.get(EXPAND)
    if fi is None:
        return
    for what, build, outcome in documents():
        root, roles = build()
        number(root)
        pe = PEval(ctx.world)
        store = {n["_id"]: n for n in nodes(root)}
        pe.class_state[(NODE_Q, "store")] = store
        before = freeze(root)
        src_before = [freeze(s) for s in roles.get("source", [])]
        refs_before = [n for n in nodes(root) if n["_name"] == "references"]
        exc = None
        try:
            pe.call(fi, [root])
        except Raised as r:
            exc = (r.cls or "").rsplit(".", 1)[-1]
        except PEvalUnsupported as ex:
            rep.notes.append(f"expand not folded for {what}: {ex}")
            continue
        rep.count("expansion verdicts")
        why = None
        if outcome != "ok":
            if exc != outcome:
                why = f"{'raises ' + exc if exc else 'succeeds'}; it must raise {outcome}"
            elif freeze(root) != before:
                why = f"raises {exc} but the tree is not left as it was"
        elif exc:
            why = f"raises {exc}"
        else:
            left = [n for n in nodes(root) if n["_name"] == "references"]
            if left:
                why = "leaves a references node behind"
            for (s, fz) in zip(roles["source"], src_before):
                if why is None and freeze(s) != fz:
                    why = f"changes the referenced element {s['_name']}"
            if roles.get("joint") and why is None:
                dest, pre, srcs, post = roles["joint"]
                want_names = [c["_name"] for c in pre] + [c["_name"] for s_ in srcs for c in s_["_children"]] + [c["_name"] for c in post]
                got_names = [c["_name"] for c in dest["_children"]]
                if got_names != want_names:
                    why = (f"leaves {dest['_name']} with the children ({', '.join(got_names)}); the copies belong where each references node was: "
                           f"({', '.join(want_names)})")
                else:
                    k = len(pre)
                    for s_ in srcs:
                        for orig in s_["_children"]:
                            d = diff(orig, dest["_children"][k])
                            if d and why is None:
                                why = f"puts a copy into {dest['_name']} that differs from the referenced child -- {d}"
                            k += 1
            for (dest, pre, post), s in zip(roles["dest"] if not roles.get("joint") else [], roles["source"]):
                if why is not None:
                    break
                kids = dest["_children"]
                mid = kids[len(pre):len(kids) - len(post)] if len(kids) >= len(pre) + len(post) else None
                if mid is None or [id(x) for x in kids[:len(pre)]] != [id(x) for x in pre] or [id(x) for x in kids[len(kids) - len(post):]] != [id(x) for x in post] \
                        or len(mid) != len(s["_children"]):
                    why = (f"leaves {dest['_name']} with the children ({', '.join(c['_name'] for c in kids)}); the copies of ({', '.join(c['_name'] for c in s['_children'])}) "
                           f"belong where the references node was" + (f", between ({', '.join(c['_name'] for c in pre)}) and ({', '.join(c['_name'] for c in post)})" if pre or post else ""))
                    break
                for orig, cp in zip(s["_children"], mid):
                    d = diff(orig, cp)
                    if d:
                        why = f"puts a copy into {dest['_name']} that differs from the referenced child -- {d}"
                        break
                    if cp.get("_parent") is not dest:
                        why = f"puts a copy into {dest['_name']} whose parent link does not name it"
                        break
                    mine = {id(x) for n in nodes(cp) for x in [n] + [v for v in n.values() if isinstance(v, (dict, list)) and not is_node(v)]}
                    theirs = {id(x) for n in nodes(orig) for x in [n] + [v for v in n.values() if isinstance(v, (dict, list)) and not is_node(v)]}
                    if mine & theirs:
                        why = f"puts the referenced child {orig['_name']} itself (or a copy sharing objects with it) into {dest['_name']}: the copies must be independent"
                        break
                    for n in nodes(cp):
                        if store.get(n.get("_id")) is not n:
                            why = f"leaves the copy of {n['_name']} unregistered"
                            break
            if why is None:
                for r_ in refs_before:
                    if r_["_id"] in store:
                        why = "leaves the discarded references node in the registry"
                if why is None:
                    live = {id(n) for n in nodes(root)}
                    gone = [v for v in store.values() if id(v) not in live]
                    missing = [n for n in nodes(root) if store.get(n.get("_id")) is not n]
                    if gone:
                        why = f"leaves {gone[0]['_name']}, which is no longer in the tree, in the registry"
                    elif missing:
                        why = f"unregisters {missing[0]['_name']}, which is still in the tree"
        rep.oblige(("R6", what), why is None, sample={"document": what, "outcome": exc or "expanded"})
        if why is not None:
            rep.add("R6", fi.qname, what, f"expand on {what} {why}", fi.loc())
            break
