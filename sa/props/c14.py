"""C14 -- the node registry tracks exactly the live nodes (partial):
registration / unregistration discipline; id uniqueness of uuid1 is not decided."""
from __future__ import annotations

import ast

from ..marks import MarkDomain, may_at, must_at, run_marks
from ..model import AnalysisError, iter_funcs_in_module, norm
from ..types import NODE_Q, T_NODE, T_OPT
from .c11 import get_effects

LEGACY = ("metapype.eml.harness", "metapype.eml.rules")


def _resolves_to(ctx, fi, call, qname):
    for tg in ctx.world.resolve_call(ctx.world.types(fi), call):
        if tg.func is not None and tg.func.qname == qname:
            return tg
    return None


def _path(e):
    if isinstance(e, ast.Name):
        return e.id
    if isinstance(e, ast.Attribute):
        b = _path(e.value)
        return None if b is None else f"{b}.{e.attr}"
    return None


def _id_owner(e):
    """X for an expression X.id / X._id"""
    if isinstance(e, ast.Attribute) and e.attr in ("id", "_id"):
        return _path(e.value)
    return None


def lib_funcs(ctx):
    for mi in ctx.prog.modules.values():
        if mi.name.startswith("tests.") or mi.name in LEGACY:
            continue
        for fi in iter_funcs_in_module(mi):
            yield fi


def rule_r1_r2(ctx, rep):
    prog = ctx.prog
    w = ctx.world
    nm = w.nm
    ci = prog.cls(NODE_Q)
    init = ci.methods.get("__init__")
    if init is None:
        raise AnalysisError("anchor vanished: Node.__init__")
    rep.touch(init)
    selfp = init.params[0]
    # ---- R1: __init__ registers self after _id is set, on every normal path
    dom = MarkDomain()
    regs = []
    for n in ast.walk(init.node):
        if isinstance(n, ast.Assign) and any(isinstance(t, ast.Attribute) and t.attr == "_id" and isinstance(t.value, ast.Name) and t.value.id == selfp for t in n.targets):
            dom.mark(n, "IDSET")
        if isinstance(n, ast.Call) and _resolves_to(ctx, init, n, NODE_Q + ".set_node_instance") and n.args and isinstance(n.args[0], ast.Name) and n.args[0].id == selfp:
            dom.mark(n, "REG")
            dom.probe(n)
            regs.append(n)
    flow, exits = run_marks(ctx, init, dom)
    rep.count("creation paths")
    ok = bool(exits) and all("REG" in must for (must, _m) in exits)
    rep.oblige(("R1", "init-registers"), ok)
    if not ok:
        rep.add("R1", init.qname, "set_node_instance(self)", "some normal path through Node.__init__ does not register the new node: it "
                "cannot be retrieved by its id", init.loc())
    for r in regs:
        must = must_at(dom, r) or frozenset()
        rep.oblige(("R1", "id-before-reg"), "IDSET" in must)
        if "IDSET" not in must:
            rep.add("R1", init.qname, r, "the node is registered before its id is set", init.loc(r))
    # set_node_instance stores its argument under its own id
    sni = ci.methods.get("set_node_instance")
    if sni is None:
        raise AnalysisError("anchor vanished: Node.set_node_instance")
    rep.touch(sni)
    good = False
    for n in ast.walk(sni.node):
        if isinstance(n, ast.Assign) and len(n.targets) == 1 and isinstance(n.targets[0], ast.Subscript):
            t = n.targets[0]
            if isinstance(t.value, ast.Attribute) and t.value.attr == nm.registry:
                own = _id_owner(t.slice)
                if own is not None and isinstance(n.value, ast.Name) and n.value.id == own and own in sni.params:
                    good = True
    rep.count("registration primitive")
    rep.oblige(("R1", "set_node_instance"), good)
    if not good:
        rep.add("R1", sni.qname, "store[node.id] = node", "set_node_instance does not store its argument under its own id", sni.loc())
    # ---- who may create: shallow/deep copies and __new__ of Nodes only inside Node.copy
    for fi in lib_funcs(ctx):
        ft = w.types(fi)
        for n in ast.walk(fi.node):
            if not isinstance(n, ast.Call):
                continue
            rep.count("calls scanned for unregistered creation")
            tgs = w.resolve_call(ft, n)
            for tg in tgs:
                if tg.kind == "ext" and tg.name in ("copy.copy", "copy.deepcopy") and n.args and ft.type_of(n.args[0]) in (T_NODE, T_OPT):
                    if fi.qname != NODE_Q + ".copy":
                        rep.add("R1", fi.qname, n, "a Node is cloned outside Node.copy: the clone shares the original's id and is not registered", fi.loc(n))
            if isinstance(n.func, ast.Attribute) and n.func.attr == "__new__":
                rep.add("R1", fi.qname, n, "a Node may be created through __new__, bypassing registration", fi.loc(n))
    # ---- R2: who may write _id and the registry
    eff = get_effects(ctx)
    for fi in lib_funcs(ctx):
        ft = w.types(fi)
        for n in ast.walk(fi.node):
            if isinstance(n, (ast.Assign, ast.AugAssign, ast.Delete)):
                ts = n.targets if isinstance(n, (ast.Assign, ast.Delete)) else [n.target]
                for t in ts:
                    if isinstance(t, ast.Attribute) and t.attr in ("_id", "id") and ft.type_of(t.value) in (T_NODE, T_OPT, None):
                        rep.count("id writes")
                        ok = fi.qname in (NODE_Q + ".__init__", NODE_Q + ".copy")
                        rep.oblige(("R2", fi.qname, norm(n)), ok)
                        if not ok:
                            rep.add("R2", fi.qname, n, "a node id is written outside Node.__init__ / Node.copy: the registry keeps the node "
                                    "under its old id", fi.loc(n))
        for e in eff.effects(fi):
            if e.kind == "S" and e.func == fi.qname:
                rep.count("registry writes")
                ok = fi.cls is not None and fi.cls.qname == NODE_Q and fi.kind == "class"
                rep.oblige(("R2", fi.qname, e.construct), ok)
                if not ok:
                    rep.add("R2", fi.qname, e.construct, "the node registry is written outside Node's registry class methods", e.loc)
    if ci.setters.get("id") is not None:
        rep.add("R2", NODE_Q, "id setter", "Node has an id setter: ids can change under the registry", ci.setters["id"].loc())
    rep.floor("id writes", 1)
    rep.floor("registry writes", 2)


def _children_alias(ctx, fi):
    """local names bound to some node's child list: name -> owner expression"""
    nm = ctx.world.nm
    out = {}
    for n in ast.walk(fi.node):
        if isinstance(n, ast.Assign) and len(n.targets) == 1 and isinstance(n.targets[0], ast.Name) and isinstance(n.value, ast.Attribute) \
                and nm.canon(n.value.attr) == "_children":
            out[n.targets[0].id] = n.value.value
    return out


def discard_sites(ctx, fi):
    """(node, discarded path, how) for calls that remove a child from its parent (remove_child itself or any function
    whose tree-effect summary says so) and for child-slot overwrites"""
    from ..treefx import TreeFx
    nm = ctx.world.nm
    w = ctx.world
    fx = ctx.get("treefx", lambda: TreeFx(w))
    ft = w.types(fi)
    alias = _children_alias(ctx, fi)
    out = []
    for n in ast.walk(fi.node):
        if isinstance(n, ast.Call):
            for tg in w.resolve_call(ft, n):
                if tg.func is None or tg.kind == "class" or tg.func.qname == fi.qname:
                    continue  # a recursive call obeys the pairing rules inductively
                am = w.arg_map(tg, n)
                for e in fx.tree_effects(tg.func):
                    a = None
                    if e[0] == "remove":
                        a = am.get(e[2])
                    elif e[0] == "detach":
                        a = am.get(e[1])
                    p = _path(a) if a is not None else None
                    if p and not any(x[0] is n and x[1] == p for x in out):
                        out.append((n, p, "remove"))
        if isinstance(n, ast.Assign):
            for t in n.targets:
                if isinstance(t, ast.Subscript) and ((isinstance(t.value, ast.Attribute) and nm.canon(t.value.attr) == "_children")
                                                     or (isinstance(t.value, ast.Name) and t.value.id in alias)):
                    sl = t.slice
                    if isinstance(sl, ast.Name):
                        # position = L.index(X) earlier
                        var = sl.id
                        for a in ast.walk(fi.node):
                            if isinstance(a, ast.Assign) and any(isinstance(x, ast.Name) and x.id == var for x in a.targets):
                                sl = a.value
                    if isinstance(sl, ast.Call) and isinstance(sl.func, ast.Attribute) and sl.func.attr in ("index", "child_index") and sl.args:
                        p = _path(sl.args[0])
                        if p:
                            out.append((n, p, "overwrite"))
    return out


def delete_sites(ctx, fi):
    """(node, unregistered path, subtree included) for calls that unregister a node (delete_node_instance itself or any
    function whose tree-effect summary says so)"""
    from ..treefx import TreeFx
    w = ctx.world
    fx = ctx.get("treefx", lambda: TreeFx(w))
    ft = w.types(fi)
    out = []
    for n in ast.walk(fi.node):
        if isinstance(n, ast.Call):
            tg0 = _resolves_to(ctx, fi, n, NODE_Q + ".delete_node_instance")
            if tg0:
                am = w.arg_map(tg0, n)
                a = am.get("id")
                own = _id_owner(a) if a is not None else None
                ch = am.get("children")
                out.append((n, own, not (isinstance(ch, ast.Constant) and ch.value is False)))
                continue
            for tg in w.resolve_call(ft, n):
                if tg.func is None or tg.kind == "class" or tg.func.qname == fi.qname:
                    continue
                am = w.arg_map(tg, n)
                for e in fx.tree_effects(tg.func):
                    if e[0] == "unreg":
                        p = _path(am.get(e[1])) if am.get(e[1]) is not None else None
                        if p and not any(x[0] is n and x[1] == p for x in out):
                            out.append((n, p, True))
                    elif e[0] == "unreg_id":
                        a = am.get(e[1])
                        own = _id_owner(a) if a is not None else None
                        if own and not any(x[0] is n and x[1] == own for x in out):
                            out.append((n, own, True))
    return out


def flag_guards(fi, node):
    """enclosing If tests of ``node`` that are a bare boolean parameter; returns (list of (test, outcome), other_tests)"""
    from ..condeval import enclosing_ifs
    flags, others = [], []
    for (g, in_body) in enclosing_ifs(fi, node):
        t = g.test
        neg = False
        if not any(x is node for x in ast.walk(g)):
            # an earlier guard clause: a precondition that makes the whole operation fail (raise) is not a condition of this site
            side = g.body if not in_body else g.orelse
            if side and isinstance(side[-1], ast.Raise):
                continue
        if isinstance(t, ast.UnaryOp) and isinstance(t.op, ast.Not):
            t, neg = t.operand, True
        if isinstance(t, ast.Name) and t.id in fi.params and isinstance(fi.default_of(t.id), ast.Constant) and isinstance(fi.default_of(t.id).value, bool):
            flags.append((t, in_body != neg))
        else:
            others.append(g)
    return flags, others


DISCARDERS = ["metapype.eml.validate.prune", "metapype.eml.references.expand", NODE_Q + ".replace_child"]


def rule_r3_r4(ctx, rep):
    prog = ctx.prog
    for fi in lib_funcs(ctx):
        if fi.cls is not None and fi.cls.qname == NODE_Q and fi.name in ("delete_node_instance", "remove_child"):
            continue
        discards = discard_sites(ctx, fi)
        deletes = delete_sites(ctx, fi)
        documented = fi.qname in DISCARDERS
        if not documented and not deletes:
            continue  # plain detaching (the caller keeps the node) is not a discard
        if not discards and not deletes:
            continue
        rep.touch(fi)
        # R3: every discard is followed (or preceded) by the unregistration of the same node
        for (dn, x, how) in discards:
            rep.count("discard sites")
            mine = [d for (d, own, keep) in deletes if own == x]
            if any(d is dn for d in mine):
                rep.oblige(("R3", fi.qname, norm(dn)), True)
                continue  # one helper call both detaches and unregisters the node
            if not mine:
                rep.oblige(("R3", fi.qname, norm(dn)), False)
                rep.add("R3", fi.qname, dn, f"`{x}` is discarded from the tree here but never unregistered: it stays retrievable by id", fi.loc(dn))
                continue
            dom = MarkDomain()
            for d in mine:
                dom.mark(d, "UNREG")
                dom.unmark(d, "PEND")
                flags, others = flag_guards(fi, d)
                for (t, outcome) in flags:
                    dom.infeasible[id(t)] = not outcome
            dom.mark(dn, "PEND")
            dom.probe(dn)
            flow, exits = run_marks(ctx, fi, dom)
            before = "UNREG" in (must_at(dom, dn) or frozenset())
            after = all("PEND" not in may for (_mu, may) in exits)
            ok = before or after
            rep.oblige(("R3", fi.qname, norm(dn)), ok, sample={"discard": norm(dn), "in": fi.name, "unregistered by": norm(mine[0])})
            if not ok:
                rep.add("R3", fi.qname, dn, f"`{x}` is discarded here but on some path it is not unregistered "
                        f"(delete_node_instance({x}.id) does not follow on all paths)", fi.loc(dn))
        for (d, own, keep) in deletes:
            rep.count("unregistration sites")
            if not keep:
                rep.oblige(("R3", fi.qname, norm(d), "children"), False)
                rep.add("R3", fi.qname, d, "a discarded subtree is unregistered with children=False: its descendants stay registered", fi.loc(d))
            flags, others = flag_guards(fi, d)
            if fi.qname == NODE_Q + ".replace_child":
                ok = len(flags) == 1 and not others
                rep.oblige(("R3", fi.qname, "flag"), ok)
                if not ok:
                    rep.add("R3", fi.qname, d, "the unregistration in replace_child must depend on the delete_old flag and on nothing else", fi.loc(d))
            # R4: the node being unregistered is detached first, or has no parent on that path
            if own is None:
                rep.oblige(("R4", fi.qname, norm(d)), False)
                rep.add("R4", fi.qname, d, "cannot tell which node is unregistered here (argument is not `<node>.id`)", fi.loc(d))
                continue
            if any(dn is d and x == own for (dn, x, how) in discards):
                rep.oblige(("R4", fi.qname, norm(d)), True)
                continue
            dom = MarkDomain()
            for (dn, x, how) in discards:
                if x == own:
                    dom.mark(dn, "DET")
            for n in ast.walk(fi.node):
                if isinstance(n, ast.Compare) and len(n.ops) == 1 and isinstance(n.comparators[0], ast.Constant) and n.comparators[0].value is None:
                    lp = _path(n.left)
                    if lp in (own + ".parent", own + "._parent"):
                        if isinstance(n.ops[0], ast.IsNot):
                            dom.mark_test(n, if_false=["DET"])
                        elif isinstance(n.ops[0], ast.Is):
                            dom.mark_test(n, if_true=["DET"])
                    elif isinstance(n.left, ast.Name) and ctx.world.types(fi).type_of(n.left) == T_NODE:
                        # `if parent is not None:` on something that is a node for certain (a parameter, a loop child): the other
                        # outcome does not happen, so nothing has to hold on it
                        if isinstance(n.ops[0], ast.IsNot):
                            dom.mark_test(n, if_false=["DET"])
                        elif isinstance(n.ops[0], ast.Is):
                            dom.mark_test(n, if_true=["DET"])
            dom.probe(d)
            run_marks(ctx, fi, dom)
            must = must_at(dom, d)
            if must is None:
                continue
            ok = "DET" in must
            rep.oblige(("R4", fi.qname, norm(d)), ok)
            if not ok:
                rep.add("R4", fi.qname, d, f"`{own}` is unregistered while it may still be in the tree: no detachment of `{own}` (or proof that it "
                        f"has no parent) precedes this call on every path", fi.loc(d))
    rep.floor("discard sites", 3)
    rep.floor("unregistration sites", 3)


def rule_r6(ctx, rep):
    """who may unregister: only delete-by-id and the operations documented to discard nodes (replace with deletion, prune,
    reference expansion), plus private helpers that only they call.  In particular plain detaching (remove_child), whose caller
    keeps the node and may re-attach it, must not unregister."""
    from ..treefx import TreeFx
    w = ctx.world
    fx = ctx.get("treefx", lambda: TreeFx(w))
    allowed = set(DISCARDERS) | {NODE_Q + ".delete_node_instance"}
    funcs = list(lib_funcs(ctx))
    unreg = {f.qname: f for f in funcs if any(e[0].startswith("unreg") for e in fx.tree_effects(f))}
    callers = {}
    for f in funcs:
        ft = w.types(f)
        for n in ast.walk(f.node):
            if isinstance(n, ast.Call):
                for tg in w.resolve_call(ft, n):
                    if tg.func is not None and tg.func.qname in unreg and tg.func.qname != f.qname:
                        callers.setdefault(tg.func.qname, set()).add(f.qname)
    for q, f in sorted(unreg.items()):
        rep.count("functions that may unregister nodes")
        private = f.name.startswith("_") and not f.name.startswith("__")
        ok = q in allowed or (private and callers.get(q) and callers[q] <= set(unreg))
        rep.oblige(("R6", q), ok, sample={"may unregister": q.split("metapype.")[-1], "documented discarder or private helper of one": ok})
        if not ok:
            rep.add("R6", q, "unregisters nodes", f"{f.name} unregisters nodes although it is not one of the operations documented to discard them "
                    f"(delete by id, replace with deletion, prune, expand): a node that is merely detached -- and may be re-attached -- "
                    f"disappears from the registry while it is still in a tree", f.loc())
    rep.floor("functions that may unregister nodes", 3)


def rule_r5(ctx, rep):
    prog = ctx.prog
    nm = ctx.world.nm
    fi = prog.func(NODE_Q + ".delete_node_instance")
    rep.touch(fi)
    idp = fi.params[1] if len(fi.params) > 1 else None
    if idp is None:
        raise AnalysisError("anchor vanished: parameters of Node.delete_node_instance")
    dels = []
    for n in ast.walk(fi.node):
        if isinstance(n, ast.Delete):
            for t in n.targets:
                if isinstance(t, ast.Subscript) and isinstance(t.value, ast.Attribute) and t.value.attr == nm.registry:
                    dels.append((n, t))
        if isinstance(n, ast.Call) and isinstance(n.func, ast.Attribute) and n.func.attr in ("pop",) and isinstance(n.func.value, ast.Attribute) \
                and n.func.value.attr == nm.registry:
            # registry.pop(id) / registry.pop(id, default) removes exactly the key `id` as `del registry[id]` does (and hands the node back)
            dels.append((n, ast.Subscript(value=n.func.value, slice=n.args[0], ctx=ast.Del()) if n.args and not n.keywords else None))
    rep.count("registry deletions in delete_node_instance", len(dels))
    ok = bool(dels) and all(t is not None and isinstance(t.slice, ast.Name) and t.slice.id == idp for (_n, t) in dels)
    rep.oblige(("R5", "exact-key"), ok)
    if not ok:
        rep.add("R5", fi.qname, dels[0][0] if dels else "del Node.store[id]", "delete_node_instance must delete exactly the key it was given, once", fi.loc())
    else:
        from ..marks import may_at
        dom = MarkDomain()
        for (d_, _t) in dels:
            dom.mark(d_, "DEL")
            dom.probe(d_)
        flow, exits = run_marks(ctx, fi, dom)
        ok2 = bool(exits) and all("DEL" in must for (must, _m) in exits)
        rep.oblige(("R5", "all-paths"), ok2)
        if not ok2:
            rep.add("R5", fi.qname, dels[0][0], "some path through delete_node_instance does not remove the node it was asked to remove", fi.loc(dels[0][0]))
        for (d_, _t) in dels:
            twice = "DEL" in (may_at(dom, d_) or frozenset())
            rep.oblige(("R5", "once", getattr(d_, "lineno", 0)), not twice)
            if twice:
                rep.add("R5", fi.qname, d_, "the key is deleted a second time on some path (KeyError): delete_node_instance must delete exactly the key it was "
                        "given, once", fi.loc(d_))
    # recursion: only over the children of the node registered under id, guarded by the children flag
    recs = [n for n in ast.walk(fi.node) if isinstance(n, ast.Call) and _resolves_to(ctx, fi, n, fi.qname)]
    rep.count("recursive unregistrations", len(recs))
    for r in recs:
        loop = None
        for n in ast.walk(fi.node):
            if isinstance(n, ast.For) and any(x is r for x in ast.walk(n)):
                loop = n
        a = r.args[0] if r.args else None
        own = _id_owner(a) if a is not None else None
        ok = loop is not None and isinstance(loop.target, ast.Name) and own == loop.target.id and isinstance(loop.iter, ast.Attribute) \
            and nm.canon(loop.iter.attr) == "_children"
        rep.oblige(("R5", "recursion", norm(r)), ok)
        if not ok:
            rep.add("R5", fi.qname, r, "the recursive unregistration does not range exactly over the children of the node being deleted", fi.loc(r))
        # inside the loop the descent is unconditional: every child goes with its parent
        if loop is not None:
            from ..condeval import enclosing_ifs
            for (g, _side) in enclosing_ifs(fi, r):
                if any(x is g for x in ast.walk(loop)):
                    rep.oblige(("R5", "unconditional", norm(g.test)[:40]), False)
                    rep.add("R5", fi.qname, g.test, "whether a child of the deleted node is unregistered depends on a test: descendants for which it "
                            "fails stay registered although their subtree was discarded", fi.loc(g))
        for kw in r.keywords:
            if kw.arg == "children" and isinstance(kw.value, ast.Constant) and kw.value.value is False:
                rep.add("R5", fi.qname, r, "descendants below the first level stay registered (children=False in the recursion)", fi.loc(r))
    if not recs:
        rep.add("R5", fi.qname, "recursive descent", "delete_node_instance never unregisters the descendants", fi.loc())
    from .c15 import live_iteration_problems
    for lp in live_iteration_problems(ctx, fi):
        rep.add("R5", fi.qname, lp.iter, "the recursion iterates a live child list that the recursive call itself shrinks: every second child (and its subtree) "
                "is skipped and stays registered", fi.loc(lp))
    rep.floor("registry deletions in delete_node_instance", 1)


def rule_r7(ctx, rep):
    """no orphan registrations: a node a library function creates (constructor or copy -- both register it) is handed on
    (returned, attached, stored, passed to a call) or unregistered by that function; a node that is only read from stays in
    the registry for ever although nothing can reach it"""
    w = ctx.world
    for fi in lib_funcs(ctx):
        ft = w.types(fi)
        created = []
        for n in ast.walk(fi.node):
            if isinstance(n, ast.Assign) and len(n.targets) == 1 and isinstance(n.targets[0], ast.Name) and isinstance(n.value, ast.Call):
                tgs = w.resolve_call(ft, n.value)
                if any((t.kind == "class" and t.name == NODE_Q) or (t.func is not None and t.func.qname == NODE_Q + ".copy" and len(tgs) == 1) for t in tgs):
                    created.append((n, n.targets[0].id))
        for (a, x) in created:
            rep.count("nodes created into a local")
            handed = False
            for n in ast.walk(fi.node):
                if isinstance(n, ast.Return) and n.value is not None and any(isinstance(m, ast.Name) and m.id == x for m in ast.walk(n.value)):
                    handed = True
                elif isinstance(n, (ast.Yield, ast.YieldFrom)) and n.value is not None and any(isinstance(m, ast.Name) and m.id == x for m in ast.walk(n.value)):
                    handed = True
                elif isinstance(n, ast.Call):
                    args = list(n.args) + [k.value for k in n.keywords]
                    direct = any(isinstance(m, ast.Name) and m.id == x for arg in args for m in ([arg] if isinstance(arg, ast.Name) else
                                                                                                 (arg.elts if isinstance(arg, (ast.Tuple, ast.List)) else [])))
                    by_id = any(isinstance(arg, ast.Attribute) and isinstance(arg.value, ast.Name) and arg.value.id == x and arg.attr in ("id", "_id") for arg in args)
                    if direct and not (isinstance(n.func, ast.Attribute) and n.func.attr == "set_node_instance"):
                        handed = True
                    if by_id and isinstance(n.func, ast.Attribute) and n.func.attr == "delete_node_instance":
                        handed = True
                elif isinstance(n, ast.Assign) and n is not a:
                    if any(isinstance(m, ast.Name) and m.id == x for m in ([n.value] if isinstance(n.value, ast.Name) else
                                                                           (n.value.elts if isinstance(n.value, (ast.Tuple, ast.List)) else []))):
                        handed = True
            rep.oblige(("R7", fi.qname, x), handed, sample={"created": norm(a), "in": fi.name, "handed on": handed})
            if not handed:
                rep.add("R7", fi.qname, a, f"`{x}` is created (and thereby registered) here but is neither returned, attached, stored, passed on nor "
                        f"unregistered: it stays in the registry although no tree contains it", fi.loc(a))
    rep.floor("nodes created into a local", 2)


def run(ctx, rep):
    rep.explanation = (
        "registration discipline decided structurally: Node.__init__ registers on every path after the id is set (marker "
        "dataflow), the registration primitive stores its argument under its own id, clones/__new__ only inside Node.copy, "
        "_id and the registry written only by their owners (effect analysis), every discard in prune / expand / replace_child "
        "paired on all paths with the unregistration of the same node (children included), every unregistration preceded by the "
        "detachment of that node or the no-parent outcome, and delete_node_instance removes exactly its key plus the subtree")
    rep.rules_run = ["R1", "R2", "R3", "R4", "R5", "R6", "R7", "R8"]
    rep.assumptions += ["NOT decided: uuid1 uniqueness", "copy() registration is C12-R3"]
    only = getattr(rep, "only", None)
    if only in (None, "R1", "R2"):
        rule_r1_r2(ctx, rep)
    if only in (None, "R3", "R4"):
        rule_r3_r4(ctx, rep)
    if only in (None, "R5"):
        rule_r5(ctx, rep)
    if only in (None, "R6"):
        rule_r6(ctx, rep)
    if only in (None, "R7"):
        rule_r7(ctx, rep)
    if only in (None, "R8"):
        from .c14_worlds import rule_r8
        rule_r8(ctx, rep)
