"""C10 -- the rule table is closed and consistent with the known element names.

Complete decision over the three shipped tables (finite, statically
available): exhaustive enumeration of node_mappings, rules.json and every
children spec."""
from __future__ import annotations

import ast

from ..anchors import content_dispatch, rule_method
from ..model import AnalysisError, norm
from ..peval import PEval, PEvalUnsupported, Raised
from ..tables import Spec, SpecError, parse_spec

KIND2MOD = {"leaf": "child_rule", "seq": "sequence", "choice": "choice"}


def run(ctx, rep):
    T = ctx.tables
    prog = ctx.prog
    rep.exhaustive = True
    rep.explanation = (
        "complete enumeration of the shipped tables: every node_mappings entry (folded from the AST), every rule "
        "of rules.json (read as data), every children-spec node and attribute spec; closure (R1), shape incl. "
        "agreement with rule.py's own modality predicates folded over each spec node (R2), child names known (R3), "
        "least-fixpoint productivity under the declared semantics (R4)")
    rep.rules_run = ["R1", "R2", "R3", "R4"]
    rep.files.update({T.rule_mod.relpath, T.names_mod.relpath, "src/metapype/eml/rules.json"})
    rep.assumptions += [
        "the validator implements the declared semantics of a rule (subject of C01-C03); R4 decides existence of a tree "
        "under the declared semantics",
        "node_mappings and rules_dict are not written after their definition (checked: no writer in the program)",
    ]
    rules = T.rules

    # ---- the fold is only valid when nobody writes the tables later
    writers = T.table_writers()
    for mi, n in writers:
        raise AnalysisError(f"{mi.relpath}:{n.lineno}: `{norm(n)}` writes node_mappings/rules_dict after definition; "
                            f"the static fold of the tables is not valid")

    # ---- R1 closure
    for node, why in T.mapping_problems:
        rep.add("R1", "node_mappings", node, why, f"{T.rule_mod.relpath}:{node.lineno}")
    for k in T.mapping_dups:
        rep.add("R1", "node_mappings", f"key '{k}'", "element name mapped twice in the literal (the later entry wins silently)")
    for name, rule_name in sorted(T.mapping.items()):
        rep.count("node_mappings entries")
        ok = rule_name in rules
        rep.oblige(("R1", name), ok)
        if not ok:
            rep.add("R1", "node_mappings", f"'{name}' -> '{rule_name}'",
                    f"element '{name}' maps to rule '{rule_name}' which is not in rules.json (KeyError in Rule.__init__)")
    rep.floor("node_mappings entries", 200)
    if getattr(rules, "dups", None):
        for k in rules.dups:
            rep.add("R1", "rules.json", f"rule '{k}'", "rule defined twice in rules.json (the later definition wins silently)")

    # ---- dispatch arms (what content rule names are implemented)
    try:
        _fi, _loop, _var, arms, fall = content_dispatch(prog)
        implemented = set(arms)
    except AnalysisError as ex:
        # the dispatch has a shape this extractor does not read: which names are implemented is C02-R1's question (its check
        # reports the unreadable dispatch); the table rules here go on without that one clause
        implemented = None
        rep.notes.append(f"content dispatch not read ({ex}): the 'content rule is implemented' clause of R2 is left to C02-R1")

    # ---- R2 shape of every rule
    pe = PEval(ctx.world)
    f_mod = rule_method(prog, "_get_children_modality")
    f_names = rule_method(prog, "_get_rule_children_names")
    specs = {}
    n_leaf = n_choice = n_attr = 0
    for rname in sorted(rules):
        rep.count("rules")
        r = rules[rname]
        where = rname
        if not (isinstance(r, list) and len(r) == 3 and isinstance(r[0], dict) and isinstance(r[1], list) and isinstance(r[2], dict)):
            rep.add("R2", where, "rule", "rule is not [attributes: object, children: array, content: object]")
            continue
        attrs, children, content = r
        if getattr(attrs, "dups", None):
            rep.add("R2", where, f"attributes {attrs.dups}", "attribute declared twice")
        for an, aspec in attrs.items():
            n_attr += 1
            rep.count("attribute specs")
            ok = (isinstance(aspec, list) and len(aspec) >= 1 and isinstance(aspec[0], bool)
                  and all(isinstance(x, str) for x in aspec[1:]))
            rep.oblige(("R2a", rname, an), ok)
            if not ok:
                rep.add("R2", where, f"attribute '{an}': {aspec!r}"[:150],
                        "attribute spec must be a non-empty list led by a required flag (bool) followed by allowed values (strings)")
        cr = content.get("content_rules")
        if not (isinstance(cr, list) and all(isinstance(x, str) for x in cr)):
            rep.add("R2", where, "content_rules", "content section lacks a 'content_rules' list of names")
        else:
            for c in cr:
                rep.count("content rule uses")
                ok = implemented is None or c in implemented
                rep.oblige(("R2c", rname, c), ok)
                if not ok:
                    rep.add("R2", where, f"content rule '{c}'",
                            "content-rule name has no dispatch arm in Rule._validate_content (every node of this rule "
                            "fails with UNKNOWN_CONTENT_RULE)")
        if "content_enum" in content:
            ce = content["content_enum"]
            if not (isinstance(ce, list) and all(isinstance(x, str) for x in ce)):
                rep.add("R2", where, "content_enum", "content_enum must be a list of strings")
        extra = set(content) - {"content_rules", "content_enum"}
        if extra:
            rep.notes.append(f"{rname}: unknown keys in content section: {sorted(extra)}")
        # children spec
        if children:
            try:
                sp = parse_spec(children, rname)
            except SpecError as e:
                rep.add("R2", where, "children spec", str(e))
                continue
            specs[rname] = sp
            if sp.kind == "leaf":
                rep.add("R2", where, "children spec", "top-level children spec is a bare leaf; the validator dispatches "
                        "only sequence/choice at top level")
            for node in sp.walk():
                rep.count("spec nodes")
                if node.kind == "leaf":
                    n_leaf += 1
                    rep.count("leaf particles")
                elif node.kind == "choice":
                    n_choice += 1
                    rep.count("choices")
                if node.kind == "seq":
                    for it in node.items:
                        if it.kind == "seq":
                            rep.add("R2", where, f"nested sequence {it.raw!r}"[:150],
                                    "a sequence directly inside a sequence is handed to the leaf matcher by "
                                    "Rule._validate_sequence")
                # agreement with rule.py's own modality predicates (constant folding over the table)
                try:
                    got = pe.call(f_mod, [node.raw])
                except Raised as ex:
                    got = f"raises {ex.cls}"
                except PEvalUnsupported as ex:
                    raise AnalysisError(f"cannot fold Rule._get_children_modality over the table: {ex}")
                ok = got == KIND2MOD[node.kind]
                rep.oblige(("R2m", rname, repr(node.raw)[:80]), ok,
                           sample={"rule": rname, "spec": repr(node.raw)[:100], "declared": node.kind, "rule.py says": got}
                           if rep.instances.get("spec nodes", 0) % 97 == 1 else None)
                if not ok:
                    rep.add("R2", where, f"spec {node.raw!r}"[:150],
                            f"declared grammar says {node.kind}, Rule._get_children_modality folds to {got!r}")
            try:
                got = pe.call(f_names, [children])
            except Raised as ex:
                got = f"raises {ex.cls}"
            except PEvalUnsupported as ex:
                raise AnalysisError(f"cannot fold Rule._get_rule_children_names over the table: {ex}")
            if got != sp.names():
                rep.add("R2", where, "flattened child names",
                        f"Rule._get_rule_children_names folds to {str(got)[:80]}, the spec names {str(sp.names())[:80]}")
            dup = sorted({n for n in sp.names() if sp.names().count(n) > 1})
            if dup:
                rep.notes.append(f"side output (C17 precondition): rule {rname} names a child more than once: {dup}")
        else:
            specs[rname] = None
    rep.floor("rules", 100)
    rep.floor("leaf particles", 290)
    rep.floor("choices", 30)
    rep.floor("attribute specs", 80)

    # ---- R3 child names known
    for rname in T.reachable_rules():
        sp = specs.get(rname)
        if rname not in rules or sp is None:
            continue
        for child in sorted(set(sp.names())):
            rep.count("child names in reachable rules")
            ok = child in T.mapping
            rep.oblige(("R3", rname, child), ok)
            if not ok:
                rep.add("R3", rname, f"child '{child}'",
                        f"rule {rname} permits child '{child}', which is not a known element name: single-node validation "
                        f"allows it, whole-tree validation rejects it as unknown")
    rep.floor("child names in reachable rules", 300)

    # ---- R4 productivity (least fixpoint)
    def content_ok(rname):
        content = rules[rname][2]
        cr = content.get("content_rules") or []
        if not isinstance(cr, list):
            return False
        if "emptyContent" in cr and "nonEmptyContent" in cr:
            return False
        if "content_enum" in content:
            ce = content["content_enum"]
            if not isinstance(ce, list) or len(ce) == 0:
                return False
            if "emptyContent" in cr:
                return False
        if implemented is not None and any(c not in implemented for c in cr):
            return False
        return True

    def attrs_ok(rname):
        for an, aspec in rules[rname][0].items():
            if isinstance(aspec, list) and aspec and aspec[0] is True and len(aspec) > 1 and not aspec[1:]:
                return False
        return True

    productive = set()
    meta = prog.const(T.names_mod, ast.Name(id="METADATA", ctx=ast.Load()))

    def word_ok(sp: Spec, need_nonempty=False) -> bool:
        if sp.kind == "leaf":
            k = max(sp.min, 1 if need_nonempty else 0)
            if k == 0:
                return True
            if sp.max is not None and sp.max < k:
                return False
            return sp.name in productive
        if sp.kind == "seq":
            if need_nonempty:
                return all(word_ok(i) for i in sp.items) and any(word_ok(i, True) for i in sp.items)
            return all(word_ok(i) for i in sp.items)
        # choice
        k = max(sp.min, 1 if need_nonempty else 0)
        if k == 0:
            return True
        if sp.max is not None and sp.max < k:
            return False
        return any(word_ok(i, True) for i in sp.items)

    changed = True
    rounds = 0
    while changed:
        changed = False
        rounds += 1
        for name, rname in T.mapping.items():
            if name in productive or rname not in rules or rname not in specs:
                continue
            if not (content_ok(rname) and attrs_ok(rname)):
                continue
            sp = specs[rname]
            if sp is None or word_ok(sp) or name == meta:
                productive.add(name)
                changed = True
    for name, rname in sorted(T.mapping.items()):
        rep.count("elements checked for productivity")
        ok = name in productive
        rep.oblige(("R4", name), ok)
        if not ok and rname in rules and rname in specs:
            rep.add("R4", "node_mappings", f"element '{name}' ({rname})",
                    "no finite tree rooted at this element can pass whole-tree validation under the declared semantics "
                    "(content constraints, required attributes or required children are jointly unsatisfiable)")
    rep.extra["productivity_rounds"] = rounds
    rep.sample({"productive elements": len(productive), "of": len(T.mapping)})

    # ---- side output
    unmapped_rules = sorted(set(rules) - set(T.mapping.values()))
    unmapped_names = sorted(v for v in T.name_consts.values() if v not in T.mapping)
    rep.extra["side_output"] = {
        "rules_present_but_unmapped": unmapped_rules,
        "name_constants_unmapped": unmapped_names[:60],
        "implemented_content_rules": sorted(implemented) if implemented is not None else None,
    }
    rep.extra["table_rows_visited"] = {"node_mappings": len(T.mapping), "rules": len(rules)}
    for s in list(sorted(T.mapping.items()))[:3]:
        rep.sample({"node_mappings row": s})
