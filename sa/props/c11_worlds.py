"""C11-R2 -- the read-only operations folded on small documents: the state afterwards is the state before.

Every read-only entry point that sa/peval.py can follow (validation in both modes, evaluation, the JSON writers, both XML
exporters, graph rendering, the queries, structural comparison) is folded on the documents of C05-R6, on the tree catalogue
and on a data table with physical / dataFormat / textFormat; every field of every node, every child list (by identity and
order), every parent link, every namespace map *object* and the registry are frozen before and compared after."""
from __future__ import annotations

from ..peval import Opaque, PEval, PEvalUnsupported, Raised
from ..types import NODE_Q
from .worlds import FIELDS, catalogue, is_node, mkc, nodes, number


def freeze(root, store):
    out = []
    for n in nodes(root):
        out.append((id(n), n.get("_id"), tuple((f, repr(n.get(f)), id(n.get(f)) if isinstance(n.get(f), (dict, list)) else 0) for f in FIELDS),
                    tuple(id(c) for c in n["_children"]), id(n["_children"]), id(n.get("_parent"))))
    return out, sorted((str(k), id(v)) for k, v in store.items())


def documents():
    from .c05_worlds import documents as d5
    docs = list(d5())
    docs += [(f"catalogue: {w}", b) for w, b in catalogue()]
    docs.append(("a data table with physical / dataFormat / textFormat", lambda: mkc("dataset", None, [mkc("title", "a b c"), mkc("dataTable", None, [
        mkc("entityName", "n"), mkc("physical", None, [mkc("objectName", "o"), mkc("size", "1"), mkc("dataFormat", None, [mkc("textFormat", None, [
            mkc("numHeaderLines", "1"), mkc("recordDelimiter", "\\n"), mkc("attributeOrientation", "column")])])]), mkc("numberOfRecords", "3")]),
        mkc("abstract", None, [mkc("para", "some words here")]), mkc("creator", None, [mkc("individualName", None, [mkc("givenName", "g"), mkc("surName", "s")]),
                                                                                       mkc("userId", "u", attributes={"directory": "https://orcid.org"})])])))
    docs.append(("a dataset with three keyword sets and two creators", lambda: mkc("dataset", None, [
        mkc("title", "a b c d e f"), mkc("creator", None, [mkc("organizationName", "o"), mkc("userId", "u"), mkc("userId", "v", attributes={"directory": "https://orcid.org"})]),
        mkc("creator", None, [mkc("individualName", None, [mkc("surName", "s")])]), mkc("abstract", "x " * 25),
        mkc("keywordSet", None, [mkc("keyword", "k1"), mkc("keyword", "k2")]), mkc("keywordSet", None, [mkc("keyword", "k3")]), mkc("keywordSet", None, [mkc("keyword", "k4"), mkc("keywordThesaurus", "t")]),
        mkc("coverage", None, [mkc("temporalCoverage")]), mkc("contact", None, [mkc("organizationName", "o")])])))
    return docs


def operations(prog, w):
    """(label, FuncInfo, argument builder(root) -> list)"""
    ops = []

    def f(q):
        return prog.funcs.get(q)
    for q, mk_args in (("metapype.eml.validate.node", lambda r: [r]), ("metapype.eml.validate.node", lambda r: [r, []]), ("metapype.eml.validate.tree", lambda r: [r, []]),
                       ("metapype.eml.evaluate.node", lambda r: [r]), ("metapype.eml.evaluate.tree", lambda r: [r, []]),
                       ("metapype.model.metapype_io.to_json", lambda r: [r]), ("metapype.model.metapype_io.to_xml", lambda r: [r]),
                       ("metapype.model.metapype_io.graph", lambda r: [r]), ("metapype.eml.export.to_xml", lambda r: [r]),
                       ("metapype.model.mp_io.to_json", lambda r: [r])):
        if f(q) is not None:
            ops.append((q.split("metapype.")[-1] + ("(errs)" if "[]" in repr(mk_args.__code__.co_consts) else ""), f(q), mk_args))
    ci = w.nm.ci
    for m, mk_args in (("find_child", lambda r: [r, "title"]), ("find_all_children", lambda r: [r, "title"]), ("find_descendant", lambda r: [r, "surName"]),
                       ("find_all_descendants", lambda r: [r, "para", []]), ("find_single_node_by_path", lambda r: [r, ["creator", "individualName"]]),
                       ("find_all_nodes_by_path", lambda r: [r, ["creator", "individualName"]]), ("get_ancestry", lambda r: [nodes(r)[-1]]),
                       ("child_index", lambda r: [r, (r["_children"] or [r])[-1]]), ("list_attributes", lambda r: [r]), ("attribute_value", lambda r: [r, "id"]),
                       ("is_equal", lambda r: [r, r["_children"][0] if r["_children"] else r])):
        fi = w.lookup_method(ci, m)
        if fi is not None:
            ops.append(("Node." + m, fi, mk_args))
    return ops


def rule_r2(ctx, rep):
    prog, w = ctx.prog, ctx.world
    ops = operations(prog, w)
    broken = set()
    for what, build in documents():
        for (label, fi, mk_args) in ops:
            if label in broken:
                continue
            root = number(build())
            store = {n["_id"]: n for n in nodes(root)}
            pe = PEval(w)
            pe.class_state[(NODE_Q, "store")] = store
            before = freeze(root, store)
            try:
                args = mk_args(root)
                pe.call(fi, args)
            except Raised:
                pass  # a rule error of fail-fast validation: the state must still be what it was
            except PEvalUnsupported as ex:
                rep.notes.append(f"{label} not folded on {what}: {ex}")
                continue
            except (IndexError, KeyError):
                continue
            rep.count("read-only folds")
            after = freeze(root, pe.class_state.get((NODE_Q, "store"), {}))
            ok = after == before
            rep.oblige(("R2", label, what), ok)
            if not ok:
                broken.add(label)
                why = "the registry differs" if after[1] != before[1] else None
                if why is None:
                    for a, b in zip(before[0], after[0]):
                        if a != b:
                            n = next(x for x in nodes(root) if id(x) == a[0]) if a[0] == b[0] else None
                            nm_ = n["_name"] if n is not None else "?"
                            if a[3] != b[3] or a[4] != b[4]:
                                why = f"the child list of {nm_} is not what it was ({len(a[3])} -> {len(b[3])} children)"
                            elif a[2] != b[2]:
                                fld = next(x[0] for x, y in zip(a[2], b[2]) if x != y)
                                why = f"field {fld[1:]} of {nm_} changed (value or container object)"
                            else:
                                why = f"a link or the id of {nm_} changed"
                            break
                    why = why or "the number of nodes changed"
                rep.add("R2", fi.qname, f"{label} on {what}", f"{label} on {what} does not leave the tree as it was: {why}", fi.loc())
