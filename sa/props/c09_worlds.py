"""C09-R7 -- the search queries over an abstract ordered tree.

The queries look at the tree through two things only: the order of a child list and the equality of a name with the name asked
for.  They are folded (sa/peval.py; nothing of the repository is imported or run) over one tree that holds every position class
of a name -- first, middle and last child, repeated among siblings, nested below a match, nested below a non-match, absent --
from several receivers, and the folded answer is compared *by identity* with what the ordered-tree model gives: children in
list order, descendants in document (pre-) order, paths level by level, ancestry from the root down.  Deeper trees add nothing
a query can observe: each query either scans one child list or recurses into the children with unchanged arguments (R4 holds it
to that shape)."""
from __future__ import annotations

from ..peval import Opaque, PEval, PEvalUnsupported, Raised
from ..types import NODE_Q
from .c07_worlds import mk
from .worlds import mkc


def build():
    """root(a1(x1(a2), b1), b2, a3(b3(a4)), c1, a5)"""
    n = {}
    n["a2"] = mkc("a")
    n["x1"] = mkc("x", None, [n["a2"]])
    n["b1"] = mkc("b")
    n["a1"] = mkc("a", None, [n["x1"], n["b1"]])
    n["b2"] = mkc("b")
    n["a4"] = mkc("a")
    n["b3"] = mkc("b", None, [n["a4"]])
    n["a3"] = mkc("a", None, [n["b3"]])
    n["c1"] = mkc("c")
    n["a5"] = mkc("a")
    n["root"] = mkc("root", None, [n["a1"], n["b2"], n["a3"], n["c1"], n["a5"]])
    n["orphan"] = mkc("a")
    return n


def descendants(x):
    out = []
    for c in x["_children"]:
        out.append(c)
        out.extend(descendants(c))
    return out


def by_path(x, path):
    cur = [x]
    for name in path:
        cur = [c for y in cur for c in y["_children"] if c["_name"] == name]
    return cur


def ancestry(x):
    out = []
    while x is not None:
        out.insert(0, x)
        x = x["_parent"]
    return out


def same(a, b):
    if isinstance(a, list) and isinstance(b, list):
        return len(a) == len(b) and all(x is y for x, y in zip(a, b))
    if isinstance(a, list) or isinstance(b, list):
        return False
    return a is b


def label(n, v):
    inv = {id(x): k for k, x in n.items()}
    if isinstance(v, list):
        return "[" + ", ".join(inv.get(id(x), "?") for x in v) + "]"
    if v is None:
        return "None"
    return inv.get(id(v), repr(v)[:30])


NAMES = ("a", "b", "c", "x", "zz")
PATHS = (["a"], ["b"], ["a", "b"], ["a", "x", "a"], ["a", "b", "a"], ["zz"], ["a", "zz"], ["c", "a"], [])


def specs():
    """(query, receiver key, argument spec): names, paths and node keys only -- realised on a fresh tree per verdict"""
    out = []
    for rk in ("root", "a1", "a3", "c1"):
        for name in NAMES:
            for q in ("find_child", "find_all_children", "find_descendant", "find_all_descendants"):
                out.append((q, rk, ("name", name)))
        for path in PATHS:
            out.append(("find_all_nodes_by_path", rk, ("path", tuple(path))))
            out.append(("find_single_node_by_path", rk, ("path", tuple(path))))
    for k in ("root", "a1", "x1", "a2", "a4", "c1", "orphan"):
        out.append(("get_ancestry", k, None))
    for (rk, ck) in (("root", "a1"), ("root", "b2"), ("root", "a3"), ("root", "a5"), ("root", "a2"), ("root", "orphan"), ("a1", "b1"), ("c1", "a1")):
        out.append(("child_index", rk, ("node", ck)))
    return out


AMBIGUOUS = object()


def reference(n, q, rk, arg):
    r = n[rk]
    if q in ("find_child", "find_all_children"):
        kids = [c for c in r["_children"] if c["_name"] == arg[1]]
        return kids if q == "find_all_children" else (kids[0] if kids else None)
    if q in ("find_descendant", "find_all_descendants"):
        des = [d for d in descendants(r) if d["_name"] == arg[1]]
        return des if q == "find_all_descendants" else (des[0] if des else None)
    if q == "find_all_nodes_by_path":
        return by_path(r, arg[1]) if arg[1] else []
    if q == "find_single_node_by_path":
        # "the first node that satisfies the path": decided only where the greedy descent and the first of all agree
        allp = by_path(r, arg[1]) if arg[1] else []
        greedy = r if arg[1] else None
        for name in arg[1]:
            if greedy is None:
                break
            greedy = next((c for c in greedy["_children"] if c["_name"] == name), None)
        first = allp[0] if allp else None
        return first if greedy is first else AMBIGUOUS
    if q == "get_ancestry":
        return ancestry(r)
    if q == "child_index":
        return next((i for i, c in enumerate(r["_children"]) if c is n[arg[1]]), None)
    raise KeyError(q)


def rule_r7(ctx, rep):
    w = ctx.world
    broken = set()
    for (q, rk, arg) in specs():
        fi = w.lookup_method(w.nm.ci, q)
        if fi is None or q in broken:
            continue
        n = build()  # a fresh tree per verdict: a query that edits the tree must not spoil the next one (C11 reports the edit)
        want = reference(n, q, rk, arg)
        if want is AMBIGUOUS:
            continue
        acc = []
        args = [n[rk]]
        shown_arg = ""
        if arg is not None:
            args.append(n[arg[1]] if arg[0] == "node" else list(arg[1]) if arg[0] == "path" else arg[1])
            shown_arg = arg[1] if arg[0] == "node" else repr(list(arg[1])) if arg[0] == "path" else repr(arg[1])
        if q == "find_all_descendants":
            args.append(acc)
        what = f"{q}({shown_arg}) on {rk}"
        pe = PEval(w)
        try:
            got = pe.call(fi, args)
        except Raised as r:
            got = ("raises", r.cls)
        except PEvalUnsupported as ex:
            rep.notes.append(f"{fi.qname} not folded for {what}: {ex}")
            broken.add(q)
            continue
        if q == "find_all_descendants" and got is None:
            got = acc
        if isinstance(got, Opaque):
            rep.notes.append(f"{fi.qname} not folded for {what}: opaque answer")
            broken.add(q)
            continue
        rep.count("query verdicts")
        ok = not isinstance(got, tuple) and same(got, want)
        shown = f"raises {got[1]}" if isinstance(got, tuple) else label(n, got)
        rep.oblige(("R7", q, rk, shown_arg), ok, sample={"query": what, "answer": shown})
        if not ok:
            broken.add(q)
            rep.add("R7", fi.qname, what, f"on the tree root(a1(x1(a2), b1), b2, a3(b3(a4)), c1, a5) {what} answers {shown}; the ordered tree gives {label(n, want)}",
                    fi.loc())


# ---------------------------------------------------------------------------------------------------------------------------
# R8 -- the edits over one child list
# ---------------------------------------------------------------------------------------------------------------------------
def _family():
    """p(a1, b1, a2, c1, a3) as classed instances (the class's own properties and methods are folded on them), registered"""
    from .worlds import mkc, number
    kids = [mkc("a"), mkc("b"), mkc("a"), mkc("c"), mkc("a")]
    p = number(mkc("p", None, kids))
    n = {"p": p, "a1": kids[0], "b1": kids[1], "a2": kids[2], "c1": kids[3], "a3": kids[4]}
    n["new_a"] = mkc("a", id="new-a")
    n["new_z"] = mkc("z", id="new-z")
    n["stranger"] = mkc("a", id="stranger")
    return n


def _order(n, p):
    inv = {id(v): k for k, v in n.items()}
    return [inv.get(id(c), "?") for c in p["_children"]]


def rule_r8(ctx, rep):
    """add / remove / replace / shift / clear folded on the list (a, b, a, c, a): the resulting order and the returned index are those
    of the ordered-list model, every listed child's parent link names the parent, a failing edit leaves the list as it was"""
    import ast as _ast
    from ..types import NODE_Q
    w = ctx.world
    prog = ctx.prog
    ci = w.nm.ci
    mi = ci.module
    dirs = {}
    for d in ("LEFT", "RIGHT"):
        v = prog.const(mi, _ast.parse(f"Shift.{d}", mode="eval").body)
        dirs[d] = v
    base = ["a1", "b1", "a2", "c1", "a3"]
    names = {"a1": "a", "a2": "a", "a3": "a", "b1": "b", "c1": "c", "new_a": "a", "new_z": "z", "stranger": "a"}

    def shifted(k, d, sib):
        order = list(base)
        i = order.index(k)
        rng = range(i + 1, len(order)) if d == "RIGHT" else range(i - 1, -1, -1)
        for j in rng:
            if not sib or names[order[j]] == names[k]:
                order[i], order[j] = order[j], order[i]
                return order, j
            if not sib:
                break
        return order, i
    cases = []
    for k in base:
        for d in ("LEFT", "RIGHT"):
            for sib in (True, False):
                order, idx = shifted(k, d, sib)
                cases.append(("shift", [k, ("dir", d), sib], order, idx, None))
    cases.append(("shift", ["a2", None, True], list(base), None, "ValueError"))
    cases.append(("shift", ["stranger", ("dir", "LEFT"), True], list(base), None, "ValueError"))
    for ix in (None, 0, 2, 5, 7, -1):
        order = list(base)
        if ix is None:
            order.append("new_z")
        else:
            order.insert(ix, "new_z")
        cases.append(("add_child", ["new_z"] + ([] if ix is None else [ix]), order, None, None))
    for k in base:
        cases.append(("remove_child", [k], [x for x in base if x != k], None, None))
    cases.append(("remove_child", ["stranger"], list(base), None, "ValueError"))
    for k in ("a1", "a2", "a3"):
        for dele in (True, False):
            cases.append(("replace_child", [k, "new_a", dele], [("new_a" if x == k else x) for x in base], None, None))
    cases.append(("replace_child", ["b1", "new_a", True], list(base), None, "ValueError"))
    cases.append(("remove_children", [], [], None, None))
    broken = set()
    for (q, args, want_order, want_ret, want_exc) in cases:
        fi = w.lookup_method(ci, q)
        if fi is None or q in broken:
            continue
        n = _family()
        p = n["p"]
        pe = PEval(w)
        pe.class_state[(NODE_Q, "store")] = {v["_id"]: v for v in n.values()}
        real = [p]
        for a in args:
            if isinstance(a, tuple) and a[0] == "dir":
                real.append(dirs[a[1]])
            elif isinstance(a, str) and a in n:
                real.append(n[a])
            else:
                real.append(a)
        what = f"{q}({', '.join(a[1] if isinstance(a, tuple) else str(a) for a in args)}) on p(a1, b1, a2, c1, a3)"
        exc = None
        ret = None
        try:
            ret = pe.call(fi, real)
        except Raised as r:
            exc = (r.cls or "").rsplit(".", 1)[-1]
        except PEvalUnsupported as ex:
            rep.notes.append(f"{fi.qname} not folded for {what}: {ex}")
            broken.add(q)
            continue
        rep.count("edit verdicts")
        got_order = _order(n, p)
        why = None
        if want_exc and exc != want_exc:
            why = f"{'raises ' + exc if exc else 'succeeds'}; the edit must fail with {want_exc}"
        elif not want_exc and exc:
            why = f"raises {exc}"
        elif got_order != want_order:
            why = f"leaves the children ({', '.join(got_order)}); the ordered-list model gives ({', '.join(want_order)})" + \
                  (" -- a failing edit must leave the tree unchanged" if want_exc else "")
        elif want_ret is not None and ret != want_ret:
            why = f"returns {ret!r}; the child now sits at index {want_ret}"
        else:
            for c in p["_children"]:
                if c.get("_parent") is not p:
                    why = f"lists {_order(n, {'_children': [c]})[0]} whose parent link does not name p"
                    break
        rep.oblige(("R8", q, repr(args)), why is None, sample={"edit": what, "children after": got_order, "returned": ret if isinstance(ret, int) else None})
        if why is not None:
            broken.add(q)
            rep.add("R8", fi.qname, what, f"{what} {why}", fi.loc())
