"""Abstract instances of Node for the fold-over-classes rules (C06-R7, C12-R6): a dict of the private fields plus the class
name, so that sa/peval.py folds the class's own properties, setters and methods on it.  Nothing of the repository is imported."""
from __future__ import annotations

from ..types import NODE_Q

FIELDS = ("_name", "_content", "_tail", "_attributes", "_nsmap", "_prefix", "_extras")


def mkc(name, content=None, children=(), attributes=None, tail=None, nsmap=None, prefix=None, extras=None, id=None, share_nsmap=False):
    """share_nsmap: the children whose map equals this node's get the very same dict object (what add_child does)"""
    d = {"__obj__": True, "__class__": NODE_Q, "_id": id, "_name": name, "_parent": None, "_content": content, "_tail": tail,
         "_attributes": dict(attributes or {}), "_nsmap": dict(nsmap or {}), "_prefix": prefix, "_extras": dict(extras or {}), "_children": list(children)}
    for c in d["_children"]:
        c["_parent"] = d
        if share_nsmap and c["_nsmap"] == d["_nsmap"]:
            share(c, c["_nsmap"], d["_nsmap"])
    return d


def share(n, old, new):
    if n["_nsmap"] is old:
        n["_nsmap"] = new
        for c in n["_children"]:
            share(c, old, new)


def number(root, prefix="n"):
    """ids in document order"""
    k = [0]

    def go(n):
        k[0] += 1
        if n["_id"] is None:
            n["_id"] = f"{prefix}{k[0]}"
        for c in n["_children"]:
            go(c)
    go(root)
    return root


def nodes(root):
    out = [root]
    for c in root["_children"]:
        out.extend(nodes(c))
    return out


def is_node(v):
    return isinstance(v, dict) and isinstance(v.get("__obj__"), bool) and "_children" in v


def diff(a, b, path="", ids=False):
    """first difference in the state the properties speak of, or None"""
    if not is_node(b):
        return f"{path or '/'}: not a node ({str(b)[:40]})"
    here = f"{path}/{a['_name']}"
    for f in FIELDS:
        if a.get(f) != b.get(f):
            return f"{here}: {f[1:]} {a.get(f)!r} became {b.get(f)!r}"
        if type(a.get(f)) is not type(b.get(f)):
            return f"{here}: {f[1:]} {a.get(f)!r} became {b.get(f)!r} ({type(b.get(f)).__name__})"
    if ids and a.get("_id") != b.get("_id"):
        return f"{here}: id {a.get('_id')!r} became {b.get('_id')!r}"
    ka, kb = a["_children"], b.get("_children")
    if not isinstance(kb, list):
        return f"{here}: children became {str(kb)[:40]}"
    if len(ka) != len(kb):
        return f"{here}: children ({', '.join(c['_name'] for c in ka)}) became ({', '.join(str(c.get('_name')) if is_node(c) else '?' for c in kb)})"
    for x, y in zip(ka, kb):
        d = diff(x, y, here, ids)
        if d:
            return d
        if y.get("_parent") is not b:
            return f"{here}/{x['_name']}: parent link does not name the node that lists it"
    return None


def catalogue():
    """(description, builder): one tree per class of what a codec / copy can observe -- None vs empty vs filled fields, no / some children,
    nesting, a namespace map shared down the tree, a child binding of its own"""
    ns = {"eml": "https://eml.ecoinformatics.org/eml-2.2.0", "xsi": "http://www.w3.org/2001/XMLSchema-instance"}
    ns2 = dict(ns, p="urn:p")
    return [
        ("a bare leaf", lambda: mkc("title")),
        ("a leaf with every field filled", lambda: mkc("title", "some text", (), {"lang": "en", "id": "t1"}, " tail ", ns, "eml", {"xsi:type": "x"})),
        ("a leaf with empty text and tail", lambda: mkc("title", "", tail="")),
        ("a leaf with text only", lambda: mkc("title", "some text")),
        ("a leaf with an empty attribute value and an empty qualified attribute", lambda: mkc("title", "t", (), {"lang": "", "id": "t1"}, None, ns, None, {"xsi:nil": ""})),
        ("a leaf with a tail only", lambda: mkc("br", tail="after")),
        ("a leaf whose text and tail are a single blank", lambda: mkc("emphasis", " ", tail=" ")),
        ("a leaf with a prefix and bindings", lambda: mkc("eml", None, (), None, None, ns, "eml")),
        ("a leaf with qualified attributes", lambda: mkc("a", None, (), None, None, ns, None, {"xsi:schemaLocation": "u v", "xsi:nil": "true"})),
        ("two children", lambda: mkc("dataset", None, [mkc("title", "t"), mkc("abstract", "x", attributes={"k": "v"})])),
        ("text and children with tails", lambda: mkc("para", "head ", [mkc("emphasis", "bold", tail=" mid "), mkc("br", tail=" end")])),
        ("three levels, one shared namespace map", lambda: mkc("eml", None, [mkc("dataset", None, [mkc("title", "t", nsmap=ns), mkc("creator", None, [mkc("surName", "S", nsmap=ns)], nsmap=ns)],
                                                                           {"id": "d"}, nsmap=ns, share_nsmap=True)], {"packageId": "p.1.1"}, None, ns, "eml", share_nsmap=True)),
        ("a child with a binding of its own", lambda: mkc("a", None, [mkc("b", "x", nsmap=ns2, prefix="p"), mkc("c", "y", nsmap=ns)], nsmap=ns, share_nsmap=True)),
        ("a child lacking a prefix its parent binds", lambda: mkc("a", None, [mkc("b", "x", nsmap={"eml": ns["eml"]}), mkc("c", "y", nsmap={})], nsmap=ns)),
        ("a prefix re-bound two levels below the element that declares it",
         lambda: mkc("a", None, [mkc("b", None, [mkc("c", "x", nsmap=dict(ns, eml="urn:other"))], nsmap=ns)], nsmap=ns, share_nsmap=True)),
        ("a qualified attribute kept in Clark notation", lambda: mkc("a", None, (), None, None, ns, None, {"{http://www.w3.org/2001/XMLSchema-instance}nil": "true"})),
        ("attribute values that are not strings", lambda: mkc("title", "t", (), {"count": 3, "flag": True, "ratio": 0.5, "nothing": None})),
        ("same-named siblings in order", lambda: mkc("keywordSet", None, [mkc("keyword", "k1"), mkc("keyword", "k2"), mkc("keyword", "k3"), mkc("keywordThesaurus", "t")])),
    ]
