"""C13-R4 -- the namespace operations folded over small forests.

add_namespace / remove_namespace / add_child look at three things: whether a prefix is in a node's map, whether its value
equals the one given, and whether two nodes' maps are the *same object* (the copy-on-write test).  They are folded
(sa/peval.py) on the tree r(p(c1(g1), c2), s) plus an unrelated node u under each sharing pattern -- one map object shared by
everybody, one object per node, a private extended map for the c1 subtree -- and the bindings seen on every node afterwards
(by value) are compared with the statement of the property: the operation's effect inside the subtree it was applied to, and
nothing at all outside it."""
from __future__ import annotations

import copy as _copy

from ..peval import Opaque, PEval, PEvalUnsupported, Raised
from .worlds import mkc, number

KEYS = ("r", "p", "c1", "g1", "c2", "s", "u")
SUB = {"r": ("r", "p", "c1", "g1", "c2", "s"), "p": ("p", "c1", "g1", "c2"), "c1": ("c1", "g1"), "g1": ("g1",), "c2": ("c2",), "s": ("s",)}


def forest(pattern):
    base = {"e": "E", "f": "F"}
    n = {}
    n["g1"] = mkc("g1")
    n["c1"] = mkc("c1", None, [n["g1"]])
    n["c2"] = mkc("c2")
    n["p"] = mkc("p", None, [n["c1"], n["c2"]])
    n["s"] = mkc("s")
    n["r"] = mkc("r", None, [n["p"], n["s"]])
    n["u"] = mkc("u")
    number(n["r"])
    n["u"]["_id"] = "u"
    if pattern == "one shared map":
        m = dict(base)
        for k in KEYS:
            n[k]["_nsmap"] = m
    elif pattern == "a map per node":
        for k in KEYS:
            n[k]["_nsmap"] = dict(base)
    elif pattern == "c1 subtree extended":
        m = dict(base)
        for k in KEYS:
            n[k]["_nsmap"] = m
        m2 = dict(base, x="X0")
        n["c1"]["_nsmap"] = m2
        n["g1"]["_nsmap"] = m2
    elif pattern == "a descendant re-binds one prefix and another lacks it":
        m = dict(base)
        for k in KEYS:
            n[k]["_nsmap"] = m
        m2 = dict(base, e="OTHER")
        n["c1"]["_nsmap"] = m2
        n["g1"]["_nsmap"] = m2
        n["c2"]["_nsmap"] = {"f": "F"}
    elif pattern == "empty maps, shared":
        m = {}
        for k in KEYS:
            n[k]["_nsmap"] = m
    return n


def snapshot(n):
    return {k: dict(n[k]["_nsmap"]) for k in KEYS}


def rule_r4(ctx, rep):
    w = ctx.world
    ci = w.nm.ci
    f_add, f_rm, f_att = (w.lookup_method(ci, q) for q in ("add_namespace", "remove_namespace", "add_child"))
    ops = []
    for target in ("p", "c1", "c2", "r"):
        ops += [("add_namespace", target, ("x", "X")), ("add_namespace", target, ("e", "E2")), ("add_namespace", target, ("e", "E")),
                ("remove_namespace", target, ("e",)), ("remove_namespace", target, ("zz",)), ("remove_namespace", target, ("x",))]
    broken = set()
    for pattern in ("one shared map", "a map per node", "c1 subtree extended", "empty maps, shared", "a descendant re-binds one prefix and another lacks it"):
        for (q, target, args) in ops:
            fi = f_add if q == "add_namespace" else f_rm
            if fi is None or q in broken:
                continue
            n = forest(pattern)
            before = snapshot(n)
            want = _copy.deepcopy(before)
            for k in SUB[target]:
                if q == "add_namespace":
                    want[k][args[0]] = args[1]
                else:
                    want[k].pop(args[0], None)
            what = f"{target}.{q}({', '.join(map(repr, args))}) on r(p(c1(g1), c2), s) with {pattern}"
            pe = PEval(w)
            try:
                pe.call(fi, [n[target]] + list(args))
            except Raised as r:
                rep.count("namespace verdicts")
                rep.oblige(("R4", q, target, args, pattern), False)
                rep.add("R4", fi.qname, what, f"{what} raises {r.cls}", fi.loc())
                broken.add(q)
                continue
            except PEvalUnsupported as ex:
                rep.notes.append(f"{fi.qname} not folded for {what}: {ex}")
                broken.add(q)
                continue
            got = snapshot(n)
            rep.count("namespace verdicts")
            bad = next((k for k in KEYS if got[k] != want[k]), None)
            rep.oblige(("R4", q, target, args, pattern), bad is None, sample={"operation": what})
            if bad is not None:
                inside = bad in SUB[target]
                rep.add("R4", fi.qname, what, f"{what}: node {bad} ({'inside' if inside else 'OUTSIDE'} the subtree of {target}) then sees {got[bad]}; "
                        f"the property gives {want[bad]}" + ("" if inside else " -- no namespace operation may change what a node outside the subtree sees"), fi.loc())
                broken.add(q)
    # attaching: every prefix of the parent becomes visible in the child (and below), the child's own bindings win, nobody else changes
    if f_att is not None:
        for pattern in ("one shared map", "a map per node", "c1 subtree extended"):
            for (cmap, gmap, label) in (({}, {}, "no bindings"), ({"e": "OWN"}, {"e": "OWN"}, "its own binding for e"), ({"e": "E", "f": "F"}, {"e": "E", "f": "F"}, "the same bindings"),
                                        ({"y": "Y"}, {"y": "Y", "z": "Z"}, "other bindings, more of them below")):
                n = forest(pattern)
                kid_g = mkc("kg", nsmap=gmap, id="kg")
                kid = mkc("k", None, [kid_g], nsmap=cmap, id="k")
                if cmap == gmap:
                    kid_g["_nsmap"] = kid["_nsmap"]
                before = snapshot(n)
                parent_map = dict(n["c2"]["_nsmap"])
                want_k = dict(parent_map)
                want_k.update(cmap)
                want_g = dict(parent_map)
                want_g.update(gmap)
                what = f"c2.add_child(k(kg)) where k carries {label}, on r(p(c1(g1), c2), s) with {pattern}"
                pe = PEval(w)
                try:
                    pe.call(f_att, [n["c2"], kid])
                except Raised as r:
                    rep.count("namespace verdicts")
                    rep.oblige(("R4", "attach", label, pattern), False)
                    rep.add("R4", f_att.qname, what, f"{what} raises {r.cls}", f_att.loc())
                    break
                except PEvalUnsupported as ex:
                    rep.notes.append(f"{f_att.qname} not folded for {what}: {ex}")
                    break
                rep.count("namespace verdicts")
                got = snapshot(n)
                why = None
                bad = next((k for k in KEYS if got[k] != before[k]), None)
                if bad is not None:
                    why = f"node {bad}, which is not below the attached child, then sees {got[bad]} instead of {before[bad]}"
                elif dict(kid["_nsmap"]) != want_k:
                    why = f"the attached child then sees {dict(kid['_nsmap'])}; every prefix of the parent visible and its own bindings winning gives {want_k}"
                elif dict(kid_g["_nsmap"]) != want_g:
                    why = f"the node below the attached child then sees {dict(kid_g['_nsmap'])}; the property gives {want_g}"
                rep.oblige(("R4", "attach", label, pattern), why is None, sample={"operation": what})
                if why is not None:
                    rep.add("R4", f_att.qname, what, f"{what}: {why}", f_att.loc())
                    break
