"""C05 -- whole-tree validation is the conjunction of node validations; metadata is opaque."""
from __future__ import annotations

import ast

from ..marks import MarkDomain, may_at, must_at, run_marks
from ..model import UNKNOWN, AnalysisError, norm
from ..valslice import ENTRY, mode_params, reachable

TREE = "metapype.eml.validate.tree"
NODE = "metapype.eml.validate.node"
PRUNE = "metapype.eml.validate.prune"


def meta_value(ctx):
    prog = ctx.prog
    v = prog.const(prog.module("metapype.eml.names"), ast.Name(id="METADATA", ctx=ast.Load()))
    if not isinstance(v, str):
        raise AnalysisError("anchor vanished: names.METADATA does not fold to a string")
    return v


def meta_tests(ctx, fi, meta):
    """Compare nodes `<x>.name ==/!= <const == meta>`; returns list of (compare, subject_path, eq)"""
    out = []
    for n in ast.walk(fi.node):
        if isinstance(n, ast.Compare) and len(n.ops) == 1 and isinstance(n.ops[0], (ast.Eq, ast.NotEq)):
            l, r = n.left, n.comparators[0]
            for a, b in ((l, r), (r, l)):
                if isinstance(a, ast.Attribute) and a.attr in ("name", "_name") and ctx.prog.const(fi.module, b) == meta:
                    out.append((n, norm(a.value), isinstance(n.ops[0], ast.Eq)))
    return out


def name_tests_other(ctx, fi, meta):
    """comparisons of a node name with a *different* constant or a non-folding value (candidates for a wrong cut-off)"""
    out = []
    for n in ast.walk(fi.node):
        if isinstance(n, ast.Compare) and len(n.ops) == 1 and isinstance(n.ops[0], (ast.Eq, ast.NotEq)):
            l, r = n.left, n.comparators[0]
            for a, b in ((l, r), (r, l)):
                if isinstance(a, ast.Attribute) and a.attr in ("name", "_name"):
                    v = ctx.prog.const(fi.module, b)
                    if isinstance(v, str) and v != meta:
                        out.append((n, v))
    return out


ORDER_PRESERVING = ("list", "tuple", "iter")


def children_owner(e):
    """if ``e`` denotes X.children or an order-preserving snapshot of it, return (X expr, how)"""
    if isinstance(e, ast.Attribute) and e.attr in ("children", "_children"):
        return e.value, "direct"
    if isinstance(e, ast.Call):
        f = e.func
        if isinstance(f, ast.Name) and f.id in ORDER_PRESERVING and len(e.args) == 1:
            r = children_owner(e.args[0])
            return (r[0], f"{f.id}()") if r else None
        if isinstance(f, ast.Attribute) and f.attr == "copy" and not e.args:
            r = children_owner(f.value)
            return (r[0], "copy()") if r else None
    if isinstance(e, ast.Subscript) and isinstance(e.slice, ast.Slice) and e.slice.lower is None and e.slice.upper is None and e.slice.step is None:
        r = children_owner(e.value)
        return (r[0], "[:]") if r else None
    return None


def worklist_form(fi, nparam):
    """the explicit-stack form of the walk: W = [n]; while W: cur = W.pop(); ...; W.extend(reversed(cur.children)).
    Returns dict(loop, work, cur, pops=[(call, kind)], pushes=[(stmt, owner expr, reversed?)]) or None"""
    work = None
    for a in ast.walk(fi.node):
        if isinstance(a, ast.Assign) and len(a.targets) == 1 and isinstance(a.targets[0], ast.Name):
            v = a.value
            if isinstance(v, ast.Call) and isinstance(v.func, (ast.Name, ast.Attribute)) and norm(v.func) in ("deque", "collections.deque", "list") and len(v.args) == 1:
                v = v.args[0]
            if isinstance(v, (ast.List, ast.Tuple)) and len(v.elts) == 1 and isinstance(v.elts[0], ast.Name) and v.elts[0].id == nparam:
                work = a.targets[0].id
    if work is None:
        return None
    loop = None
    for lp in ast.walk(fi.node):
        if isinstance(lp, ast.While):
            t = lp.test
            if (isinstance(t, ast.Name) and t.id == work) or (isinstance(t, ast.Compare) and work in norm(t) and "len(" in norm(t)):
                loop = lp
    if loop is None:
        return None
    pops, pushes, cur = [], [], None
    for n in ast.walk(loop):
        if isinstance(n, ast.Call) and isinstance(n.func, ast.Attribute) and isinstance(n.func.value, ast.Name) and n.func.value.id == work:
            m = n.func.attr
            if m in ("pop", "popleft"):
                # which end the next node is taken from
                side = "R"
                if m == "popleft" or (n.args and not (isinstance(n.args[0], ast.UnaryOp) and isinstance(n.args[0].op, ast.USub))):
                    side = "L"
                pops.append((n, side))
            elif m in ("extend", "append", "appendleft", "extendleft", "insert"):
                pushes.append(n)
    for a in ast.walk(loop):
        if isinstance(a, ast.Assign) and len(a.targets) == 1 and isinstance(a.targets[0], ast.Name) and any(a.value is p for p, _ in pops):
            cur = a.targets[0].id
        if isinstance(a, ast.AugAssign) and isinstance(a.target, ast.Name) and a.target.id == work:
            pushes.append(a)
    # a work list is a stack when nodes are taken from the end they are put on (extend/append <-> pop(), extendleft/appendleft
    # <-> popleft()); extendleft puts the elements on one by one, so like extend it leaves the LAST element of its argument next
    def push_side(p_):
        if isinstance(p_, ast.AugAssign):
            return "R"
        return "L" if p_.func.attr in ("appendleft", "extendleft") or (p_.func.attr == "insert" and p_.args and norm(p_.args[0]) == "0") else "R"
    pops = [(c, "lifo" if all(push_side(p_) == side for p_ in pushes) else "fifo") for (c, side) in pops]
    return {"loop": loop, "work": work, "cur": cur, "pops": pops, "pushes": pushes}


def check_worklist(ctx, rep, fi, wl, node_calls, nparam, mp, meta):
    w = ctx.world
    ft = w.types(fi)
    lp, cur = wl["loop"], wl["cur"]
    rep.count("descent loops")
    rep.count("anchors in validate.tree", len(node_calls) + 1)
    if cur is None or len(wl["pops"]) != 1:
        rep.add("R1", fi.qname, lp.test, "work-list walk: the node taken from the work list is not bound exactly once per round", fi.loc(lp))
        return
    pop, kind = wl["pops"][0]
    own = []
    for c in node_calls:
        am = w.arg_map(w.resolve_call(ft, c)[0], c)
        vals = list(am.values())
        if any(isinstance(a, ast.Name) and a.id == cur for a in vals) and any(isinstance(a, ast.Name) and a.id == mp for a in vals) and any(x is c for x in ast.walk(lp)):
            own.append(c)
    rep.oblige(("R1", "node-call"), bool(own))
    if not own:
        rep.add("R1", fi.qname, "node(n, errs)", "the tree walk does not validate the node it takes from the work list with the caller's error list", fi.loc(lp))
        return
    bad = [x for x in ast.walk(lp) if isinstance(x, (ast.Break, ast.Continue, ast.Return, ast.Try))]
    rep.oblige(("R1", "no-exit", "worklist"), not bad)
    if bad:
        rep.add("R1", fi.qname, bad[0], f"`{type(bad[0]).__name__.lower()}` inside the work-list loop: some nodes may not be validated", fi.loc(bad[0]))
    # what is pushed: all children of the current node, reversed for a LIFO list (pre-order, document order)
    def pushed(e):
        """(owner expr, reversed?) of the pushed sequence"""
        rev = False
        if isinstance(e, ast.Call) and isinstance(e.func, ast.Name) and e.func.id == "reversed" and len(e.args) == 1:
            rev, e = True, e.args[0]
        elif isinstance(e, ast.Subscript) and isinstance(e.slice, ast.Slice) and e.slice.lower is None and e.slice.upper is None \
                and isinstance(e.slice.step, ast.UnaryOp) and isinstance(e.slice.step.op, ast.USub) and norm(e.slice.step.operand) == "1":
            rev, e = True, e.value
        r = children_owner(e)
        return (r[0], rev) if r else None
    pushes = wl["pushes"]
    if len(pushes) != 1:
        rep.add("R1", fi.qname, lp.test, f"work-list walk with {len(pushes)} push sites: coverage and order of the children cannot be established", fi.loc(lp))
        return
    p = pushes[0]
    seq = p.value if isinstance(p, ast.AugAssign) else (p.args[0] if p.args and p.func.attr in ("extend", "extendleft") else None)
    r = pushed(seq) if seq is not None else None
    ok = r is not None and isinstance(r[0], ast.Name) and r[0].id == cur
    rep.oblige(("R1", "iterable", "worklist"), ok)
    if not ok:
        rep.add("R1", fi.qname, p, f"the work list is not extended by all children of `{cur}`", fi.loc(p))
        return
    ok = (kind == "lifo" and r[1])
    rep.oblige(("R1", "order", "worklist"), ok)
    if not ok:
        rep.add("R1", fi.qname, pop, "the work list is not a stack refilled with the children in reverse: nodes are not visited in document order "
                "(pre-order), so the collected errors come out in a different order and fail-fast mode raises a different error", fi.loc(pop))
    # dominance: node call before the push, push only on the non-metadata side, by marker dataflow
    mts = [m for m in meta_tests(ctx, fi, meta) if m[1] == cur]
    if not mts:
        rep.oblige(("R1", "cut-off"), False)
        rep.add("R1", fi.qname, "metadata cut-off", f"no test of `{cur}.name` against names.METADATA guards the descent: content below a "
                f"metadata element would influence the outcome", fi.loc(lp))
        return
    dom = MarkDomain()
    for (cmp_, subj, eq) in mts:
        dom.mark_test(cmp_, if_true=["META"] if eq else ["NONMETA"], if_false=["NONMETA"] if eq else ["META"])
    for c in own:
        dom.mark(c, "NODECALL")
    dom.mark(pop, "POP")
    dom.probe(p if isinstance(p, ast.Call) else p.value)
    run_marks(ctx, fi, dom)
    must = must_at(dom, p if isinstance(p, ast.Call) else p.value) or frozenset()
    rep.count("recursive calls")
    ok = "NODECALL" in must and "NONMETA" in must
    rep.oblige(("R1", "dominance", "worklist"), ok)
    if "NODECALL" not in must:
        rep.add("R1", fi.qname, p, "the node's own validation does not precede the descent on every path", fi.loc(p))
    if "NONMETA" not in must:
        rep.add("R1", fi.qname, p, "the descent is reachable for a metadata element: content below metadata influences the outcome", fi.loc(p))
    # the push is unconditional apart from the metadata test
    from ..condeval import enclosing_ifs
    gs = [g for (g, b) in enclosing_ifs(fi, p if not isinstance(p, ast.Call) else next(s for s in ast.walk(lp) if isinstance(s, ast.Expr) and s.value is p))
          if any(x is g for x in ast.walk(lp))]
    extra = [g for g in gs if not any(g.test is m[0] or any(x is m[0] for x in ast.walk(g.test)) for m in mts)]
    rep.oblige(("R1", "unconditional", "worklist"), not extra)
    if extra:
        rep.add("R1", fi.qname, extra[0].test, "the descent depends on a test other than the metadata cut-off: some children are skipped", fi.loc(extra[0]))


def rule_r1(ctx, rep):
    prog = ctx.prog
    w = ctx.world
    fi = prog.func(TREE)
    rep.touch(fi)
    ft = w.types(fi)
    meta = meta_value(ctx)
    mp = mode_params(ctx, reachable(ctx, [fi])).get(fi.qname)
    if mp is None:
        raise AnalysisError("anchor vanished: validate.tree has no error-list parameter")
    nparam = [p for p in fi.params if p != mp]
    if len(nparam) != 1:
        raise AnalysisError("validate.tree: cannot single out the node parameter")
    nparam = nparam[0]
    node_calls, rec_calls = [], []
    for n in ast.walk(fi.node):
        if isinstance(n, ast.Call):
            for tg in w.resolve_call(ft, n):
                if tg.func is not None and tg.func.qname == NODE:
                    node_calls.append(n)
                if tg.func is not None and tg.func.qname == TREE:
                    rec_calls.append(n)
    if not rec_calls:
        wl = worklist_form(fi, nparam)
        if wl is not None:
            check_worklist(ctx, rep, fi, wl, node_calls, nparam, mp, meta)
            rep.floor("anchors in validate.tree", 2)
            rep.floor("descent loops", 1)
            return
    rep.count("anchors in validate.tree", len(node_calls) + len(rec_calls))
    tries = [t for t in ast.walk(fi.node) if isinstance(t, ast.Try)]
    own = []
    for c in node_calls:
        am = w.arg_map(w.resolve_call(ft, c)[0], c)
        vals = list(am.values())
        if any(isinstance(a, ast.Name) and a.id == nparam for a in vals) and any(isinstance(a, ast.Name) and a.id == mp for a in vals):
            own.append(c)
    rep.oblige(("R1", "node-call"), bool(own))
    if not own:
        rep.add("R1", fi.qname, "node(n, errs)", "the tree walk does not validate its own node with the caller's error list", fi.loc())
        return
    for c in own:
        if any(any(x is c for x in ast.walk(t)) for t in tries):
            rep.add("R1", fi.qname, c, "the node validation is wrapped in a try: an error of this node may be swallowed", fi.loc(c))
    if not rec_calls:
        rep.oblige(("R1", "recursion"), False)
        rep.add("R1", fi.qname, "recursive descent", "validate.tree never descends into the children", fi.loc())
        return
    mts = [m for m in meta_tests(ctx, fi, meta) if m[1] == nparam]
    others = name_tests_other(ctx, fi, meta)
    loops = [n for n in ast.walk(fi.node) if isinstance(n, (ast.For, ast.While)) and any(any(x is r for x in ast.walk(n)) for r in rec_calls)]
    comps = [n for n in ast.walk(fi.node) if isinstance(n, (ast.ListComp, ast.GeneratorExp, ast.SetComp)) and any(any(x is r for x in ast.walk(n)) for r in rec_calls)]
    if comps:
        raise AnalysisError(f"{fi.loc(comps[0])}: recursion inside a comprehension is an idiom the rule was not taught")
    # ---- loop shape
    for lp in loops:
        rep.count("descent loops")
        if isinstance(lp, ast.While):
            rep.add("R1", fi.qname, lp.test, "descent by a while loop: coverage and order of the children cannot be established", fi.loc(lp))
            continue
        it = lp.iter
        tgt = lp.target
        elem = tgt.id if isinstance(tgt, ast.Name) else None
        if isinstance(it, ast.Call) and isinstance(it.func, ast.Name) and it.func.id == "enumerate" and it.args and isinstance(tgt, ast.Tuple) and len(tgt.elts) == 2:
            it = it.args[0]
            elem = tgt.elts[1].id if isinstance(tgt.elts[1], ast.Name) else None
        own_it = children_owner(it)
        if own_it is None and isinstance(it, ast.Name):
            # a local snapshot: v = <order-preserving snapshot of n.children>
            for a in ast.walk(fi.node):
                if isinstance(a, ast.Assign) and len(a.targets) == 1 and isinstance(a.targets[0], ast.Name) and a.targets[0].id == it.id:
                    own_it = children_owner(a.value)
        ok = own_it is not None and isinstance(own_it[0], ast.Name) and own_it[0].id == nparam
        rep.oblige(("R1", "iterable", norm(lp.iter)), ok)
        if not ok:
            rep.add("R1", fi.qname, lp.iter, f"the descent ranges over `{norm(lp.iter)}`, not over all children of `{nparam}` in document order "
                    f"(slices, filters, reversed/sorted are not order-preserving full snapshots)", fi.loc(lp))
        bad = [x for x in ast.walk(lp) if isinstance(x, (ast.Break, ast.Continue, ast.Return, ast.Try))]
        rep.oblige(("R1", "no-exit", norm(lp.iter)), not bad)
        if bad:
            rep.add("R1", fi.qname, bad[0], f"`{type(bad[0]).__name__.lower()}` inside the descent loop: some children may not be validated "
                    f"(or their errors swallowed)", fi.loc(bad[0]))
        top = [s for s in lp.body if any(any(x is r for x in ast.walk(s)) for r in rec_calls)]
        nested = [s for s in top if not isinstance(s, ast.Expr)]
        rep.oblige(("R1", "unconditional", norm(lp.iter)), not nested)
        if nested:
            rep.add("R1", fi.qname, nested[0].test if isinstance(nested[0], (ast.If, ast.While)) else nested[0],
                    "the recursive call is conditional inside the loop: some children are skipped", fi.loc(nested[0]))
        for r in rec_calls:
            if not any(x is r for x in ast.walk(lp)):
                continue
            am = w.arg_map(w.resolve_call(ft, r)[0], r)
            a_n, a_e = am.get(nparam), am.get(mp)
            ok = isinstance(a_n, ast.Name) and a_n.id == elem and isinstance(a_e, ast.Name) and a_e.id == mp
            rep.oblige(("R1", "rec-args", norm(r)), ok)
            if not ok:
                rep.add("R1", fi.qname, r, "the recursive call does not pass the loop's child and the caller's own error list "
                        "(the tree's error list would not be the concatenation of the per-node lists)", fi.loc(r))
    for r in rec_calls:
        if not any(any(x is r for x in ast.walk(lp)) for lp in loops):
            rep.add("R1", fi.qname, r, "recursive call outside a loop over the children", fi.loc(r))
    # ---- dominance / cut-off by marker dataflow
    if not mts:
        rep.oblige(("R1", "cut-off"), False)
        rep.add("R1", fi.qname, "metadata cut-off", f"no test of `{nparam}.name` against names.METADATA guards the descent: content below a "
                f"metadata element would influence the outcome", fi.loc())
        if others:
            rep.add("R1", fi.qname, others[0][0], f"the descent is cut off at '{others[0][1]}', not at names.METADATA ('{meta}')", fi.loc(others[0][0]))
        return
    for pass_ in ("all", "nonmeta"):
        dom = MarkDomain()
        for (cmp_, subj, eq) in mts:
            dom.mark_test(cmp_, if_true=["META"] if eq else ["NONMETA"], if_false=["NONMETA"] if eq else ["META"])
            if pass_ == "nonmeta":
                dom.infeasible[id(cmp_)] = True if eq else False
        for c in own:
            dom.mark(c, "NODECALL")
        for lp in loops:
            if isinstance(lp, ast.For):
                dom.mark(lp.iter, "LOOP")
        for r in rec_calls:
            dom.probe(r)
        flow, exits = run_marks(ctx, fi, dom)
        if pass_ == "all":
            for r in rec_calls:
                must = must_at(dom, r) or frozenset()
                rep.count("recursive calls")
                ok = "NODECALL" in must and "NONMETA" in must
                rep.oblige(("R1", "dominance", norm(r)), ok)
                if "NODECALL" not in must:
                    rep.add("R1", fi.qname, r, "the node's own validation does not precede the descent on every path (document order of "
                            "the collected errors / parent-before-child is lost)", fi.loc(r))
                if "NONMETA" not in must:
                    rep.add("R1", fi.qname, r, "the descent is reachable for a metadata element: content below metadata influences the outcome", fi.loc(r))
        else:
            for i, (must, may) in enumerate(exits):
                rep.count("non-metadata exits of validate.tree")
                ok = "LOOP" in must and "NODECALL" in must
                rep.oblige(("R1", "exit", i), ok)
                if not ok:
                    rep.add("R1", fi.qname, "path skipping the descent", "some path for a non-metadata node returns without validating the node "
                            "and descending into all of its children (the walk depends on a test other than the metadata cut-off)", fi.loc())
    rep.floor("anchors in validate.tree", 2)
    rep.floor("descent loops", 1)


def rule_r2(ctx, rep):
    prog = ctx.prog
    meta = meta_value(ctx)
    T = ctx.tables
    rep.count("metadata constant sites")
    ok = meta in T.mapping
    rep.oblige(("R2", "mapped"), ok)
    if not ok:
        rep.add("R2", "node_mappings", f"'{meta}'", "names.METADATA is not a known element", "")
    for q in (TREE, "metapype.eml.rule.Rule._validate_children", PRUNE):
        fi = prog.func(q)
        rep.touch(fi)
        mts = meta_tests(ctx, fi, meta)
        # the test must be about the node the function works on, not about a neighbour of it
        if q == "metapype.eml.rule.Rule._validate_children":
            subjects = {f"{fi.params[0]}._node", fi.params[1]}
        else:
            subjects = {fi.params[0]}
            if q == TREE:
                wl = worklist_form(fi, fi.params[0])
                if wl is not None and wl["cur"]:
                    subjects.add(wl["cur"])
        wrong = [m for m in mts if m[1] not in subjects]
        mts = [m for m in mts if m[1] in subjects]
        if wrong and not mts:
            rep.count("metadata constant sites")
            rep.oblige(("R2", q, "subject"), False)
            rep.add("R2", q, wrong[0][0], f"the metadata test inspects `{wrong[0][1]}`, not the node {fi.name} works on: the metadata element itself "
                    f"is treated like an ordinary node and its free-form content is judged by its rule", fi.loc(wrong[0][0]))
            continue
        rep.count("metadata constant sites")
        rep.oblige(("R2", q), bool(mts))
        if not mts:
            oth = name_tests_other(ctx, fi, meta)
            rep.add("R2", q, oth[0][0] if oth else "metadata test",
                    f"no test of a node name against names.METADATA ('{meta}')" + (f"; the name is compared with '{oth[0][1]}' instead" if oth else ""),
                    fi.loc(oth[0][0]) if oth else fi.loc())
    rep.floor("metadata constant sites", 3)


def rule_r3(ctx, rep):
    """in single-node validation the children of the validated node are only dereferenced on the non-metadata side"""
    prog = ctx.prog
    w = ctx.world
    meta = meta_value(ctx)
    sl = reachable(ctx, [prog.func(NODE)])
    for fi in sl:
        if fi.module.name.startswith("metapype.model"):
            continue  # Node's own queries are not validators
        ft = w.types(fi)
        accesses = []
        for n in ast.walk(fi.node):
            it = None
            if isinstance(n, (ast.For, ast.comprehension)):
                it = n.iter
            elif isinstance(n, ast.Subscript) and not isinstance(n.slice, ast.Slice):
                it = n.value
                if not (isinstance(it, ast.Attribute) and it.attr in ("children", "_children")):
                    it = None
            elif isinstance(n, ast.Call) and isinstance(n.func, ast.Attribute) and n.func.attr.startswith("find_") and ft.type_of(n.func.value) in ("Node", "OptNode"):
                accesses.append((n, n.func.value))
                continue
            if it is not None:
                r = children_owner(it) if not isinstance(n, ast.Subscript) else (it.value, "subscript")
                if r and ft.type_of(r[0]) in ("Node", "OptNode", None) and isinstance(it if isinstance(n, ast.Subscript) else it, ast.AST):
                    if isinstance(n, ast.Subscript) or children_owner(it):
                        accesses.append((n.iter if not isinstance(n, ast.Subscript) else n, r[0]))
        if not accesses:
            continue
        rep.touch(fi)
        mts = meta_tests(ctx, fi, meta)
        dom = MarkDomain()
        for (cmp_, subj, eq) in mts:
            dom.mark_test(cmp_, if_true=[f"META:{subj}"] if eq else [f"NONMETA:{subj}"], if_false=[f"NONMETA:{subj}"] if eq else [f"META:{subj}"])
        for (node, owner) in accesses:
            dom.probe(node)
        run_marks(ctx, fi, dom)
        for (node, owner) in accesses:
            rep.count("child dereferences in node validation")
            must = must_at(dom, node)
            if must is None:
                continue
            ok = f"NONMETA:{norm(owner)}" in must
            rep.oblige(("R3", fi.qname, norm(node)), ok)
            if not ok:
                rep.add("R3", fi.qname, node, f"children of `{norm(owner)}` are inspected without a dominating test that it is not a metadata "
                        f"element: foreign content under metadata would influence node validation", fi.loc(node))
    rep.floor("child dereferences in node validation", 1)


def rule_r4(ctx, rep):
    """node verdicts are independent of earlier validations: the matcher object is built afresh for every node and
    nothing on the validation slice writes module- or class-level state"""
    prog = ctx.prog
    w = ctx.world
    fi = prog.func(NODE)
    ft = w.types(fi)
    # the object validate_rule is called on
    makers = []
    for n in ast.walk(fi.node):
        if isinstance(n, ast.Call) and isinstance(n.func, ast.Attribute) and n.func.attr == "validate_rule":
            recv = n.func.value
            if isinstance(recv, ast.Name):
                for a in ast.walk(fi.node):
                    if isinstance(a, ast.Assign) and any(isinstance(t, ast.Name) and t.id == recv.id for t in a.targets):
                        makers.append(a.value)
            else:
                makers.append(recv)
    rep.count("matcher objects used by validate.node", len(makers))

    def fresh(e, depth=0):
        if depth > 3 or not isinstance(e, ast.Call):
            return False, "is not a call that builds a Rule"
        for tg in w.resolve_call(ft if depth == 0 else w.types(cur[0]), e):
            if tg.kind == "class":
                return True, ""
            if tg.func is not None:
                if tg.func.node.decorator_list:
                    return False, f"{tg.func.qname} is decorated ({norm(tg.func.node.decorator_list[0])}): its result may be shared between calls"
                rets = [r for r in ast.walk(tg.func.node) if isinstance(r, ast.Return) and r.value is not None]
                if not rets:
                    return False, f"{tg.func.qname} returns nothing"
                cur[0] = tg.func
                for r in rets:
                    v = r.value
                    if isinstance(v, ast.Name):
                        defs = [a.value for a in ast.walk(tg.func.node) if isinstance(a, ast.Assign) and any(isinstance(t, ast.Name) and t.id == v.id for t in a.targets)]
                        if len(defs) != 1:
                            return False, f"{tg.func.qname} returns `{v.id}`, which is not bound once to a new Rule"
                        v = defs[0]
                    ok, why = fresh(v, depth + 1)
                    if not ok:
                        return False, why or f"{tg.func.qname} does not return a newly built Rule"
                return True, ""
        return False, "cannot be resolved"
    cur = [fi]
    for m in makers:
        cur[0] = fi
        ok, why = fresh(m)
        if ok:
            rep.oblige(("R4", "fresh", norm(m)), True)
            continue
        # a shared matcher object is fine as long as every field validation writes is reset before it is used
        rep.notes.append(f"the matcher object is not built afresh per node ({why}); checking the per-call reset discipline instead")
        from ..types import RULE_Q
        rci = prog.cls(RULE_Q)
        vr = rci.methods.get("validate_rule")
        slice_m = [f for f in reachable(ctx, [vr]) if f.cls is not None and f.cls.qname == RULE_Q and f.name != "__init__"]
        written = {}
        for f in slice_m:
            if not f.bound or not f.params:
                continue
            sp = f.params[0]
            for n in ast.walk(f.node):
                tg = None
                if isinstance(n, (ast.Assign, ast.AugAssign)):
                    for t in (n.targets if isinstance(n, ast.Assign) else [n.target]):
                        if isinstance(t, ast.Attribute) and isinstance(t.value, ast.Name) and t.value.id == sp:
                            tg = t.attr
                        if isinstance(t, ast.Subscript) and isinstance(t.value, ast.Attribute) and isinstance(t.value.value, ast.Name) and t.value.value.id == sp:
                            tg = t.value.attr
                if isinstance(n, ast.Call) and isinstance(n.func, ast.Attribute) and n.func.attr in ("append", "add", "update", "pop", "clear", "setdefault", "extend", "insert", "remove", "discard") \
                        and isinstance(n.func.value, ast.Attribute) and isinstance(n.func.value.value, ast.Name) and n.func.value.value.id == sp:
                    tg = n.func.value.attr
                if tg:
                    written.setdefault(tg, []).append((f, n))
        for fld, sites in sorted(written.items()):
            resetters = []
            for f in slice_m:
                if not f.bound or not f.params:
                    continue
                sp = f.params[0]
                for st_ in f.node.body:
                    if isinstance(st_, ast.Expr) and isinstance(st_.value, ast.Constant):
                        continue
                    if isinstance(st_, ast.Assign) and any(isinstance(t, ast.Attribute) and isinstance(t.value, ast.Name) and t.value.id == sp and t.attr == fld
                                                           for t in st_.targets) and not any(isinstance(x, ast.Attribute) and x.attr == fld and isinstance(x.ctx, ast.Load) for x in ast.walk(st_.value)):
                        resetters.append(f)
                        break
                    if any(isinstance(x, ast.Attribute) and x.attr == fld for x in ast.walk(st_)) or any(isinstance(x, ast.Call) for x in ast.walk(st_)) \
                            and not isinstance(st_, ast.Assign):
                        break
            okf = False
            for r in resetters:
                below = {g.qname for g in reachable(ctx, [r])}
                users = {f.qname for f in slice_m if any(isinstance(x, ast.Attribute) and x.attr == fld for x in ast.walk(f.node))}
                if users <= below:
                    okf = True
            rep.oblige(("R4", "reset", fld), okf)
            if not okf:
                f0, n0 = sites[0]
                rep.add("R4", f0.qname, n0, f"the matcher object is shared between validations ({why}) and its field `{fld}` is written during validation "
                        f"without being reset at the start of each one: the verdict on a node depends on what was validated before", f0.loc(n0))
    # no writes to module-level / class-level state on the validation slice
    sl = reachable(ctx, [prog.func(q) for q in ENTRY])
    for f in sl:
        f_t = w.types(f)
        f_locals = {x.id for x in ast.walk(f.node) if isinstance(x, ast.Name) and isinstance(x.ctx, ast.Store)} - \
            {g for x in ast.walk(f.node) if isinstance(x, ast.Global) for g in x.names}
        for n in ast.walk(f.node):
            tgt = None
            if isinstance(n, (ast.Assign, ast.AugAssign, ast.Delete)):
                for t in (n.targets if isinstance(n, (ast.Assign, ast.Delete)) else [n.target]):
                    if isinstance(t, ast.Subscript):
                        tgt = t.value
                    elif isinstance(t, ast.Attribute):
                        tgt = t
            if isinstance(n, ast.Call) and isinstance(n.func, ast.Attribute) and n.func.attr in ("append", "add", "update", "pop", "clear", "setdefault", "extend", "insert", "remove", "discard"):
                tgt = n.func.value
            if isinstance(n, ast.Global):
                rep.add("R4", f.qname, n, "validation rebinds a module-level name", f.loc(n))
            if tgt is None:
                continue
            rep.count("stores on the validation slice")
            r = prog.resolve_name_expr(f.module, tgt) if isinstance(tgt, (ast.Name, ast.Attribute)) else None
            shared = False
            if isinstance(tgt, ast.Name) and tgt.id in f_locals or (isinstance(tgt, ast.Name) and tgt.id in f.params):
                shared = False
            elif r and r[0] in ("const", "classattr"):
                shared = True
            elif isinstance(tgt, ast.Attribute) and isinstance(tgt.value, ast.Name) and tgt.value.id in ("cls",):
                shared = True
            elif isinstance(tgt, ast.Attribute) and isinstance(tgt.value, ast.Name) and tgt.value.id == "self" and f.cls is not None \
                    and tgt.attr in f.cls.class_attrs and not any(
                        isinstance(a, ast.Assign) and any(isinstance(t, ast.Attribute) and t.attr == tgt.attr and isinstance(t.value, ast.Name) and t.value.id == "self"
                                                          for t in a.targets) for m_ in f.cls.methods.values() for a in ast.walk(m_.node)):
                shared = True  # mutation of a class-level container through self
            if shared and isinstance(n, ast.Assign) and len(n.targets) == 1 and isinstance(n.targets[0], ast.Subscript):
                # a memo entry whose key determines the stored value does not make verdicts history dependent
                from ..memo import _param_deps
                _deps, dep_of = _param_deps(f)
                k_ = n.targets[0].slice
                bare = {x.id for x in ([k_] if isinstance(k_, ast.Name) else k_.elts if isinstance(k_, ast.Tuple) else []) if isinstance(x, ast.Name) and x.id in f.params}
                if bare and dep_of(n.value) <= bare:
                    rep.notes.append(f"{f.loc(n)}: memo entry `{norm(n)[:60]}` keyed by everything its value depends on -- not history dependent")
                    shared = False
            rep.oblige(("R4", "state", f.qname, norm(n)[:60]), not shared)
            if shared:
                rep.add("R4", f.qname, n, "validation writes module- or class-level state: the verdict on a node can depend on what was validated before",
                        f.loc(n))
    rep.floor("matcher objects used by validate.node", 1)
    rep.floor("stores on the validation slice", 5)


def rule_r5(ctx, rep):
    """the one thing validation does look at below a metadata element: it holds at most one child.  The maximum-occurrence report
    on the metadata side of single-node validation is evaluated for a metadata node with 0..3 children."""
    from ..condeval import guard_verdict
    from ..model import EnumMember
    from ..peval import PEval, PEvalUnsupported, Raised
    from ..valslice import report_sites
    prog = ctx.prog
    w = ctx.world
    meta = meta_value(ctx)
    sl = reachable(ctx, [prog.func(NODE)])
    mps = mode_params(ctx, sl)
    cands = []
    for fi in sl:
        if fi.qname not in mps or not meta_tests(ctx, fi, meta):
            continue
        pairs, _ = report_sites(ctx, fi, mps[fi.qname])
        for p in pairs:
            if isinstance(p.code, EnumMember) and p.code.member == "MAX_OCCURRENCE_EXCEEDED":
                cands.append((fi, p))
    verdicts = {}
    for k in range(4):
        kids = [{"__obj__": True, "name": "x", "_name": "x", "children": [], "_children": []} for _ in range(k)]
        nodeobj = {"__obj__": True, "name": meta, "_name": meta, "children": kids, "_children": kids, "content": None, "_content": None,
                   "attributes": {}, "_attributes": {}}
        hit = None
        for (fi, p) in cands:
            nodep = next((x for x in fi.params if w.types(fi).env.get(x) == "Node"), None)
            if nodep is None:
                continue
            env = {nodep: nodeobj, mps[fi.qname]: None}
            if fi.bound:
                env[fi.params[0]] = {"__obj__": True}
            try:
                v = guard_verdict(ctx, fi, p.if_node, env, PEval(w))
            except (PEvalUnsupported, Raised):
                continue
            if isinstance(v, tuple):
                continue
            rep.count("metadata occupancy verdicts")
            hit = bool(hit) or bool(v)
            if v:
                verdicts.setdefault(k, (fi, p))
        want = k > 1
        rep.oblige(("R5", k), hit is not None and hit == want, sample={"children under metadata": k, "reported": hit, "required": want})
        if hit is None or hit != want:
            fi0, p0 = verdicts.get(k) or (cands[0] if cands else (prog.func(NODE), None))
            rep.add("R5", fi0.qname, p0.append_call if p0 is not None else "metadata occupancy",
                    f"a metadata element with {k} child{'ren' if k != 1 else ''} is {'reported' if hit else 'accepted' if hit is not None else 'not judged'} "
                    f"(MAX_OCCURRENCE_EXCEEDED); metadata content is opaque beyond holding at most one child, so it must be "
                    f"{'reported' if want else 'accepted'}", fi0.loc(p0.if_node) if p0 is not None else fi0.loc())
            break
    rep.floor("metadata occupancy verdicts", 4)


def _rule_r6(ctx, rep):
    from .c05_worlds import rule_worlds
    rule_worlds(ctx, rep, "C05")


def run(ctx, rep):
    rep.explanation = (
        "shape of the recursive walk validate.tree decided over all its paths by marker dataflow: own node validated first, "
        "with the caller's list, outside any try; one unfiltered in-order loop over the children with an unconditional recursive "
        "call; the walk depends on exactly the metadata cut-off; the metadata constant agrees across tree / _validate_children / "
        "prune; node validation dereferences children only on the non-metadata side")
    rep.rules_run = ["R1", "R2", "R3", "R4", "R5", "R6"]
    rep.assumptions += ["per-node verdicts are C04/C01-C03's subject; C05 decides only how they are combined"]
    only = getattr(rep, "only", None)
    for name, fn in (("R1", rule_r1), ("R2", rule_r2), ("R3", rule_r3), ("R4", rule_r4), ("R5", rule_r5), ("R6", _rule_r6)):
        if only in (None, name):
            fn(ctx, rep)
