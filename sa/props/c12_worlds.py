"""C12-R6 -- copy folded over abstract trees.

`Node.copy` looks at nothing of the values it copies; what it does depends on which fields are filled and how many children
there are.  It is folded (sa/peval.py, with uuid1 giving a value equal only to itself) over the tree catalogue of worlds.py and
the folded result is held to the four clauses of the property: equal in every field and in child order, every node a fresh
id that is registered, parent links below the copy's root inside the copy, and no mutable object (dict / list) reachable from
the copy that is also reachable from the original."""
from __future__ import annotations

from ..peval import Opaque, PEval, PEvalUnsupported, Raised
from ..types import NODE_Q
from .worlds import catalogue, diff, is_node, nodes, number


def mutable_objects(root):
    out = {}
    for n in nodes(root):
        out[id(n)] = ("node", n["_name"], n)
        for f, v in n.items():
            if isinstance(v, (dict, list)) and f not in ("_parent",) and not is_node(v):
                out[id(v)] = (f[1:], n["_name"], v)
    return out


def rule_r6(ctx, rep):
    fi = ctx.prog.func(NODE_Q + ".copy")
    for what, build in catalogue():
        tree = number(build())
        pe = PEval(ctx.world)
        try:
            cp = pe.call(fi, [tree])
        except Raised as r:
            rep.count("copy verdicts")
            rep.oblige(("R6", what), False)
            rep.add("R6", fi.qname, what, f"copying {what} raises {r.cls}", fi.loc())
            break
        except PEvalUnsupported as ex:
            rep.notes.append(f"copy not folded for {what}: {ex}")
            continue
        if isinstance(cp, Opaque):
            rep.notes.append(f"copy not folded for {what}: opaque result")
            continue
        rep.count("copy verdicts")
        why = None
        if not is_node(cp):
            why = f"the result is not a node ({str(cp)[:40]})"
        if why is None:
            d = diff(tree, cp)
            if d:
                why = f"the copy differs from the original -- {d}"
        if why is None:
            old_ids = {n["_id"] for n in nodes(tree)}
            seen = set()
            store = pe.class_state.get((NODE_Q, "store"), {})
            for n in nodes(cp):
                i = n.get("_id")
                if i in old_ids:
                    why = f"the copy of {n['_name']} carries the id of an original node"
                elif i in seen:
                    why = f"two nodes of the copy carry the same id"
                elif not (isinstance(store, dict) and store.get(i) is n):
                    why = f"the copy of {n['_name']} is not registered under its new id"
                seen.add(i)
                if why:
                    break
        if why is None:
            mine, theirs = mutable_objects(cp), mutable_objects(tree)
            both = set(mine) & set(theirs)
            if both:
                k = sorted(both, key=lambda x: str(mine[x][:2]))[0]
                why = (f"copy and original share one object: the {mine[k][0]} of {mine[k][1]}" if mine[k][0] != "node"
                       else f"the node {mine[k][1]} of the original is part of the copy") + " (an edit to either shows in the other)"
        rep.oblige(("R6", what), why is None, sample={"tree": what, "nodes": len(nodes(tree))})
        if why is not None:
            rep.add("R6", fi.qname, what, f"copying {what}: {why}", fi.loc())
            break
