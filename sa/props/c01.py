"""C01 -- child-sequence validation equals the rule's content model (partial).

Decided: cursor discipline (R1), error-kind closure (R2), the name list is the
full child-name sequence and the trailing check / foreign-name sweep cannot be
bypassed (R3), mixed-content waiver wiring (R4), spec-slot roles and the
occurrence comparisons evaluated over boundary points (R5/R6).
Not decided: language equivalence of the greedy matcher."""
from __future__ import annotations

import ast

from .. import prereq
from ..anchors import rule_method
from ..condeval import bool_atoms, enclosing_ifs, eval_at, eval_structure, free_names
from ..marks import MarkDomain, may_at, must_at, run_marks
from ..model import UNKNOWN, AnalysisError, EnumMember, norm
from ..peval import PEvalUnsupported
from ..types import RULE_Q, T_SPEC
from ..valslice import RULE_ERR, mode_params, reachable, report_sites

EXC = "metapype.eml.exceptions."
ALLOWED_FF = {EXC + "ChildNotAllowedError", EXC + "MinOccurrenceUnmetError", EXC + "MaxOccurrenceExceededError"}
ALLOWED_CODES = {"CHILD_NOT_ALLOWED", "MIN_OCCURRENCE_UNMET", "MAX_OCCURRENCE_EXCEEDED", "MIN_CHOICE_UNMET", "MAX_CHOICE_EXCEEDED"}


def _self_attr(e, s, attr=None):
    return isinstance(e, ast.Attribute) and isinstance(e.value, ast.Name) and e.value.id == s and (attr is None or e.attr == attr)


def gather(ctx):
    vc = rule_method(ctx.prog, "_validate_children")
    sl = reachable(ctx, [vc])
    sl = [f for f in sl if f.cls is not None and f.cls.qname == RULE_Q]
    mps = mode_params(ctx, sl)
    pairs = []
    for fi in sl:
        if fi.qname in mps:
            ps, _ = report_sites(ctx, fi, mps[fi.qname])
            pairs.extend(p for p in ps if not p.helper)
    return vc, sl, mps, pairs


def code_name(p):
    return p.code.member if isinstance(p.code, EnumMember) else None


def rule_r1(ctx, rep, sl):
    proven, problems, sites = prereq.cursor_invariant(ctx)
    for (m, node, reason) in problems:
        rep.add("R1", m.qname, node, reason, m.loc(node))
    rep.count("cursor writes / name-list rebinds", len(sites))
    for s in sites:
        rep.oblige(("R1i",) + s, not any(norm(n) == s[1] for (_m, n, _r) in problems))
    pairs = prereq.cursor_pairs(ctx)
    if not pairs:
        raise AnalysisError("anchor vanished: no cursor (self.L[self.i]) in class Rule")
    eng = prereq.engine(ctx)
    vc = rule_method(ctx.prog, "_validate_children")
    for k in ("none", "nn"):
        mp = mode_params(ctx, sl).get(vc.qname)
        eng.entry(vc, frozenset({(k, mp)}) if mp else frozenset())
    seen = set()
    names = {f.qname for f in sl}
    for (q, cf), s in eng.memo.items():
        if q not in names:
            continue
        for r in s.ledger:
            if r["op"] != "L[i]":
                continue
            if not any(f".{lf}[" in r["construct"] and ifd in r["construct"] for (_c, ifd, lf) in pairs):
                continue
            key = (r["func"], r["construct"], r["loc"])
            ok = r["discharge"].startswith("D-GUARD")
            if key in seen and ok:
                continue
            seen.add(key)
            rep.count("cursor reads")
            rep.oblige(("R1ii",) + key[:2], ok, sample={"cursor read": r["construct"], "in": r["func"].rsplit(".", 1)[-1], "discharged by": r["discharge"]})
            if not ok:
                rep.add("R1", r["func"], r["construct"],
                        "the child-name list is read at the cursor without a dominating bound check (a cursor-advancing "
                        "statement or call in between kills the bound): IndexError instead of a rule error", r["loc"])
    rep.floor("cursor reads", 3)
    rep.floor("cursor writes / name-list rebinds", 3)


def rule_r2(ctx, rep, vc, sl, mps, pairs):
    eng = prereq.engine(ctx)
    h = ctx.hier
    mp = mps.get(vc.qname)
    for mode, k in (("FF", "none"), ("COLLECT", "nn")):
        s = eng.entry(vc, frozenset({(k, mp)}) if mp else frozenset())
        rep.count("children-matcher entry x mode")
        for key, esc in s.escapes.items():
            ok = mode == "FF" and esc.cls in ALLOWED_FF
            rep.oblige(("R2", mode, esc.cls, esc.origin[:2]), ok)
            if not ok:
                rep.add("R2", esc.origin[0], esc.origin[1],
                        f"{h.short(esc.cls)} escapes the children matcher in {mode} mode; only child-not-allowed / minimum / "
                        f"maximum occurrence rule errors may be reported for a child sequence", esc.loc)
    for p in pairs:
        rep.count("children report pairs")
        c = code_name(p)
        classes = p.exc_classes or ([p.exc_cls] if p.exc_cls else [])
        ok = c in ALLOWED_CODES and bool(classes) and all(x in ALLOWED_FF for x in classes)
        rep.oblige(("R2p", p.func.qname, c, p.exc_cls), ok)
        if not ok:
            rep.add("R2", p.func.qname, p.append_call, f"children report uses {h.short(p.exc_cls or '?')} / {c}, outside the "
                    f"child-not-allowed / min / max occurrence family", p.func.loc(p.if_node))
        # the exception class and the collected code must be the same kind
        kind_e = "MIN" if "MinOcc" in (p.exc_cls or "") else "MAX" if "MaxOcc" in (p.exc_cls or "") else "CNA"
        kind_c = "MIN" if c and c.startswith("MIN_") else "MAX" if c and c.startswith("MAX_") else "CNA"
        rep.oblige(("R2k", p.func.qname, c), kind_e == kind_c)
        if kind_e != kind_c:
            rep.add("R2", p.func.qname, p.append_call, f"fail-fast raises {h.short(p.exc_cls)} but collecting mode records {c}: "
                    f"the two modes report different kinds of error", p.func.loc(p.if_node))
    rep.floor("children report pairs", 4)


def rule_r3(ctx, rep, vc, pairs):
    prog = ctx.prog
    cps = prereq.cursor_pairs(ctx)
    _cq, ifield, lfield = cps[0]
    s = vc.params[0]
    fx = prereq.engine(ctx).fx
    meta = prog.const(prog.module("metapype.eml.names"), ast.Name(id="METADATA", ctx=ast.Load()))
    my_pairs = [p for p in pairs if p.func.qname == vc.qname]
    cna = [p for p in my_pairs if code_name(p) == "CHILD_NOT_ALLOWED"]

    def contains(outer, inner):
        return any(x is inner for x in ast.walk(outer))

    # --- the name list is the full child-name sequence, in order
    fill_ok = False
    for n in ast.walk(vc.node):
        if isinstance(n, ast.For) and isinstance(n.target, ast.Name) and isinstance(n.iter, ast.Attribute) and n.iter.attr in ("children", "_children"):
            body = n.body
            if len(body) == 1 and isinstance(body[0], ast.Expr) and isinstance(body[0].value, ast.Call):
                c = body[0].value
                if isinstance(c.func, ast.Attribute) and c.func.attr == "append" and _self_attr(c.func.value, s, lfield) and len(c.args) == 1:
                    a = c.args[0]
                    if isinstance(a, ast.Attribute) and a.attr in ("name", "_name") and isinstance(a.value, ast.Name) and a.value.id == n.target.id:
                        fill_ok = True
        if isinstance(n, ast.Assign) and any(_self_attr(t, s, lfield) for t in n.targets) and isinstance(n.value, ast.ListComp):
            lc = n.value
            g = lc.generators[0]
            if len(lc.generators) == 1 and not g.ifs and isinstance(g.iter, ast.Attribute) and g.iter.attr in ("children", "_children") \
                    and isinstance(lc.elt, ast.Attribute) and lc.elt.attr in ("name", "_name"):
                fill_ok = True
    rep.count("name-list fill")
    rep.oblige(("R3", "fill"), fill_ok)
    if not fill_ok:
        rep.add("R3", vc.qname, f"fill of {s}.{lfield}",
                "the child-name list is not filled with the name of every child, in order, without filter", vc.loc())

    # --- anchors
    trail_if = None
    for n in ast.walk(vc.node):
        if isinstance(n, ast.If):
            hit = False
            for c in ast.walk(n.test):
                if isinstance(c, ast.Compare):
                    txt = norm(c)
                    if f"{s}.{ifield}" in txt and f"len({s}.{lfield})" in txt:
                        hit = True
            if hit and any(contains(b, p.if_node) for p in cna for b in n.body):
                trail_if = n
    meta_if = None
    for n in ast.walk(vc.node):
        if isinstance(n, ast.If) and isinstance(n.test, ast.Compare) and len(n.test.ops) == 1 and isinstance(n.test.ops[0], (ast.Eq, ast.NotEq)):
            l, r = n.test.left, n.test.comparators[0]
            for a, b in ((l, r), (r, l)):
                if isinstance(a, ast.Attribute) and a.attr in ("name", "_name") and prog.const(vc.module, b) == meta and meta is not UNKNOWN:
                    meta_if = n
    sweep = None
    for n in ast.walk(vc.node):
        if isinstance(n, ast.For) and any(contains(n, p.if_node) for p in cna):
            sweep = n
    rep.count("anchors (trailing check, metadata test, sweep)", sum(x is not None for x in (trail_if, meta_if, sweep)))
    if trail_if is None:
        rep.oblige(("R3", "trailing"), False)
        rep.add("R3", vc.qname, "trailing-children check",
                f"no comparison of {s}.{ifield} with len({s}.{lfield}) reporting CHILD_NOT_ALLOWED: children left over after the "
                f"matcher would be accepted", vc.loc())
        return
    if meta_if is None:
        raise AnalysisError("anchor vanished: metadata test in Rule._validate_children")
    # the trailing comparison must be true exactly when children are left (cursor < len; cursor <= len by R1)
    for cur, n_names, want in ((1, 3, True), (2, 3, True), (3, 3, False), (0, 0, False), (0, 1, True)):
      for spec_children in ([], [["x", 0, None]]):
        env = {s: {"__obj__": True, ifield: cur, lfield: ["x"] * n_names, "_node": {"__obj__": True, "name": "p", "children": ["c"] * n_names},
                   "_children": spec_children, "_rule_children_names": ["x"] if spec_children else [], "_attributes": {}, "_name": "r"},
               "errs": None}
        try:
            res = eval_at(ctx, vc, trail_if.test, env)
        except PEvalUnsupported as e:
            raise AnalysisError(f"cannot evaluate the trailing check `{norm(trail_if.test)}`: {e}")
        ok = res == ("value", want)
        rep.count("trailing comparison points")
        rep.oblige(("R3", "trail-sem", cur, n_names, bool(spec_children)), ok)
        if not ok:
            rep.add("R3", vc.qname, trail_if.test, f"trailing check evaluates to {res[1]} with cursor={cur}, {n_names} children"
                    f"{' for a rule without children' if not spec_children else ''}: it must fire exactly when children are left over",
                    vc.loc(trail_if))
    matchers = []
    for n in ast.walk(vc.node):
        if isinstance(n, ast.Call):
            for tg in ctx.world.resolve_call(ctx.world.types(vc), n):
                if tg.func is not None and ifield in fx.writes(tg.func) and tg.func.qname != vc.qname:
                    matchers.append(n)
    if not matchers:
        rep.add("R3", vc.qname, "matcher call", "the children matcher is never invoked", vc.loc())
    dom = MarkDomain()
    eq = isinstance(meta_if.test.ops[0], ast.Eq)
    dom.mark_test(meta_if.test, if_true=["META"] if eq else ["NONMETA"], if_false=["NONMETA"] if eq else ["META"])
    dom.infeasible[id(meta_if.test)] = True if eq else False  # analyse the non-metadata paths
    for c in ast.walk(trail_if.test):
        if isinstance(c, ast.Compare) and f"{s}.{ifield}" in norm(c) and f"len({s}.{lfield})" in norm(c):
            dom.mark(c, "TRAIL")
    if sweep is not None:
        dom.mark(sweep.iter, "SWEEP")
    for m in matchers:
        dom.probe(m)
    flow, exits = run_marks(ctx, vc, dom)
    for i, (must, may) in enumerate(exits):
        rep.count("non-metadata exits")
        ok = "TRAIL" in must
        rep.oblige(("R3", "exit", i), ok)
        if not ok:
            rep.add("R3", vc.qname, "path bypassing the trailing check",
                    "some non-metadata path reaches a normal exit of _validate_children without passing the trailing-children "
                    "check (left-over children would be accepted on that path)", vc.loc(trail_if))
    for m in matchers:
        rep.count("matcher calls")
        must = must_at(dom, m)
        may = may_at(dom, m)
        if must is None:
            continue
        ok = "SWEEP" in must and "TRAIL" not in (may or frozenset())
        rep.oblige(("R3", "order", norm(m)[:50]), ok)
        if "SWEEP" not in must:
            rep.add("R3", vc.qname, m, "the foreign-name sweep (is_allowed_child over all child names) does not dominate this "
                    "matcher call", vc.loc(m))
        if "TRAIL" in (may or frozenset()):
            rep.add("R3", vc.qname, m, "the trailing check may run before the matcher", vc.loc(m))
    if sweep is None:
        rep.oblige(("R3", "sweep"), False)
        rep.add("R3", vc.qname, "foreign-name sweep", "no loop reports CHILD_NOT_ALLOWED for child names the rule does not allow", vc.loc())
    else:
        bad = [x for x in ast.walk(sweep) if isinstance(x, (ast.Break, ast.Return))]
        it_ok = _self_attr(sweep.iter, s, lfield) or (isinstance(sweep.iter, ast.Attribute) and sweep.iter.attr in ("children", "_children"))
        rep.oblige(("R3", "sweep-shape"), not bad and it_ok)
        # per iteration the report is reached exactly for names the rule does not allow
        from ..condeval import guard_verdict
        from ..peval import PEval
        sp = [p for p in cna if contains(sweep, p.if_node)]
        if sp and isinstance(sweep.target, ast.Name):
            for allowed_ in (True, False):
                pe = PEval(ctx.world)
                pe.stubs[RULE_Q + ".is_allowed_child"] = allowed_
                env = {s: {"__obj__": True, ifield: 0, lfield: ["x"], "_rule_children_names": ["x"] if allowed_ else [], "_node": {"__obj__": True, "name": "p", "children": []},
                           "_children": [], "_name": "r"},
                       sweep.target.id: "x", "errs": None}
                if isinstance(sweep.iter, ast.Attribute) and sweep.iter.attr in ("children", "_children"):
                    env[sweep.target.id] = {"__obj__": True, "name": "x", "_name": "x"}
                try:
                    v = guard_verdict(ctx, vc, sp[0].if_node, env, pe)
                except PEvalUnsupported as ex:
                    rep.notes.append(f"sweep guard not evaluated: {ex}")
                    break
                okv = v == (not allowed_)
                rep.oblige(("R3", "sweep-verdict", allowed_), okv)
                if not okv:
                    rep.add("R3", vc.qname, sp[0].append_call, f"a child name the rule {'allows' if allowed_ else 'does not allow'} is "
                            f"{'reported' if v else 'not reported'} by the foreign-name sweep", vc.loc(sp[0].if_node))
        if bad:
            rep.add("R3", vc.qname, bad[0], "the foreign-name sweep leaves its loop early: later foreign names go unreported in "
                    "collecting mode", vc.loc(bad[0]))
        if not it_ok:
            rep.add("R3", vc.qname, sweep.iter, "the foreign-name sweep does not range over all child names", vc.loc(sweep))
    rep.floor("anchors (trailing check, metadata test, sweep)", 3)


def waiver_vars(ctx, sl):
    """{function qname: waiver variable name}: the flag computed in validate_rule from
    membership of the rule name in a constant set, followed parameter to parameter"""
    prog = ctx.prog
    w = ctx.world
    vr = rule_method(prog, "validate_rule")
    src_var, members, test_node = None, None, None
    for n in ast.walk(vr.node):
        test = None
        if isinstance(n, ast.If) and isinstance(n.test, ast.Compare) and isinstance(n.test.ops[0], ast.In):
            # if self.name in (...): v = True else: v = False
            tv = [s for s in n.body if isinstance(s, ast.Assign) and isinstance(s.value, ast.Constant) and s.value.value is True]
            fv = [s for s in n.orelse if isinstance(s, ast.Assign) and isinstance(s.value, ast.Constant) and s.value.value is False]
            if tv and fv and isinstance(tv[0].targets[0], ast.Name) and norm(tv[0].targets[0]) == norm(fv[0].targets[0]):
                test = n.test
                var = tv[0].targets[0].id
        if isinstance(n, ast.Assign) and isinstance(n.value, ast.Compare) and isinstance(n.value.ops[0], ast.In) and isinstance(n.targets[0], ast.Name):
            test = n.value
            var = n.targets[0].id
        if test is not None:
            v = prog.const(vr.module, test.comparators[0])
            if isinstance(v, (tuple, list, frozenset)) and all(isinstance(x, str) for x in v):
                src_var, members, test_node = var, list(v), test
    if src_var is None:
        raise AnalysisError("anchor vanished: mixed-content flag in Rule.validate_rule")
    out = {vr.qname: src_var}
    funcs = {f.qname: f for f in reachable(ctx, [vr])}
    changed = True
    passes = []  # (caller, call, callee, param, actual)
    while changed:
        changed = False
        for q, fi in funcs.items():
            if q not in out:
                continue
            ft = w.types(fi)
            for n in ast.walk(fi.node):
                if not isinstance(n, ast.Call):
                    continue
                for tg in w.resolve_call(ft, n):
                    if tg.func is None:
                        continue
                    for pn, a in w.arg_map(tg, n).items():
                        if isinstance(a, ast.Name) and a.id == out[q]:
                            if out.get(tg.func.qname) != pn:
                                if tg.func.qname in out and out[tg.func.qname] != pn:
                                    continue
                                out[tg.func.qname] = pn
                                changed = True
    return out, members, test_node, vr


def rule_r4(ctx, rep, sl, pairs):
    prog = ctx.prog
    w = ctx.world
    wv, members, test_node, vr = waiver_vars(ctx, sl)
    rules = ctx.tables.rules
    for m in members:
        rep.count("mixed-content rule names")
        ok = m in rules
        rep.oblige(("R4", "member", m), ok)
        if not ok:
            rep.add("R4", vr.qname, f"'{m}'", "mixed-content rule name is not a rule of rules.json", vr.loc(test_node))
    # every report whose guard mentions the waiver
    all_pairs = []
    funcs = {f.qname: f for f in reachable(ctx, [vr])}
    mps = mode_params(ctx, list(funcs.values()))
    for q, fi in funcs.items():
        if q in mps:
            ps, _ = report_sites(ctx, fi, mps[q])
            all_pairs.extend(ps)
    waived = False
    for q, var in sorted(wv.items()):
        fi = funcs.get(q)
        if fi is None:
            continue
        ft = w.types(fi)
        for n in ast.walk(fi.node):
            if not (isinstance(n, ast.Name) and n.id == var and isinstance(n.ctx, ast.Load)):
                continue
            rep.count("uses of the mixed-content flag")
            # (a) passed on to a callee's waiver parameter
            ok = False
            for c in ast.walk(fi.node):
                if isinstance(c, ast.Call) and any(a is n for a in list(c.args) + [k.value for k in c.keywords]):
                    for tg in w.resolve_call(ft, c):
                        if tg.func is not None and tg.func.qname in wv:
                            a = w.arg_map(tg, c).get(wv[tg.func.qname])
                            if a is n:
                                ok = True
            # (b) in the guard of the MIN_CHOICE_UNMET report / the non-empty content waiver
            if not ok:
                for s in ast.walk(fi.node):
                    if isinstance(s, ast.If) and any(x is n for x in ast.walk(s.test)):
                        # reports this test governs: those inside the statement, and -- for a guard clause (`if flag and ...: return`) --
                        # those that follow it
                        from ..condeval import enclosing_ifs as _eifs
                        inner = [p for p in all_pairs if p.func.qname == q and (any(x is p.if_node for x in ast.walk(s)) or
                                                                                any(g is s for (g, _b) in _eifs(fi, p.if_node)))]
                        codes = {code_name(p) for p in inner}
                        if codes and codes <= {"MIN_CHOICE_UNMET", "CONTENT_EXPECTED_NONEMPTY"}:
                            ok = True
                            if "MIN_CHOICE_UNMET" in codes:
                                waived = True
                                # with the flag set, the report must be unreachable whatever the other atoms say
                                atoms = [a for a in bool_atoms(s.test)]
                                flag_atoms = [a for a in atoms if isinstance(a, ast.Name) and a.id == var]
                                others = [a for a in atoms if a not in flag_atoms]
                                import itertools
                                for combo in itertools.product([False, True], repeat=len(others)):
                                    val = {id(a): True for a in flag_atoms}
                                    val.update({id(a): b for a, b in zip(others, combo)})
                                    if eval_structure(s.test, val):
                                        ok = False
                                        rep.add("R4", q, s.test, "the choice-minimum report can fire although the mixed-content flag is set",
                                                fi.loc(s))
                                        break
                                val = {id(a): False for a in flag_atoms}
                                val.update({id(a): True for a in others})
                                if not eval_structure(s.test, val):
                                    ok = False
                                    rep.add("R4", q, s.test, "the choice-minimum report cannot fire for a rule that is not mixed-content",
                                            fi.loc(s))
                        elif codes:
                            rep.add("R4", q, s.test, f"the mixed-content flag guards the report of {sorted(c for c in codes if c)}; it may waive "
                                    f"only choice minimums (and the non-empty content check)", fi.loc(s))
                            ok = True  # reported above
            rep.oblige(("R4", q, n.lineno, n.col_offset), ok)
            if not ok:
                rep.add("R4", q, f"use of {var}", "the mixed-content flag is used other than to waive choice minimums / the non-empty "
                        "content check or to be passed on", fi.loc(n))
    # the MIN_CHOICE_UNMET report must be guarded by the flag at all
    for p in all_pairs:
        if code_name(p) == "MIN_CHOICE_UNMET":
            rep.count("choice-minimum reports")
            var = wv.get(p.func.qname)
            guards = enclosing_ifs(p.func, p.if_node)
            ok = var is not None and any(any(isinstance(x, ast.Name) and x.id == var for x in ast.walk(g.test)) for g, _b in guards)
            rep.oblige(("R4", "guarded", p.func.qname), ok)
            if not ok:
                rep.add("R4", p.func.qname, p.append_call, "the choice-minimum report is not waived for mixed-content rules "
                        "(the flag does not reach its guard)", p.func.loc(p.if_node))
    # calls into functions with a waiver parameter must pass the flag, not a constant
    for q, var in wv.items():
        fi = funcs.get(q)
        if fi is None:
            continue
        ft = w.types(fi)
        for c in ast.walk(fi.node):
            if isinstance(c, ast.Call):
                for tg in w.resolve_call(ft, c):
                    if tg.func is not None and tg.func.qname in wv and tg.func.qname != vr.qname:
                        a = w.arg_map(tg, c).get(wv[tg.func.qname])
                        rep.count("flag hand-overs")
                        ok = isinstance(a, ast.Name) and a.id == var
                        rep.oblige(("R4", "pass", q, norm(c)[:60]), ok)
                        if not ok:
                            rep.add("R4", q, c, f"the mixed-content flag is not handed to {tg.func.name} (got `{norm(a) if a is not None else 'nothing'}`)",
                                    fi.loc(c))
    rep.floor("uses of the mixed-content flag", 3)
    rep.floor("choice-minimum reports", 1)


def rule_r5_r6(ctx, rep, sl, pairs):
    """slot roles: [-2] is a minimum, [-1] a maximum (None = unbounded), [0] a leaf name; the
    occurrence comparisons are evaluated at the boundary points"""
    w = ctx.world
    prog = ctx.prog
    for fi in sl:
        ft = w.types(fi)
        lo_vars, hi_vars, name_vars = set(), set(), set()
        for n in ast.walk(fi.node):
            if isinstance(n, ast.Assign) and len(n.targets) == 1 and isinstance(n.targets[0], ast.Name) and isinstance(n.value, ast.Subscript):
                if ft.type_of(n.value.value) == T_SPEC:
                    c = prog.const(fi.module, n.value.slice)
                    if c == -2:
                        lo_vars.add(n.targets[0].id)
                    elif c == -1:
                        hi_vars.add(n.targets[0].id)
                    elif c == 0:
                        name_vars.add(n.targets[0].id)
        # direct constant subscripts of spec values outside the accessor positions
        for n in ast.walk(fi.node):
            if isinstance(n, ast.Subscript) and ft.type_of(n.value) == T_SPEC and not isinstance(n.slice, ast.Slice):
                c = prog.const(fi.module, n.slice)
                if isinstance(c, int) and not isinstance(c, bool):
                    rep.count("constant spec subscripts")
                    cur = ft.type_of(n.value)
                    ok = c in (0, -1, -2) or (c in (1, 2) and fi.name == "__init__")
                    rep.oblige(("R5", fi.qname, norm(n)), ok)
                    if not ok:
                        rep.add("R5", fi.qname, n, "children-spec value read at a position that is not a name ([0]), minimum ([-2]) or "
                                "maximum ([-1]) slot", fi.loc(n))
            if isinstance(n, ast.Subscript) and ft.type_of(n.value) == T_SPEC and isinstance(n.slice, ast.Slice):
                sl_ = n.slice
                up = prog.const(fi.module, sl_.upper) if sl_.upper is not None else None
                lo = prog.const(fi.module, sl_.lower) if sl_.lower is not None else None
                if sl_.upper is not None or sl_.lower is not None:
                    rep.count("spec slices")
                    # accepted: alternatives of a choice [:-2]; allowed values of an attribute spec [1:]
                    ok = (lo is None and up == -2) or (lo == 1 and up is None)
                    rep.oblige(("R5s", fi.qname, norm(n)), ok)
                    if not ok:
                        rep.add("R5", fi.qname, n, "children/attribute spec sliced at other than [:-2] (choice alternatives) or [1:] "
                                "(allowed attribute values)", fi.loc(n))
        if not (lo_vars or hi_vars):
            continue
        my = [p for p in pairs if p.func.qname == fi.qname]
        for p in my:
            c = code_name(p)
            guards = enclosing_ifs(fi, p.if_node)
            if not guards:
                continue
            g, in_body = guards[-1]
            if not in_body:
                continue
            kind = "MIN" if c and c.startswith("MIN_") else "MAX" if c and c.startswith("MAX_") else None
            if kind is None:
                continue
            names_in = free_names(g.test)
            bound_vars = [v for v in names_in if v in (lo_vars if kind == "MIN" else hi_vars)]
            wrong = [v for v in names_in if v in (hi_vars if kind == "MIN" else lo_vars)]
            rep.count("occurrence guards")
            if wrong and not bound_vars:
                rep.oblige(("R5", fi.qname, c, "role"), False)
                rep.add("R5", fi.qname, g.test, f"the {c} report compares against `{wrong[0]}`, which was read from the "
                        f"{'maximum' if kind == 'MIN' else 'minimum'} slot of the spec", fi.loc(g))
                continue
            if not bound_vars:
                rep.oblige(("R5", fi.qname, c, "role"), False)
                rep.add("R5", fi.qname, g.test, f"the {c} report is not guarded by a comparison with the spec's "
                        f"{'minimum' if kind == 'MIN' else 'maximum'} slot", fi.loc(g))
                continue
            bv = bound_vars[0]
            consts = {v for v in names_in if prog.const(fi.module, ast.Name(id=v, ctx=ast.Load())) is not UNKNOWN and v not in ft.env}
            others = [v for v in names_in if v != bv and v not in consts and v not in fi.params and v not in lo_vars | hi_vars]
            flags = [v for v in names_in if v in fi.params]
            if len(others) != 1:
                rep.notes.append(f"{fi.qname}: guard `{norm(g.test)}` not evaluated (cannot single out the occurrence counter)")
                continue
            occ = others[0]
            pts = []
            if kind == "MIN":
                for m in (0, 1, 2):
                    for o in (m - 1, m, m + 1):
                        if o >= 0:
                            pts.append((o, m, o < m))
            else:
                for m in (0, 1, 2, None):
                    for o in ((0, 1, 2, 3) if m is None else (m - 1, m, m + 1)):
                        if o >= 0:
                            pts.append((o, m, (m is not None and o > m)))
            for (o, m, want) in pts:
                env = {occ: o, bv: m}
                for fl in flags:
                    env[fl] = False
                rep.count("occurrence comparison points")
                try:
                    res = eval_at(ctx, fi, g.test, env)
                except PEvalUnsupported as e:
                    rep.notes.append(f"{fi.qname}: guard `{norm(g.test)}` not evaluated: {e}")
                    break
                ok = res == ("value", want)
                rep.oblige(("R6", fi.qname, c, o, m), ok,
                           sample={"guard": norm(g.test), "occurrences": o, "bound": m, "fires": res[1], "expected": want}
                           if (o, m) in ((1, 1), (2, 1)) else None)
                if not ok:
                    what = f"raises {res[1]}" if res[0] == "raises" else ("fires" if res[1] else "does not fire")
                    rep.add("R6", fi.qname, g.test, f"the {c} guard {what} with {o} occurrence(s) and "
                            f"{'minimum' if kind == 'MIN' else 'maximum'} {m if m is not None else 'unbounded'}; the content model "
                            f"requires it to fire exactly when the count is {'below the minimum' if kind == 'MIN' else 'above the maximum'}",
                            fi.loc(g))
                    break
    rep.floor("occurrence guards", 2)
    rep.floor("constant spec subscripts", 4)


def rule_r7(ctx, rep, sl):
    """one choice occurrence per matched alternative: in the choice matcher every call of a cursor-advancing matcher is
    followed by exactly one increment of the occurrence counter before the next matcher call, the min/max guards or an exit"""
    w = ctx.world
    fx = prereq.engine(ctx).fx
    _cq, ifield, lfield = prereq.cursor_pairs(ctx)[0]
    fi = rule_method(ctx.prog, "_validate_choice")
    ft = w.types(fi)
    matchers = []
    for n in ast.walk(fi.node):
        if isinstance(n, ast.Call):
            for tg in w.resolve_call(ft, n):
                if tg.func is not None and ifield in fx.writes(tg.func):
                    matchers.append(n)
    # the counter: the variable compared with the spec's min / max slots
    lo_hi = set()
    for n in ast.walk(fi.node):
        if isinstance(n, ast.Assign) and len(n.targets) == 1 and isinstance(n.targets[0], ast.Name) and isinstance(n.value, ast.Subscript) \
                and ft.type_of(n.value.value) == T_SPEC and ctx.prog.const(fi.module, n.value.slice) in (-1, -2):
            lo_hi.add(n.targets[0].id)
    counters = set()
    guards = []
    for n in ast.walk(fi.node):
        if isinstance(n, ast.Compare) and isinstance(n.ops[0], (ast.Lt, ast.LtE, ast.Gt, ast.GtE)):
            names_ = [x.id for x in ast.walk(n) if isinstance(x, ast.Name)]
            if any(v in lo_hi for v in names_):
                guards.append(n)
                counters |= {v for v in names_ if v not in lo_hi and v not in fi.params}
    if len(counters) != 1 or not matchers:
        raise AnalysisError("anchor vanished: occurrence counter / matcher calls in Rule._validate_choice")
    counter = counters.pop()
    incs = [n for n in ast.walk(fi.node) if isinstance(n, ast.AugAssign) and isinstance(n.target, ast.Name) and n.target.id == counter
            and isinstance(n.op, ast.Add) and isinstance(n.value, ast.Constant) and n.value.value == 1]
    others = [n for n in ast.walk(fi.node) if isinstance(n, (ast.Assign, ast.AugAssign)) and n not in incs and any(
        isinstance(t, ast.Name) and t.id == counter for t in (n.targets if isinstance(n, ast.Assign) else [n.target]))]
    resets = [n for n in others if isinstance(n, ast.Assign) and isinstance(n.value, ast.Constant) and n.value.value == 0]
    for n in others:
        if n not in resets:
            rep.add("R7", fi.qname, n, f"the choice-occurrence counter `{counter}` is changed other than by `= 0` / `+= 1`", fi.loc(n))
    md = MarkDomain()
    for m in matchers:
        md.probe(m)
        md.mark(m, "PEND", "CALLED")
    for i in incs:
        md.probe(i)
        md.unmark(i, "PEND", "CALLED")
    for g in guards:
        md.probe(g)
    flow, exits = run_marks(ctx, fi, md)
    rep.count("matcher calls in the choice matcher", len(matchers))
    rep.count("occurrence increments in the choice matcher", len(incs))
    for m in matchers:
        may = may_at(md, m)
        if may is None:
            continue
        ok = "PEND" not in may
        rep.oblige(("R7", "call", norm(m)[:50]), ok)
        if not ok:
            rep.add("R7", fi.qname, m, f"an alternative can be matched here while the previous match has not been counted yet: several matched "
                    f"alternatives count as one choice occurrence (a bounded choice accepts too many)", fi.loc(m))
    for g in guards:
        may = may_at(md, g)
        ok = may is None or "PEND" not in may
        rep.oblige(("R7", "guard", norm(g)), ok)
        if not ok:
            rep.add("R7", fi.qname, g, "the occurrence bound is tested while a matched alternative may still be uncounted", fi.loc(g))
    for i in incs:
        must = must_at(md, i)
        ok = must is None or "CALLED" in must
        rep.oblige(("R7", "inc", fi.loc(i)), ok)
        if not ok:
            rep.add("R7", fi.qname, i, "the occurrence counter is incremented on a path on which no alternative was matched since the last "
                    "increment", fi.loc(i))
    rep.floor("matcher calls in the choice matcher", 2)
    rep.floor("occurrence increments in the choice matcher", 1)


def rule_r8(ctx, rep):
    """table preconditions under which the greedy cursor matcher is exact: a rule names a child at most once, and a particle with a
    finite maximum that the matcher consumes greedily (a leaf of a sequence, any choice) is never followed -- directly or through the
    repetition of an enclosing group -- by one of its own names (the matcher would report the maximum as exceeded where the content
    model starts a new group)"""
    T = ctx.tables

    def nullable(sp):
        if sp.kind == "leaf":
            return sp.min == 0
        if sp.kind == "seq":
            return all(nullable(i) for i in sp.items)
        return sp.min == 0 or any(nullable(i) for i in sp.items)

    def first(sp):
        if sp.kind == "leaf":
            return {sp.name}
        out = set()
        for it in sp.items:
            out |= first(it)
            if sp.kind == "seq" and not nullable(it):
                break
        return out

    def walk(sp, follow, in_seq, out):
        if sp.kind == "leaf":
            if in_seq and sp.max is not None and sp.name in follow:
                out.append((sp, sp.name))
            return
        if sp.kind == "seq":
            for i, it in enumerate(sp.items):
                f = set()
                for nxt in sp.items[i + 1:]:
                    f |= first(nxt)
                    if not nullable(nxt):
                        break
                else:
                    f |= follow
                walk(it, f, True, out)
            return
        rep_ = sp.max is None or sp.max > 1
        if sp.max is not None and (set(sp.names()) & follow):
            out.append((sp, sorted(set(sp.names()) & follow)[0]))
        for it in sp.items:
            f = set(follow)
            if rep_:
                f |= first(sp)
            walk(it, f, False, out)

    for rname in sorted(T.rules):
        try:
            sp = T.spec(rname)
        except Exception:
            continue
        if sp is None:
            continue
        rep.count("rules checked for greedy-exactness preconditions")
        names_ = sp.names()
        dup = sorted({n for n in names_ if names_.count(n) > 1})
        out = []
        walk(sp, set(), False, out)
        ok = not dup and not out
        rep.oblige(("R8", rname), ok)
        for d in dup:
            rep.add("R8", rname, f"child '{d}' named twice", "the matcher takes the first particle that names a child: the second one is unreachable, "
                    "so sequences the content model allows are rejected", "src/metapype/eml/rules.json")
        for (p_, nme) in out:
            rep.add("R8", rname, f"particle {p_.raw!r} followed by '{nme}'"[:150],
                    f"the matcher consumes '{nme}' greedily into this particle (maximum {p_.max}) although the content model lets a following "
                    f"particle or a new repetition of the enclosing group take it: valid sequences are reported as exceeding the maximum",
                    "src/metapype/eml/rules.json")
    rep.floor("rules checked for greedy-exactness preconditions", 70)


def run(ctx, rep):
    rep.explanation = (
        "necessary conditions of the content-model equivalence on the slice _validate_children -> _validate_sequence / "
        "_validate_choice / _validate_rule_child: cursor invariant and bounded cursor reads (facts engine), error-kind closure "
        "(escape analysis, both modes), full name list + unavoidable trailing check + dominating foreign-name sweep (marker "
        "dataflow over all paths), waiver wiring (flag dataflow + boolean structure of the guard), spec-slot roles and the "
        "min/max occurrence guards evaluated at boundary points; the language equivalence itself is not decided")
    rep.rules_run = ["R1", "R2", "R3", "R4", "R5", "R6", "R7", "R8"]
    rep.assumptions += [
        "NOT decided: that the greedy matcher accepts exactly the rule's regular language (needs execution of the matcher)",
        "D-SPEC: spec subscripts rely on the C10 table-shape check passing in the same run",
    ]
    vc, sl, mps, pairs = gather(ctx)
    for f in sl:
        rep.touch(f)
    only = getattr(rep, "only", None)
    if only in (None, "R1"):
        rule_r1(ctx, rep, sl)
    if only in (None, "R2"):
        rule_r2(ctx, rep, vc, sl, mps, pairs)
    if only in (None, "R3"):
        rule_r3(ctx, rep, vc, pairs)
    if only in (None, "R4"):
        rule_r4(ctx, rep, sl, pairs)
    if only in (None, "R5", "R6"):
        rule_r5_r6(ctx, rep, sl, pairs)
    if only in (None, "R7"):
        rule_r7(ctx, rep, sl)
    if only in (None, "R8"):
        rule_r8(ctx, rep)
    rep.extra["provisos"] = prereq.engine(ctx).provisos
