"""Developer tool: run every check against every kept seeded change (seeded/*/patch.diff) on scratch copies, 16 at a time,
and refresh the "checks_fired" / "analysis_errors" entries of each meta.json.  (The confirmation of each seed -- tests pass,
demo fails with / passes without the change -- is done by sa.seedrun and recorded under "confirmed".)"""
import json, os, shutil, subprocess, sys, tempfile
from concurrent.futures import ThreadPoolExecutor
from .check import PROPS
from .core import VERIF


def one(name):
    d = tempfile.mkdtemp(prefix="sa_seed_")
    try:
        for sub in ("src", "utils"):
            shutil.copytree(os.path.join("/repo", sub), os.path.join(d, sub), ignore=shutil.ignore_patterns("__pycache__", "*.pyc", "*.log"))
        r = subprocess.run(["git", "apply", os.path.join(VERIF, "seeded", name, "patch.diff")], cwd=d, capture_output=True, text=True)
        if r.returncode:
            return name, None
        out = {}
        for pid in PROPS:
            r = subprocess.run([sys.executable, "-m", "sa.check", pid, "--root", d, "--no-evidence"], cwd=VERIF, capture_output=True, text=True)
            if r.returncode != 0:
                out[pid] = (r.returncode, [l.strip().replace(d + "/", "")[:300] for l in r.stdout.splitlines() if l.startswith("  ") or l.startswith("ANALYSIS")][:2])
        return name, out
    finally:
        shutil.rmtree(d, ignore_errors=True)


def main():
    names = sorted(n for n in os.listdir(os.path.join(VERIF, "seeded")) if os.path.exists(os.path.join(VERIF, "seeded", n, "patch.diff")))
    with ThreadPoolExecutor(max_workers=16) as ex:
        res = list(ex.map(one, names))
    missed = 0
    own = 0
    for name, out in res:
        mp = os.path.join(VERIF, "seeded", name, "meta.json")
        meta = json.load(open(mp))
        if out is None:
            print(name, "patch does not apply any more")
            continue
        meta["checks_fired"] = {k: v[1] for k, v in out.items() if v[0] == 1}
        meta["analysis_errors"] = {k: v[1][:1] for k, v in out.items() if v[0] == 2}
        json.dump(meta, open(mp, "w"), indent=1)
        fired = sorted(meta["checks_fired"])
        if not fired:
            missed += 1
            print(name, "MISSED", meta["analysis_errors"])
        if meta.get("property") in fired:
            own += 1
    print(f"{len(res)} seeds, {len(res) - missed} reported by at least one check, {own} by the check of the property they target")
    return 1 if missed else 0


if __name__ == "__main__":
    sys.exit(main())
