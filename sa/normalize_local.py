"""Local passes of the normaliser (see normalize.py): fold, unroll, scalar replacement of small aggregates,
lowering of constant-dict dispatch, copy propagation, removal of dissolved closures."""
from __future__ import annotations

import ast
import copy
from typing import Dict, List, Optional

from .model import UNKNOWN, EnumMember, norm
from .normalize import (MAX_DUP_NODES, MUTATORS, NotInlinable, Subst, all_names, const_truth, count_nodes, has_node, is_atom, is_pure, name_loads,
                        returns_only, stored_names, strip_doc, terminates, walk_no_nested, walk_stmts)

MAX_UNROLL = 16


def lower_suppress(nz, body, fi):
    """`with contextlib.suppress(E1, E2): BODY` is `try: BODY / except (E1, E2): pass`"""
    if not has_node(body, ast.With, nested=True):
        return body
    f0 = Fold(nz)

    def f(stmts):
        out = []
        for s in stmts:
            if isinstance(s, ast.With) and len(s.items) == 1 and s.items[0].optional_vars is None and isinstance(s.items[0].context_expr, ast.Call) \
                    and f0._ext(s.items[0].context_expr.func) == "contextlib.suppress" and s.items[0].context_expr.args and not s.items[0].context_expr.keywords \
                    and not any(isinstance(a, ast.Starred) for a in s.items[0].context_expr.args):
                args = s.items[0].context_expr.args
                typ = args[0] if len(args) == 1 else ast.Tuple(elts=list(args), ctx=ast.Load())
                h = ast.ExceptHandler(type=typ, name=None, body=[ast.Pass()])
                t = ast.copy_location(ast.Try(body=s.body, handlers=[h], orelse=[], finalbody=[]), s)
                ast.fix_missing_locations(t)
                out.append(t)
                nz._local_touched = True
                nz.log.setdefault(fi.qname, []).append(f"`with suppress(...)` at line {getattr(s, 'lineno', '?')} written as try / except / pass")
            elif isinstance(s, ast.With) and len(s.items) == 1 and s.items[0].optional_vars is None and isinstance(s.items[0].context_expr, ast.Call) \
                    and _swallowing_cm(nz, fi, s.items[0].context_expr) is not None:
                # a hand-written context manager whose __exit__ swallows exactly the exception classes it was built with (after logging them):
                # with C(E1, E2): BODY  is  try: BODY / except (E1, E2) as e: <what __exit__ does before returning True>
                call = s.items[0].context_expr
                ev, extra = _swallowing_cm(nz, fi, call)
                cargs = _expand_star_consts(nz, fi, call.args)
                typ = cargs[0] if len(cargs) == 1 else ast.Tuple(elts=list(cargs), ctx=ast.Load())
                nm = nz.fresh("caught")
                hb = []
                try:
                    for x in extra:
                        hb.append(Subst({ev: nm}, {}).visit(copy.deepcopy(x)))
                except NotInlinable:
                    out.append(s)
                    continue
                h = ast.ExceptHandler(type=typ, name=nm, body=hb or [ast.Pass()])
                t = ast.copy_location(ast.Try(body=s.body, handlers=[h], orelse=[], finalbody=[]), s)
                ast.fix_missing_locations(t)
                out.append(t)
                nz._local_touched = True
                nz.log.setdefault(fi.qname, []).append(f"`with {norm(call.func)}(...)` at line {getattr(s, 'lineno', '?')} written as try / except (the class swallows what it was given)")
            else:
                out.append(s)
        return out
    return map_blocks(body, f)


def _expand_star_consts(nz, fi, args):
    """the argument list with *CONST written out when CONST is a module-level tuple / list literal; None when a star cannot be written out"""
    out = []
    for a in args:
        if not isinstance(a, ast.Starred):
            out.append(a)
            continue
        v = a.value
        lit = None
        if isinstance(v, (ast.Name, ast.Attribute)):
            try:
                r = nz.prog.resolve_name_expr(fi.module, v)
            except Exception:
                r = None
            if r and r[0] == "const" and r[1].const_multi.get(r[2], 0) == 1 and isinstance(r[1].consts.get(r[2]), (ast.Tuple, ast.List)) and r[1] is fi.module:
                lit = r[1].consts[r[2]]
        if lit is None or any(isinstance(x, ast.Starred) for x in lit.elts):
            return None
        out.extend(copy.deepcopy(x) for x in lit.elts)
    return out


def _swallowing_cm(nz, fi, call):
    """(name of __exit__'s exception-value parameter, statements __exit__ runs before `return True`) when `call` builds an instance of a class that is
    not part of the pinned tree and is nothing but: __init__(self, *classes) storing them, __enter__ returning self, and
    __exit__(self, t, v, tb):  if v is None or not isinstance(v, self.<classes>): return False;  <expression statements>;  return True"""
    if call.keywords or not call.args or _expand_star_consts(nz, fi, call.args) is None:
        return None
    try:
        r = nz.prog.resolve_name_expr(fi.module, call.func)
    except Exception:
        return None
    if not (r and r[0] == "class") or r[1].qname in nz.baseline:
        return None
    ci = r[1]
    ms = {m.name: m for m in ci.node.body if isinstance(m, ast.FunctionDef)}
    if set(ms) != {"__init__", "__enter__", "__exit__"} or ci.node.bases and [norm(b) for b in ci.node.bases] != ["object"]:
        return None
    ini, ent, ext = ms["__init__"], ms["__enter__"], ms["__exit__"]
    body_i = [x for x in ini.body if not (isinstance(x, ast.Expr) and isinstance(x.value, ast.Constant))]
    if not (ini.args.vararg and len(ini.args.args) == 1 and not ini.args.kwarg and len(body_i) == 1 and isinstance(body_i[0], ast.Assign)
            and len(body_i[0].targets) == 1 and isinstance(body_i[0].targets[0], ast.Attribute) and isinstance(body_i[0].value, ast.Name)
            and body_i[0].value.id == ini.args.vararg.arg):
        return None
    field = body_i[0].targets[0].attr
    body_e = [x for x in ent.body if not (isinstance(x, ast.Expr) and isinstance(x.value, ast.Constant))]
    if not (len(body_e) == 1 and isinstance(body_e[0], ast.Return) and isinstance(body_e[0].value, ast.Name) and body_e[0].value.id == ent.args.args[0].arg):
        return None
    if len(ext.args.args) != 4 or ext.args.vararg or ext.args.kwarg:
        return None
    selfn, _t, ev, _tb = [a.arg for a in ext.args.args]
    body_x = [x for x in ext.body if not (isinstance(x, ast.Expr) and isinstance(x.value, ast.Constant))]
    if len(body_x) < 2 or not isinstance(body_x[0], ast.If) or body_x[0].orelse or not isinstance(body_x[-1], ast.Return):
        return None
    g = body_x[0]
    want = f"{ev} is None or not isinstance({ev}, {selfn}.{field})"
    if norm(g.test) != want or not (len(g.body) == 1 and isinstance(g.body[0], ast.Return) and isinstance(g.body[0].value, ast.Constant) and g.body[0].value.value is False):
        return None
    if not (isinstance(body_x[-1].value, ast.Constant) and body_x[-1].value.value is True):
        return None
    mid = body_x[1:-1]
    if not all(isinstance(x, ast.Expr) and isinstance(x.value, ast.Call) for x in mid):
        return None
    if any(isinstance(n, ast.Name) and n.id in (selfn, _t, _tb) for x in mid for n in ast.walk(x)):
        return None
    return ev, mid


def run(nz, body, fi):
    body = lower_suppress(nz, body, fi)
    body = lower_match(nz, body, fi)
    body = hoist_walrus(nz, body, fi)
    touched = fi.qname in nz.log
    body = callable_aliases(nz, body, fi)
    body = map_blocks(body, lambda b: setdefault_holder(nz, b, fi))
    body = Fold(nz).block(body)
    body = lower_dispatch(nz, body, fi)
    body = unroll(nz, body, fi)
    body = sroa(nz, body, fi)
    body = elem_alias(nz, body, fi)
    body = attr_alias(nz, body, fi)
    body = Fold(nz).block(body)
    body = copyprop(nz, body, fi, touched or getattr(nz, "_local_touched", False))
    if touched or getattr(nz, "_local_touched", False):
        body = adjacent_copyprop(nz, body, fi)
        body = tidy(body)
    body = drop_dead_closures(nz, body)
    return body or [ast.Pass()]


def callable_aliases(nz, body, fi):
    """a local bound once to a callable object built on the spot -- methodcaller("m", ...), functools.partial(g, ...), attrgetter / itemgetter, a lambda --
    and used only by calling it or by handing it to map / filter / starmap: the uses are rewritten with the expression itself, which the
    functional-idiom lowering then turns into the plain call.  Only when nothing the expression reads is re-bound in the function."""
    f = Fold(nz)
    changed = True
    rounds = 0
    while changed and rounds < 6:
        changed = False
        rounds += 1
        for st in list(walk_stmts(body, nested=False)):
            if not (isinstance(st, ast.Assign) and len(st.targets) == 1 and isinstance(st.targets[0], ast.Name)):
                continue
            v, e = st.targets[0].id, st.value
            kind = None
            if isinstance(e, ast.Lambda):
                kind = "lambda"
            elif isinstance(e, ast.Call):
                kind = f._ext(e.func)
            if kind not in ("lambda", "operator.methodcaller", "functools.partial", "operator.attrgetter", "operator.itemgetter"):
                continue
            if single_assignment(body, v) is not st:
                continue
            reads = {x.id for x in ast.walk(e) if isinstance(x, ast.Name) and isinstance(x.ctx, ast.Load)}
            bound = {a.arg for a in ast.walk(e) if isinstance(a, ast.arg)}
            if any(store_count(body, r, fi.params) > 1 for r in reads - bound):
                continue
            # every use: callee position, or function argument of map / filter / starmap
            uses = [x for x in walk_stmts(body, nested=False) if isinstance(x, ast.Name) and x.id == v and isinstance(x.ctx, ast.Load)]
            ok_uses = set()
            for c in walk_stmts(body, nested=False):
                if isinstance(c, ast.Call):
                    if isinstance(c.func, ast.Name) and c.func.id == v:
                        ok_uses.add(id(c.func))
                    elif f._ext(c.func) in ("map", "filter", "itertools.starmap", "itertools.filterfalse") and c.args and isinstance(c.args[0], ast.Name) and c.args[0].id == v:
                        ok_uses.add(id(c.args[0]))
            if not uses or any(id(u) not in ok_uses for u in uses):
                continue
            # nested functions must not capture it
            if any(isinstance(x, ast.Name) and x.id == v for d in walk_stmts(body, nested=False) if isinstance(d, (ast.FunctionDef, ast.Lambda)) and d is not e
                   for x in ast.walk(d) if x is not d):
                continue

            class Put(ast.NodeTransformer):
                def visit_Name(self, n):
                    if n.id == v and isinstance(n.ctx, ast.Load) and id(n) in ok_uses:
                        return ast.copy_location(copy.deepcopy(e), n)
                    return n
            new_body = []
            for s_ in body:
                new_body.append(Put().visit(s_))
            body = drop_stmt(new_body, st)
            nz._local_touched = True
            nz.log.setdefault(fi.qname, []).append(f"callable alias `{v}` = {norm(e)[:60]} written out at its uses")
            changed = True
            break
    return body


def setdefault_holder(nz, stmts, fi):
    """j = {}; b = j.setdefault(K, [])   is   b = []; j = {K: b}   (the dict was empty, so setdefault stores and returns the new list)"""
    out = []
    i = 0
    while i < len(stmts):
        a = stmts[i]
        b = stmts[i + 1] if i + 1 < len(stmts) else None
        if isinstance(a, ast.Assign) and len(a.targets) == 1 and isinstance(a.targets[0], ast.Name) \
                and ((isinstance(a.value, ast.Dict) and not a.value.keys) or (isinstance(a.value, ast.Call) and isinstance(a.value.func, ast.Name) and a.value.func.id == "dict"
                                                                             and not a.value.args and not a.value.keywords)) \
                and isinstance(b, ast.Assign) and len(b.targets) == 1 and isinstance(b.targets[0], ast.Name) and isinstance(b.value, ast.Call) \
                and isinstance(b.value.func, ast.Attribute) and b.value.func.attr == "setdefault" and isinstance(b.value.func.value, ast.Name) \
                and b.value.func.value.id == a.targets[0].id and len(b.value.args) == 2 and not b.value.keywords and is_pure(b.value.args[0]) \
                and ((isinstance(b.value.args[1], ast.List) and not b.value.args[1].elts) or (isinstance(b.value.args[1], ast.Call) and isinstance(b.value.args[1].func, ast.Name)
                                                                                             and b.value.args[1].func.id == "list" and not b.value.args[1].args)) \
                and b.targets[0].id != a.targets[0].id and not any(isinstance(x, ast.Name) and x.id in (a.targets[0].id, b.targets[0].id) for x in ast.walk(b.value.args[0])):
            n1 = ast.copy_location(ast.Assign(targets=[ast.Name(id=b.targets[0].id, ctx=ast.Store())], value=ast.List(elts=[], ctx=ast.Load())), a)
            n2 = ast.copy_location(ast.Assign(targets=[ast.Name(id=a.targets[0].id, ctx=ast.Store())],
                                              value=ast.Dict(keys=[b.value.args[0]], values=[ast.Name(id=b.targets[0].id, ctx=ast.Load())])), b)
            for x in (n1, n2):
                ast.fix_missing_locations(x)
            out += [n1, n2]
            nz._local_touched = True
            nz.log.setdefault(fi.qname, []).append(f"`{a.targets[0].id} = {{}}; {b.targets[0].id} = {a.targets[0].id}.setdefault(k, [])` written as a dict literal holding the list")
            i += 2
            continue
        out.append(a)
        i += 1
    return out


def drop_stmt(stmts, victim):
    out = []
    for s in stmts:
        if s is victim:
            continue
        for fld in ("body", "orelse", "finalbody"):
            b = getattr(s, fld, None)
            if isinstance(b, list) and b and isinstance(b[0], ast.stmt):
                setattr(s, fld, drop_stmt(b, victim) or ([ast.Pass()] if fld == "body" else []))
        if isinstance(s, ast.Try):
            for h in s.handlers:
                h.body = drop_stmt(h.body, victim) or [ast.Pass()]
        out.append(s)
    return out


def mark_inl(stmts):
    for s in stmts:
        for n in ast.walk(s):
            if isinstance(n, ast.stmt):
                n._sa_inl = True
    return stmts


def map_blocks(stmts, f):
    """apply f to every statement list bottom-up (not into nested defs' siblings: nested defs are processed too)"""
    out = []
    for s in stmts:
        for fld in ("body", "orelse", "finalbody"):
            b = getattr(s, fld, None)
            if isinstance(b, list) and b and isinstance(b[0], ast.stmt):
                setattr(s, fld, map_blocks(b, f) or ([ast.Pass()] if fld == "body" else []))
        if isinstance(s, ast.Try):
            for h in s.handlers:
                h.body = map_blocks(h.body, f) or [ast.Pass()]
        if isinstance(s, ast.Match):
            for c in s.cases:
                c.body = map_blocks(c.body, f) or [ast.Pass()]
        out.append(s)
    return f(out)


# ---------------------------------------------------------------------------------------------- match -> if/elif

def _pattern_test(subj, pat):
    """(test expr or True for irrefutable, [(name, value expr)] captures) or None when the pattern is not a literal one"""
    if isinstance(pat, ast.MatchValue):
        return ast.Compare(left=copy.deepcopy(subj), ops=[ast.Eq()], comparators=[pat.value]), []
    if isinstance(pat, ast.MatchSingleton):
        return ast.Compare(left=copy.deepcopy(subj), ops=[ast.Is()], comparators=[ast.Constant(value=pat.value)]), []
    if isinstance(pat, ast.MatchAs):
        if pat.pattern is None:
            return True, ([(pat.name, subj)] if pat.name else [])
        r = _pattern_test(subj, pat.pattern)
        if r is None:
            return None
        return r[0], r[1] + ([(pat.name, subj)] if pat.name else [])
    if isinstance(pat, ast.MatchSequence) and isinstance(subj, (ast.Tuple, ast.List)) and len(pat.patterns) == len(subj.elts) \
            and not any(isinstance(p, ast.MatchStar) for p in pat.patterns) and not any(isinstance(x, ast.Starred) for x in subj.elts):
        # match (a, b): case (P, Q): -- element by element
        tests, caps = [], []
        for sub_s, sub_p in zip(subj.elts, pat.patterns):
            r = _pattern_test(sub_s, sub_p)
            if r is None:
                return None
            if r[0] is not True:
                tests.append(r[0])
            caps += r[1]
        if not tests:
            return True, caps
        return (tests[0] if len(tests) == 1 else ast.BoolOp(op=ast.And(), values=tests)), caps
    if isinstance(pat, ast.MatchOr):
        tests = []
        for p in pat.patterns:
            r = _pattern_test(subj, p)
            if r is None or r[1]:
                return None
            if r[0] is True:
                return True, []
            tests.append(r[0])
        if all(isinstance(t, ast.Compare) and isinstance(t.ops[0], ast.Eq) and isinstance(t.comparators[0], ast.Constant) for t in tests):
            return ast.Compare(left=copy.deepcopy(subj), ops=[ast.In()], comparators=[ast.Tuple(elts=[t.comparators[0] for t in tests], ctx=ast.Load())]), []
        return ast.BoolOp(op=ast.Or(), values=tests), []
    return None


def lower_match(nz, body, fi):
    """`match subject:` over literal / wildcard / capture patterns is an if/elif chain on `subject == literal`"""
    if not has_node(body, ast.Match, nested=True):
        return body

    def f(stmts):
        out = []
        for s in stmts:
            if not isinstance(s, ast.Match):
                out.append(s)
                continue
            subj = s.subject
            pre = []
            if not is_atom(subj):
                if not is_pure(subj):
                    out.append(s)
                    continue
            arms = []
            ok = True
            for c in s.cases:
                r = _pattern_test(subj, c.pattern)
                if r is None:
                    ok = False
                    break
                test, caps = r
                if caps and c.guard is not None:
                    ok = False
                    break
                if c.guard is not None:
                    test = c.guard if test is True else ast.BoolOp(op=ast.And(), values=[test, c.guard])
                capst = [ast.copy_location(ast.Assign(targets=[ast.Name(id=n, ctx=ast.Store())], value=copy.deepcopy(v), lineno=c.pattern.lineno), c.pattern)
                         for n, v in caps]
                arms.append((test, capst + c.body))
            if not ok:
                out.append(s)
                continue
            chain = []
            for test, b in reversed(arms):
                if test is True:
                    chain = b
                else:
                    node = ast.copy_location(ast.If(test=test, body=b, orelse=chain), s)
                    ast.fix_missing_locations(node)
                    chain = [node]
            out.extend(pre + chain)
            nz._local_touched = True
            nz.log.setdefault(fi.qname, []).append(f"match statement at line {getattr(s, 'lineno', '?')} lowered to if/elif")
        return out
    return map_blocks(body, f)


def hoist_walrus(nz, body, fi):
    """`if (x := E) ...:` where the assignment expression is the first thing the statement evaluates: `x = E; if x ...:`"""
    if not has_node(body, ast.NamedExpr, nested=True):
        return body

    def spine(e):
        """the NamedExpr evaluated first and unconditionally in e, with a setter replacing it"""
        if isinstance(e, ast.NamedExpr):
            return e, None
        if isinstance(e, ast.BoolOp):
            r = spine(e.values[0])
            return (r[0], (e.values, 0) if r[1] is None else r[1]) if r else None
        if isinstance(e, ast.Compare):
            r = spine(e.left)
            return (r[0], (e, "left") if r[1] is None else r[1]) if r else None
        if isinstance(e, ast.UnaryOp):
            r = spine(e.operand)
            return (r[0], (e, "operand") if r[1] is None else r[1]) if r else None
        if isinstance(e, ast.Attribute):
            r = spine(e.value)
            return (r[0], (e, "value") if r[1] is None else r[1]) if r else None
        if isinstance(e, ast.Subscript):
            r = spine(e.value)
            return (r[0], (e, "value") if r[1] is None else r[1]) if r else None
        if isinstance(e, ast.Call):
            if isinstance(e.func, ast.Attribute):
                r = spine(e.func.value)
                return (r[0], (e.func, "value") if r[1] is None else r[1]) if r else None
            if isinstance(e.func, ast.Name) and e.args and not isinstance(e.args[0], ast.Starred):
                r = spine(e.args[0])
                return (r[0], (e.args, 0) if r[1] is None else r[1]) if r else None
        return None

    def f(stmts):
        out = []
        for s in stmts:
            fld = "test" if isinstance(s, (ast.If, ast.Assert)) else "value" if isinstance(s, (ast.Assign, ast.Expr, ast.Return, ast.AugAssign)) and getattr(s, "value", None) is not None \
                else "iter" if isinstance(s, ast.For) else None
            done = False
            if fld:
                e = getattr(s, fld)
                r = spine(e)
                if r and isinstance(r[0].target, ast.Name):
                    ne, setter = r
                    a = ast.copy_location(ast.Assign(targets=[ast.Name(id=ne.target.id, ctx=ast.Store())], value=ne.value, lineno=s.lineno), s)
                    repl = ast.copy_location(ast.Name(id=ne.target.id, ctx=ast.Load()), ne)
                    if setter is None:
                        setattr(s, fld, repl)
                    elif isinstance(setter[0], list):
                        setter[0][setter[1]] = repl
                    else:
                        setattr(setter[0], setter[1], repl)
                    out.extend([a, s])
                    nz._local_touched = True
                    nz.log.setdefault(fi.qname, []).append(f"assignment expression `{ne.target.id} := ...` hoisted at line {getattr(s, 'lineno', '?')}")
                    done = True
            if not done:
                out.append(s)
        return out
    return map_blocks(body, f)


# ---------------------------------------------------------------------------------------------- fold

class Fold(ast.NodeTransformer):
    def __init__(self, nz):
        self.nz = nz
        self.body = None

    def _literal(self, e):
        """module-level or single-assignment local literal sequence an expression stands for"""
        lit = self._module_literal(e)
        if lit is e and isinstance(e, ast.Name) and self.body is not None:
            r = literal_of(self.nz, self.body, self.nz.cur, e, (ast.Tuple, ast.List))
            if r is not None:
                return r[0]
            # bound in the statement just before the one being rewritten: nothing can have changed in between
            pv = getattr(self, "_prev_stmt", None)
            if isinstance(pv, ast.Assign) and len(pv.targets) == 1 and isinstance(pv.targets[0], ast.Name) and pv.targets[0].id == e.id \
                    and isinstance(pv.value, (ast.Tuple, ast.List)) and single_assignment(self.body, e.id) is pv:
                return pv.value
        return lit

    def _filtered_comp(self, v):
        """[elt for t in LIT if cond] over a literal sequence -> [(cond_i, elt_i)], else None"""
        if not (isinstance(v, ast.ListComp) and len(v.generators) == 1 and v.generators[0].ifs and not v.generators[0].is_async):
            return None
        g = v.generators[0]
        lit = self._literal(g.iter)
        if not (isinstance(lit, (ast.Tuple, ast.List)) and 0 < len(lit.elts) <= MAX_UNROLL and all(is_pure(e) for e in lit.elts)):
            return None
        rows = []
        for e in lit.elts:
            if isinstance(g.target, ast.Name):
                sub = {g.target.id: e}
            elif isinstance(g.target, (ast.Tuple, ast.List)) and isinstance(e, (ast.Tuple, ast.List)) and len(g.target.elts) == len(e.elts) \
                    and all(isinstance(t, ast.Name) for t in g.target.elts):
                sub = {t.id: x for t, x in zip(g.target.elts, e.elts)}
            else:
                return None
            try:
                conds = [Subst({}, sub).visit(copy.deepcopy(c)) for c in g.ifs]
                elt = Subst({}, sub).visit(copy.deepcopy(v.elt))
            except NotInlinable:
                return None
            rows.append((conds[0] if len(conds) == 1 else ast.BoolOp(op=ast.And(), values=conds), elt))
        return rows

    def _comp_statements(self, target_name, rows, at):
        out = [ast.Assign(targets=[ast.Name(id=target_name, ctx=ast.Store())], value=ast.List(elts=[], ctx=ast.Load()), lineno=at.lineno)]
        for cond, elt in rows:
            app = ast.Expr(value=ast.Call(func=ast.Attribute(value=ast.Name(id=target_name, ctx=ast.Load()), attr="append", ctx=ast.Load()), args=[elt], keywords=[]))
            out.append(ast.If(test=cond, body=[app], orelse=[]))
        for x in out:
            ast.copy_location(x, at)
            for y in ast.walk(x):
                if not hasattr(y, "lineno"):
                    ast.copy_location(y, at)
            ast.fix_missing_locations(x)
        return out

    def generic_visit(self, node):
        # statement lists: remember the statement that precedes the one being visited
        for fld, old in ast.iter_fields(node):
            if isinstance(old, list) and old and isinstance(old[0], ast.stmt):
                new = []
                prev = None
                for st in old:
                    self._prev_stmt = prev
                    r = self.visit(st)
                    prev = st
                    if r is None:
                        continue
                    new.extend(r if isinstance(r, list) else [r])
                old[:] = new
            elif isinstance(old, list):
                new = []
                for v in old:
                    if isinstance(v, ast.AST):
                        v = self.visit(v)
                        if v is None:
                            continue
                        if not isinstance(v, ast.AST):
                            new.extend(v)
                            continue
                    new.append(v)
                old[:] = new
            elif isinstance(old, ast.AST):
                r = self.visit(old)
                if r is None:
                    delattr(node, fld)
                else:
                    setattr(node, fld, r)
        return node

    def block(self, stmts):
        if self.body is None:
            self.body = stmts
        out = []
        prev = None
        for s in stmts:
            self._prev_stmt = prev
            prev = s
            r = self.visit(s)
            if r is None:
                continue
            out.extend(r if isinstance(r, list) else [r])
        return out

    # ---- functional idioms -> comprehensions (same values, same order, same laziness as far as the library can observe)
    def _ext(self, e):
        """dotted external name an expression resolves to ('itertools.chain', 'operator.attrgetter', ...) or builtin name"""
        fi = self.nz.cur
        if isinstance(e, ast.Name):
            if e.id in ("map", "filter", "next", "list", "tuple", "any", "all", "sum", "sorted", "iter") and e.id not in self.nz.used_locals:
                return e.id
        if isinstance(e, (ast.Name, ast.Attribute)):
            try:
                r = self.nz.prog.resolve_name_expr(fi.module, e)
            except Exception:
                r = None
            if r and r[0] == "external":
                return r[1]
        return None

    def _fresh(self, base):
        return self.nz.fresh(base)

    def _apply(self, f, arg):
        """the expression f(arg) with getter objects applied symbolically"""
        if isinstance(f, ast.Call) and not f.keywords and f.args and all(isinstance(a, ast.Constant) and isinstance(a.value, str) and a.value.isidentifier() for a in f.args) \
                and self._ext(f.func) == "operator.attrgetter":
            parts = [ast.Attribute(value=copy.deepcopy(arg), attr=a.value, ctx=ast.Load()) for a in f.args]
            return parts[0] if len(parts) == 1 else ast.Tuple(elts=parts, ctx=ast.Load())
        if isinstance(f, ast.Call) and not f.keywords and f.args and all(isinstance(a, ast.Constant) for a in f.args) and self._ext(f.func) == "operator.itemgetter":
            parts = [ast.Subscript(value=copy.deepcopy(arg), slice=a, ctx=ast.Load()) for a in f.args]
            return parts[0] if len(parts) == 1 else ast.Tuple(elts=parts, ctx=ast.Load())
        if isinstance(f, ast.Call) and self._ext(f.func) == "operator.methodcaller" and f.args and isinstance(f.args[0], ast.Constant) and isinstance(f.args[0].value, str) \
                and f.args[0].value.isidentifier() and not any(isinstance(a, ast.Starred) for a in f.args) and not any(k.arg is None for k in f.keywords):
            # methodcaller("m", a, k=v)(x) is x.m(a, k=v)
            return ast.Call(func=ast.Attribute(value=copy.deepcopy(arg), attr=f.args[0].value, ctx=ast.Load()), args=[copy.deepcopy(a) for a in f.args[1:]],
                            keywords=[copy.deepcopy(k) for k in f.keywords])
        if isinstance(f, ast.Call) and self._ext(f.func) == "functools.partial" and f.args and is_atom(f.args[0]) and not any(isinstance(a, ast.Starred) for a in f.args) \
                and not any(k.arg is None for k in f.keywords):
            # partial(g, a, k=v)(x) is g(a, x, k=v)
            return ast.Call(func=copy.deepcopy(f.args[0]), args=[copy.deepcopy(a) for a in f.args[1:]] + [arg], keywords=[copy.deepcopy(k) for k in f.keywords])
        if isinstance(f, ast.Lambda):
            a = f.args
            if not (a.vararg or a.kwarg or a.kwonlyargs or a.defaults or a.posonlyargs) and len(a.args) == 1 and is_atom(arg):
                try:
                    return Subst({}, {a.args[0].arg: arg}).visit(copy.deepcopy(f.body))
                except NotInlinable:
                    return None
            return None
        if is_atom(f):
            return ast.Call(func=copy.deepcopy(f), args=[arg], keywords=[])
        return None

    def _module_literal(self, e):
        """the literal tuple / list of constants a module-level name stands for (else the expression itself)"""
        if isinstance(e, (ast.Name, ast.Attribute)):
            fi = self.nz.cur
            if isinstance(e, ast.Name) and e.id in self.nz.used_locals:
                return e
            try:
                r = self.nz.prog.resolve_name_expr(fi.module, e)
            except Exception:
                r = None
            if r and r[0] == "const" and r[1].const_multi.get(r[2], 0) == 1:
                v = r[1].consts.get(r[2])
                if isinstance(v, (ast.Tuple, ast.List)) and all(isinstance(x, ast.Constant) for x in v.elts):
                    return v
        return e

    def _module_getter(self, f):
        """operator.attrgetter(...) / itemgetter(...) call a module-level name is bound to, with *CONSTANT arguments expanded"""
        if not isinstance(f, (ast.Name, ast.Attribute)):
            return None
        fi = self.nz.cur
        if isinstance(f, ast.Name) and f.id in self.nz.used_locals:
            return None
        try:
            r = self.nz.prog.resolve_name_expr(fi.module, f)
        except Exception:
            return None
        if not (r and r[0] == "const" and r[1].const_multi.get(r[2], 0) == 1):
            return None
        v = r[1].consts.get(r[2])
        if not (isinstance(v, ast.Call) and not v.keywords):
            return None
        try:
            rr = self.nz.prog.resolve_name_expr(r[1], v.func)
        except Exception:
            rr = None
        if not (rr and rr[0] == "external" and rr[1] in ("operator.attrgetter", "operator.itemgetter")):
            return None
        args = []
        for a in v.args:
            if isinstance(a, ast.Starred):
                try:
                    c = self.nz.prog.const(r[1], a.value)
                except Exception:
                    return None
                if not isinstance(c, (tuple, list)):
                    return None
                args.extend(ast.Constant(value=x) for x in c)
            else:
                args.append(a)
        func = ast.Attribute(value=ast.Name(id="operator", ctx=ast.Load()), attr=rr[1].split(".")[1], ctx=ast.Load())
        g = ast.Call(func=func, args=args, keywords=[])
        g._sa_getter = rr[1]
        return g

    def _lower_functional(self, n):
        # a module-level getter object applied to one argument
        if len(n.args) == 1 and not n.keywords and not isinstance(n.args[0], ast.Starred):
            g = self._module_getter(n.func)
            if g is not None:
                kind = g._sa_getter
                if kind == "operator.attrgetter" and all(isinstance(a, ast.Constant) and isinstance(a.value, str) and a.value.isidentifier() for a in g.args):
                    parts = [ast.Attribute(value=copy.deepcopy(n.args[0]), attr=a.value, ctx=ast.Load()) for a in g.args]
                    return parts[0] if len(parts) == 1 else ast.Tuple(elts=parts, ctx=ast.Load())
                if kind == "operator.itemgetter" and all(isinstance(a, ast.Constant) for a in g.args):
                    parts = [ast.Subscript(value=copy.deepcopy(n.args[0]), slice=a, ctx=ast.Load()) for a in g.args]
                    return parts[0] if len(parts) == 1 else ast.Tuple(elts=parts, ctx=ast.Load())
        if isinstance(n.func, ast.Name) and n.func.id == "zip" and "zip" not in self.nz.used_locals and not n.keywords and len(n.args) >= 2:
            lits = [self._module_literal(a) for a in n.args]
            if all(isinstance(x, (ast.Tuple, ast.List)) and not any(isinstance(e, ast.Starred) for e in x.elts) for x in lits) \
                    and len({len(x.elts) for x in lits}) == 1 and all(is_pure(e) for x in lits for e in x.elts) and len(lits[0].elts) <= MAX_UNROLL:
                return ast.Tuple(elts=[ast.Tuple(elts=[copy.deepcopy(x.elts[i]) for x in lits], ctx=ast.Load()) for i in range(len(lits[0].elts))], ctx=ast.Load())
        if isinstance(n.func, ast.Call) and len(n.args) == 1 and not n.keywords and not isinstance(n.args[0], ast.Starred) \
                and self._ext(n.func.func) in ("operator.methodcaller", "functools.partial"):
            r = self._apply(n.func, n.args[0])
            if r is not None:
                return r
        if isinstance(n.func, ast.Name) and n.func.id == "zip" and "zip" not in self.nz.used_locals and not n.keywords and len(n.args) >= 2 \
                and isinstance(n.args[0], ast.Name) and all(isinstance(g, ast.GeneratorExp) and len(g.generators) == 1 and not g.generators[0].ifs
                                                           and not g.generators[0].is_async and isinstance(g.generators[0].target, ast.Name)
                                                           and isinstance(g.generators[0].iter, ast.Name) and g.generators[0].iter.id == n.args[0].id
                                                           for g in n.args[1:]):
            # zip(A, (f(x) for x in A), ...) pairs every element of A with what the generators make of that very element
            v = self._fresh("x")
            elts = [ast.Name(id=v, ctx=ast.Load())]
            try:
                for g in n.args[1:]:
                    elts.append(Subst({}, {g.generators[0].target.id: ast.Name(id=v, ctx=ast.Load())}).visit(copy.deepcopy(g.elt)))
            except NotInlinable:
                elts = None
            if elts is not None:
                return ast.GeneratorExp(elt=ast.Tuple(elts=elts, ctx=ast.Load()),
                                        generators=[ast.comprehension(target=ast.Name(id=v, ctx=ast.Store()), iter=n.args[0], ifs=[], is_async=0)])
        name = self._ext(n.func)
        if name is None or n.keywords:
            return None
        A = n.args
        if name == "map" and len(A) == 2:
            v = self._fresh("x")
            body = self._apply(A[0], ast.Name(id=v, ctx=ast.Load()))
            if body is not None:
                return ast.GeneratorExp(elt=body, generators=[ast.comprehension(target=ast.Name(id=v, ctx=ast.Store()), iter=A[1], ifs=[], is_async=0)])
        if name == "itertools.starmap" and len(A) == 2 and is_atom(A[0]):
            # starmap(f, zip(P, Q)) -> (f(x, y) for (x, y) in zip(P, Q));  starmap(f, it) -> (f(*t) for t in it)
            it = A[1]
            if isinstance(it, ast.Call) and isinstance(it.func, ast.Name) and it.func.id == "zip" and not it.keywords and 1 <= len(it.args) <= 4 \
                    and not any(isinstance(a, ast.Starred) for a in it.args):
                vs = [self._fresh("x") for _ in it.args]
                call = ast.Call(func=copy.deepcopy(A[0]), args=[ast.Name(id=v, ctx=ast.Load()) for v in vs], keywords=[])
                tgt = ast.Tuple(elts=[ast.Name(id=v, ctx=ast.Store()) for v in vs], ctx=ast.Store())
                return ast.GeneratorExp(elt=call, generators=[ast.comprehension(target=tgt, iter=it, ifs=[], is_async=0)])
            v = self._fresh("t")
            call = ast.Call(func=copy.deepcopy(A[0]), args=[ast.Starred(value=ast.Name(id=v, ctx=ast.Load()), ctx=ast.Load())], keywords=[])
            return ast.GeneratorExp(elt=call, generators=[ast.comprehension(target=ast.Name(id=v, ctx=ast.Store()), iter=it, ifs=[], is_async=0)])
        if name in ("filter", "itertools.filterfalse") and len(A) == 2:
            v = self._fresh("x")
            ref = ast.Name(id=v, ctx=ast.Load())
            cond = ref if (isinstance(A[0], ast.Constant) and A[0].value is None) else self._apply(A[0], ref)
            if cond is not None:
                if name != "filter":
                    cond = ast.UnaryOp(op=ast.Not(), operand=cond)
                return ast.GeneratorExp(elt=ast.Name(id=v, ctx=ast.Load()), generators=[ast.comprehension(target=ast.Name(id=v, ctx=ast.Store()), iter=A[1], ifs=[cond], is_async=0)])
        if name == "itertools.chain.from_iterable" and len(A) == 1:
            x, y = self._fresh("x"), self._fresh("y")
            inner = A[0]
            if isinstance(inner, ast.GeneratorExp) and len(inner.generators) == 1 and not inner.generators[0].is_async:
                g = inner.generators[0]
                return ast.GeneratorExp(elt=ast.Name(id=y, ctx=ast.Load()), generators=[g, ast.comprehension(target=ast.Name(id=y, ctx=ast.Store()), iter=inner.elt, ifs=[], is_async=0)])
            return ast.GeneratorExp(elt=ast.Name(id=y, ctx=ast.Load()), generators=[
                ast.comprehension(target=ast.Name(id=x, ctx=ast.Store()), iter=inner, ifs=[], is_async=0),
                ast.comprehension(target=ast.Name(id=y, ctx=ast.Store()), iter=ast.Name(id=x, ctx=ast.Load()), ifs=[], is_async=0)])
        if name == "itertools.chain" and len(A) >= 1 and not any(isinstance(a, ast.Starred) for a in A):
            x, y = self._fresh("x"), self._fresh("y")
            return ast.GeneratorExp(elt=ast.Name(id=y, ctx=ast.Load()), generators=[
                ast.comprehension(target=ast.Name(id=x, ctx=ast.Store()), iter=ast.Tuple(elts=list(A), ctx=ast.Load()), ifs=[], is_async=0),
                ast.comprehension(target=ast.Name(id=y, ctx=ast.Store()), iter=ast.Name(id=x, ctx=ast.Load()), ifs=[], is_async=0)])
        if name == "list" and len(A) == 1 and isinstance(A[0], ast.GeneratorExp):
            return ast.ListComp(elt=A[0].elt, generators=A[0].generators)
        # getter objects called directly: attrgetter("a")(x)
        if isinstance(n.func, ast.Call) and len(A) == 1:
            r = self._apply(n.func, A[0])
            if r is not None and (not isinstance(r, ast.Call) or self._ext(n.func.func) in ("operator.methodcaller", "functools.partial")):
                return r
        return None

    def visit_Call(self, n):
        n = self.generic_visit(n)
        low = self._lower_functional(n)
        if low is not None:
            self.nz._local_touched = True
            self.nz.log.setdefault(self.nz.cur.qname, []).append(f"functional idiom `{norm(n.func)}` at line {getattr(n, 'lineno', '?')} written as a comprehension")
            for x in ast.walk(low):
                if not hasattr(x, "lineno"):
                    ast.copy_location(x, n)
            return low
        if isinstance(n.func, ast.Name) and n.func.id == "getattr" and len(n.args) == 2 and not n.keywords \
                and isinstance(n.args[1], ast.Constant) and isinstance(n.args[1].value, str) and n.args[1].value.isidentifier():
            return ast.copy_location(ast.Attribute(value=n.args[0], attr=n.args[1].value, ctx=ast.Load()), n)
        if isinstance(n.func, ast.Lambda) and not n.keywords and not any(isinstance(a, ast.Starred) for a in n.args):
            lam = n.func
            a = lam.args
            if not (a.vararg or a.kwarg or a.kwonlyargs or a.defaults) and len(a.args) == len(n.args) and all(is_atom(x) for x in n.args):
                try:
                    return ast.copy_location(Subst({}, {p.arg: x for p, x in zip(a.args, n.args)}).visit(copy.deepcopy(lam.body)), n)
                except NotInlinable:
                    return n
        return n

    def visit_BinOp(self, n):
        n = self.generic_visit(n)
        if isinstance(n.op, ast.Add):
            for T in (ast.Tuple, ast.List):
                if isinstance(n.left, T) and isinstance(n.right, T) and not any(isinstance(x, ast.Starred) for x in n.left.elts + n.right.elts):
                    return ast.copy_location(T(elts=n.left.elts + n.right.elts, ctx=ast.Load()), n)
        return n

    def visit_Subscript(self, n):
        n = self.generic_visit(n)
        if isinstance(n.ctx, ast.Load) and isinstance(n.value, (ast.Tuple, ast.List)) and isinstance(n.slice, ast.Constant) and isinstance(n.slice.value, int) \
                and not any(isinstance(x, ast.Starred) for x in n.value.elts) and all(is_pure(x) for x in n.value.elts):
            i = n.slice.value
            if -len(n.value.elts) <= i < len(n.value.elts):
                return n.value.elts[i]
        return n

    def visit_ListComp(self, n):
        n = self.generic_visit(n)
        # [elt for t in (a, b, c)] over a literal: the list literal of the substituted elements
        if len(n.generators) == 1 and not n.generators[0].ifs and not n.generators[0].is_async:
            g = n.generators[0]
            lit = self._module_literal(g.iter)
            if isinstance(lit, (ast.Tuple, ast.List)) and 0 < len(lit.elts) <= MAX_UNROLL and not any(isinstance(e, ast.Starred) for e in lit.elts) \
                    and all(is_pure(e) for e in lit.elts):
                elts = []
                for e in lit.elts:
                    if isinstance(g.target, ast.Name):
                        sub = {g.target.id: e}
                    elif isinstance(g.target, (ast.Tuple, ast.List)) and isinstance(e, (ast.Tuple, ast.List)) and len(g.target.elts) == len(e.elts) \
                            and all(isinstance(t, ast.Name) for t in g.target.elts):
                        sub = {t.id: v for t, v in zip(g.target.elts, e.elts)}
                    else:
                        return n
                    try:
                        elts.append(Subst({}, sub).visit(copy.deepcopy(n.elt)))
                    except NotInlinable:
                        return n
                self.nz._local_touched = True
                self.nz.log.setdefault(self.nz.cur.qname, []).append(f"comprehension over a literal at line {getattr(n, 'lineno', '?')} unrolled")
                return ast.copy_location(ast.List(elts=elts, ctx=ast.Load()), n)
        return n

    def visit_Compare(self, n):
        n = self.generic_visit(n)
        r = self.nz.fold_test(n)
        if isinstance(r, bool):
            return ast.copy_location(ast.Constant(value=r), n)
        return n

    def _fold_in_test(self, t):
        """simplify a boolean operator with constant operands -- valid in a TEST position only (`x or ""` as a value is not `x`)"""
        if isinstance(t, ast.BoolOp) and any(isinstance(v, ast.Constant) for v in ast.walk(t)):
            r = self.nz.fold_test(t)
            if isinstance(r, bool):
                return ast.copy_location(ast.Constant(value=r), t)
            if isinstance(r, ast.AST):
                return r
        if isinstance(t, ast.UnaryOp) and isinstance(t.op, ast.Not):
            t.operand = self._fold_in_test(t.operand)
        return t

    def visit_While(self, n):
        n = self.generic_visit(n)
        return n

    def visit_IfExp(self, n):
        n = self.generic_visit(n)
        n.test = self._fold_in_test(n.test)
        t = self.nz.fold_test(n.test)
        if t is True:
            return n.body
        if t is False:
            return n.orelse
        return n

    def visit_If(self, n):
        n = self.generic_visit(n)
        n.test = self._fold_in_test(n.test)
        if len(n.body) == 1 and isinstance(n.body[0], ast.Pass) and n.orelse and getattr(n, "_sa_inl", False):
            n.test = negate(n.test)
            n.body, n.orelse = n.orelse, []
        if isinstance(n.test, ast.Constant) and getattr(n, "_sa_inl", False):
            return (n.body if n.test.value else n.orelse) or None
        return n

    def visit_Assign(self, n):
        n = self.generic_visit(n)
        if len(n.targets) == 1 and isinstance(n.targets[0], ast.Name):
            rows = self._filtered_comp(n.value)
            if rows is not None and not any(isinstance(x, ast.Name) and x.id == n.targets[0].id for c_, e_ in rows for x in list(ast.walk(c_)) + list(ast.walk(e_))):
                self.nz._local_touched = True
                return self._comp_statements(n.targets[0].id, rows, n)
        r = self._next_gen(n.value) if len(n.targets) == 1 and isinstance(n.targets[0], ast.Name) else None
        if r is not None:
            gen, default = r
            t = n.targets[0]
            if not any(isinstance(x, ast.Name) and x.id == t.id for x in ast.walk(gen)):
                hit = [ast.copy_location(ast.Assign(targets=[t], value=gen.elt, lineno=n.lineno), n), ast.copy_location(ast.Break(), n)]
                loop = self._gen_loop(gen, hit, n)
                if len(gen.generators) == 1:
                    loop[0].orelse = [ast.copy_location(ast.Assign(targets=[copy.deepcopy(t)], value=default, lineno=n.lineno), n)]
                    self.nz._local_touched = True
                    return loop
        # a.f = x = E : x = E; a.f = x   (one evaluation of E, same objects bound)
        if len(n.targets) > 1:
            names = [t for t in n.targets if isinstance(t, ast.Name)]
            if names and not any(isinstance(x, ast.Name) and x.id == names[0].id for t in n.targets if t is not names[0] for x in ast.walk(t)):
                first = ast.copy_location(ast.Assign(targets=[names[0]], value=n.value, lineno=n.lineno), n)
                rest = [ast.copy_location(ast.Assign(targets=[t], value=ast.copy_location(ast.Name(id=names[0].id, ctx=ast.Load()), n), lineno=n.lineno), n)
                        for t in n.targets if t is not names[0]]
                self.nz._local_touched = True
                self.nz.log.setdefault(self.nz.cur.qname, []).append(f"chained assignment at line {getattr(n, 'lineno', '?')} split")
                return [first] + rest
        # a, b = x, y with independent pure right-hand sides: two assignments
        if len(n.targets) == 1 and isinstance(n.targets[0], (ast.Tuple, ast.List)) and isinstance(n.value, (ast.Tuple, ast.List)) \
                and len(n.targets[0].elts) == len(n.value.elts) \
                and all(isinstance(t, ast.Name) or (isinstance(t, ast.Attribute) and isinstance(t.value, ast.Name)) for t in n.targets[0].elts) \
                and not any(isinstance(v, ast.Starred) for v in n.value.elts) and all(is_pure(v) for v in n.value.elts):
            # self.a, self.b = x[0], x[1]: the right-hand sides read neither a target name nor a target field (all are evaluated before any store)
            tn = {t.id if isinstance(t, ast.Name) else ("." + t.attr) for t in n.targets[0].elts}
            reads_field = any(isinstance(x, ast.Attribute) and ("." + x.attr) in tn for v in n.value.elts for x in ast.walk(v))
            if len(tn) == len(n.targets[0].elts) and not reads_field and not any(isinstance(x, ast.Name) and x.id in tn for v in n.value.elts for x in ast.walk(v)):
                out = []
                for t, v in zip(n.targets[0].elts, n.value.elts):
                    a = ast.copy_location(ast.Assign(targets=[t], value=v, lineno=n.lineno), n)
                    if getattr(n, "_sa_inl", False):
                        a._sa_inl = True
                    out.append(a)
                self.nz._local_touched = True
                self.nz.log.setdefault(self.nz.cur.qname, []).append(f"tuple assignment at line {getattr(n, 'lineno', '?')} split")
                return out
        return n

    def visit_For(self, n):
        n = self.generic_visit(n)
        it = n.iter
        # for v in (x for x in XS if cond):  ==  for v in XS: if cond[v/x]: ...
        if isinstance(it, ast.GeneratorExp) and len(it.generators) == 1 and isinstance(it.elt, ast.Name) and isinstance(it.generators[0].target, ast.Name) \
                and it.elt.id == it.generators[0].target.id and isinstance(n.target, ast.Name) and not n.orelse and not it.generators[0].is_async:
            g = it.generators[0]
            try:
                conds = [Subst({g.target.id: n.target.id}, {}).visit(copy.deepcopy(c)) for c in g.ifs]
            except NotInlinable:
                return n
            n.iter = g.iter
            if conds:
                test = conds[0] if len(conds) == 1 else ast.BoolOp(op=ast.And(), values=conds)
                wrapped = ast.copy_location(ast.If(test=test, body=n.body, orelse=[]), n)
                ast.fix_missing_locations(wrapped)
                n.body = [wrapped]
            self.nz._local_touched = True
        elif isinstance(it, ast.GeneratorExp) and len(it.generators) == 1 and isinstance(it.generators[0].target, ast.Name) \
                and isinstance(n.target, ast.Name) and not n.orelse and not it.generators[0].is_async \
                and not any(isinstance(x, (ast.Break, ast.Continue)) for b in n.body for x in ast.walk(b)) \
                and it.generators[0].target.id != n.target.id:
            # for v in (E(x) for x in XS if c):  ==  for x in XS: if c: v = E(x); ...   (the generator is consumed one element per round,
            # so element and body alternate exactly as before).  NOT for a list comprehension: that is a snapshot taken before the first
            # round, and a body that edits what it ranges over (for k in [k for k in d if ..]: del d[k]) depends on it (sa.normcheck, seed C14-t1)
            g = it.generators[0]
            # the generator's variable lives in the generator's own scope: it becomes a fresh local here
            nv = g.target.id if g.target.id.startswith(("x__", "y__", "t__")) else self._fresh(g.target.id)
            try:
                elt = Subst({g.target.id: nv}, {}).visit(copy.deepcopy(it.elt))
                ifs = [Subst({g.target.id: nv}, {}).visit(copy.deepcopy(c)) for c in g.ifs]
            except NotInlinable:
                return n
            bind = ast.copy_location(ast.Assign(targets=[ast.Name(id=n.target.id, ctx=ast.Store())], value=elt), n)
            inner = [bind] + n.body
            if ifs:
                test = ifs[0] if len(ifs) == 1 else ast.BoolOp(op=ast.And(), values=list(ifs))
                inner = [ast.copy_location(ast.If(test=test, body=inner, orelse=[]), n)]
            n.target = ast.Name(id=nv, ctx=ast.Store())
            n.iter = g.iter
            n.body = inner
            ast.fix_missing_locations(n)
            self.nz._local_touched = True
        return n

    def _next_gen(self, e):
        """(generator expression, default) for next((elt for ...), default)"""
        if isinstance(e, ast.Call) and self._ext(e.func) == "next" and len(e.args) == 2 and not e.keywords and isinstance(e.args[0], ast.GeneratorExp) \
                and not any(g.is_async for g in e.args[0].generators):
            return e.args[0], e.args[1]
        return None

    def _gen_loop(self, gen, leaf_stmts, at):
        """nested for/if statements running ``leaf_stmts`` for every element of the generator expression"""
        body = leaf_stmts
        for g in reversed(gen.generators):
            if g.ifs:
                test = g.ifs[0] if len(g.ifs) == 1 else ast.BoolOp(op=ast.And(), values=list(g.ifs))
                body = [ast.If(test=test, body=body, orelse=[])]
            body = [ast.For(target=g.target, iter=g.iter, body=body, orelse=[], type_comment=None)]
        for b in body:
            for x in ast.walk(b):
                if not hasattr(x, "lineno"):
                    ast.copy_location(x, at)
        return body

    def visit_Return(self, n):
        n = self.generic_visit(n)
        rows = self._filtered_comp(n.value) if n.value is not None else None
        if rows is not None:
            tmp = self.nz.fresh("_result")
            self.nz._local_touched = True
            self.nz.log.setdefault(self.nz.cur.qname, []).append(f"filtered comprehension over a literal at line {getattr(n, 'lineno', '?')} written as guarded appends")
            return self._comp_statements(tmp, rows, n) + [ast.copy_location(ast.Return(value=ast.copy_location(ast.Name(id=tmp, ctx=ast.Load()), n)), n)]
        r = self._next_gen(n.value) if n.value is not None else None
        if r is not None:
            gen, default = r
            loop = self._gen_loop(gen, [ast.copy_location(ast.Return(value=gen.elt), n)], n)
            self.nz._local_touched = True
            return loop + [ast.copy_location(ast.Return(value=default), n)]
        return n

    def visit_Expr(self, n):
        n = self.generic_visit(n)
        c = n.value
        # xs.extend(elt for ... )  ==  for ...: xs.append(elt)
        if isinstance(c, ast.Call) and isinstance(c.func, ast.Attribute) and c.func.attr == "extend" and len(c.args) == 1 and not c.keywords \
                and isinstance(c.args[0], (ast.GeneratorExp, ast.ListComp)) and is_atom(c.func.value) and not any(g.is_async for g in c.args[0].generators):
            gen = c.args[0]
            app = ast.Expr(value=ast.Call(func=ast.Attribute(value=copy.deepcopy(c.func.value), attr="append", ctx=ast.Load()), args=[gen.elt], keywords=[]))
            self.nz._local_touched = True
            self.nz.log.setdefault(self.nz.cur.qname, []).append(f"`{norm(c.func.value)}.extend(<generator>)` at line {getattr(n, 'lineno', '?')} written as a loop of appends")
            return self._gen_loop(gen, [ast.copy_location(app, n)], n)
        if isinstance(c, ast.Call) and isinstance(c.func, ast.Attribute) and c.func.attr == "extend" and len(c.args) == 1 and not c.keywords \
                and isinstance(c.args[0], (ast.List, ast.Tuple)) and not any(isinstance(x, ast.Starred) for x in c.args[0].elts) and is_atom(c.func.value):
            out = []
            for x in c.args[0].elts:
                call = ast.Call(func=ast.Attribute(value=copy.deepcopy(c.func.value), attr="append", ctx=ast.Load()), args=[x], keywords=[])
                st = ast.copy_location(ast.Expr(value=ast.copy_location(call, x)), x if hasattr(x, "lineno") else n)
                if getattr(n, "_sa_inl", False):
                    st._sa_inl = True
                out.append(st)
            return out or None
        return n


def negate(t):
    inv = {ast.In: ast.NotIn, ast.NotIn: ast.In, ast.Eq: ast.NotEq, ast.NotEq: ast.Eq, ast.Is: ast.IsNot, ast.IsNot: ast.Is}
    if isinstance(t, ast.UnaryOp) and isinstance(t.op, ast.Not):
        return t.operand
    if isinstance(t, ast.Compare) and len(t.ops) == 1 and type(t.ops[0]) in inv:
        return ast.copy_location(ast.Compare(left=t.left, ops=[inv[type(t.ops[0])]()], comparators=t.comparators), t)
    return ast.copy_location(ast.UnaryOp(op=ast.Not(), operand=t), t)


# ---------------------------------------------------------------------------------------------- resolving literal tables

def single_assignment(body, name):
    """the one Assign statement binding ``name`` in the function, or None"""
    found = None
    cnt = 0
    for n in walk_stmts(body, nested=False):
        if isinstance(n, ast.Name) and n.id == name and isinstance(n.ctx, (ast.Store, ast.Del)):
            cnt += 1
        elif isinstance(n, ast.Assign) and len(n.targets) == 1 and isinstance(n.targets[0], ast.Name) and n.targets[0].id == name:
            found = n
        elif isinstance(n, (ast.FunctionDef, ast.ClassDef)) and n.name == name:
            cnt += 1
    for n in walk_stmts(body):
        if isinstance(n, ast.arg) and n.arg == name:
            cnt += 1
    return found if cnt == 1 else None


def store_count(body, name, params=()):
    c = 1 if name in params else 0
    for n in walk_stmts(body, nested=False):
        if isinstance(n, ast.Name) and n.id == name and isinstance(n.ctx, (ast.Store, ast.Del)):
            c += 1
        elif isinstance(n, (ast.FunctionDef, ast.ClassDef)) and n.name == name:
            c += 1
        elif isinstance(n, ast.ExceptHandler) and n.name == name:
            c += 1
    return c


def stable_expr(body, e, params) -> bool:
    """names read by ``e`` are bound at most once in the function, attributes read are never stored in it"""
    attr_stores = {n.attr for n in walk_stmts(body) if isinstance(n, ast.Attribute) and isinstance(n.ctx, (ast.Store, ast.Del))}
    for n in ast.walk(e):
        if isinstance(n, ast.Name) and store_count(body, n.id, params) > 1:
            return False
        if isinstance(n, ast.Attribute) and (n.attr in attr_stores or n.attr.lstrip("_") in {a.lstrip("_") for a in attr_stores}):
            return False
    return True


def literal_of(nz, body, fi, e, kinds):
    """the literal (ast.Tuple/List/Dict) the expression denotes: itself, a single-assignment local, or a module constant.
    Returns (literal, 'local'|'module'|'self', assign stmt or None)"""
    if isinstance(e, kinds):
        return e, "self", None
    if isinstance(e, ast.Name):
        a = single_assignment(body, e.id)
        if a is not None and isinstance(a.value, kinds) and e.id not in fi.params:
            if stable_expr(body, a.value, fi.params):
                return a.value, "local", a
            return None
    if isinstance(e, (ast.Name, ast.Attribute)):
        if isinstance(e, ast.Name) and (store_count(body, e.id, fi.params) > 0):
            return None
        try:
            r = nz.prog.resolve_name_expr(fi.module, e)
        except Exception:
            r = None
        if r and r[0] == "const":
            mi, nm = r[1], r[2]
            v = mi.consts.get(nm)
            if isinstance(v, kinds) and mi.const_multi.get(nm, 0) == 1:
                if mi is fi.module or all(isinstance(x, ast.Constant) or (isinstance(x, ast.Tuple) and all(isinstance(y, ast.Constant) for y in x.elts))
                                          for x in (v.elts if not isinstance(v, ast.Dict) else list(v.keys) + list(v.values))):
                    return v, "module", None
    return None


# ---------------------------------------------------------------------------------------------- unroll

def unroll(nz, body, fi):
    def names_only(e):
        """the expression reads nothing but local names and constants (records built from locals, tuples of them)"""
        for n in ast.walk(e):
            if isinstance(n, (ast.Attribute, ast.Subscript, ast.Await, ast.Yield, ast.YieldFrom, ast.NamedExpr, ast.Lambda, ast.ListComp, ast.GeneratorExp, ast.DictComp, ast.SetComp)):
                if not (isinstance(n, ast.Attribute) and nz.prog.const(fi.module, n) is not UNKNOWN):
                    return False
            if isinstance(n, ast.Call) and namedtuple_fields(nz, fi, n.func) is None:
                return False
        return True

    def f(stmts):
        out = []
        for idx, s in enumerate(stmts):
            # checks = (Rec(a, K1, "m1"), Rec(b, K2, "m2")); for c in checks: ...  -- the literal sits right in front of its only use and reads
            # locals the loop body does not re-bind: the loop ranges over the literal itself
            if isinstance(s, ast.For) and isinstance(s.iter, ast.Name) and out and isinstance(out[-1], ast.Assign) and len(out[-1].targets) == 1 \
                    and isinstance(out[-1].targets[0], ast.Name) and out[-1].targets[0].id == s.iter.id and isinstance(out[-1].value, (ast.Tuple, ast.List)) \
                    and single_assignment(body_ref[0], s.iter.id) is out[-1] and name_loads(body_ref[0], s.iter.id) == 1 and names_only(out[-1].value) \
                    and not ({x.id for x in ast.walk(out[-1].value) if isinstance(x, ast.Name)} & stored_names(s.body)):
                s2 = copy.copy(s)
                s2.iter = out[-1].value
                r = try_unroll(nz, body_ref[0], fi, s2)
                if r is not None:
                    out.pop()
                    nz._local_touched = True
                    nz.log.setdefault(fi.qname, []).append(f"unrolled loop over the local literal `{s.iter.id}` at line {getattr(s, 'lineno', '?')}")
                    out.extend(r)
                    continue
            r = try_unroll(nz, body_ref[0], fi, s) if isinstance(s, ast.For) else None
            if r is None:
                out.append(s)
            else:
                nz._local_touched = True
                nz.log.setdefault(fi.qname, []).append(f"unrolled loop at line {getattr(s, 'lineno', '?')}")
                out.extend(r)
        return out
    body_ref = [body]
    return map_blocks(body, f)


def try_unroll(nz, body, fi, s: ast.For):
    if s.orelse or isinstance(s, ast.AsyncFor):
        return None
    it = s.iter
    start = 0
    enum = False
    items = False
    if isinstance(it, ast.Call) and isinstance(it.func, ast.Name) and it.func.id == "enumerate" and 1 <= len(it.args) <= 2 and not it.keywords:
        if len(it.args) == 2:
            if not (isinstance(it.args[1], ast.Constant) and isinstance(it.args[1].value, int)):
                return None
            start = it.args[1].value
        enum = True
        it = it.args[0]
    if isinstance(it, ast.Call) and isinstance(it.func, ast.Attribute) and it.func.attr == "items" and not it.args and not it.keywords:
        items = True
        it = it.func.value
    lit = literal_of(nz, body, fi, it, (ast.Dict,) if items else (ast.Tuple, ast.List))
    if lit is None:
        return None
    lit, where, assign = lit
    if items:
        if any(k is None for k in lit.keys):
            return None
        elems = [ast.Tuple(elts=[k, v], ctx=ast.Load()) for k, v in zip(lit.keys, lit.values)]
    else:
        elems = list(lit.elts)
    if not (1 <= len(elems) <= MAX_UNROLL) or any(isinstance(x, ast.Starred) for x in elems):
        return None
    if enum:
        elems = [ast.Tuple(elts=[ast.Constant(value=start + i), x], ctx=ast.Load()) for i, x in enumerate(elems)]
    # no break / continue bound to this loop
    def own_jump(stmts):
        for x in stmts:
            if isinstance(x, (ast.Break, ast.Continue)):
                return True
            if isinstance(x, (ast.For, ast.While, ast.FunctionDef, ast.AsyncFunctionDef, ast.ClassDef)):
                continue
            for fld in ("body", "orelse", "finalbody"):
                b = getattr(x, fld, None)
                if isinstance(b, list) and b and isinstance(b[0], ast.stmt) and own_jump(b):
                    return True
            if isinstance(x, ast.Try) and any(own_jump(h.body) for h in x.handlers):
                return True
        return False
    if own_jump(s.body):
        return None
    if count_nodes(s.body) * len(elems) > 4000:
        return None
    tgt = s.target
    tnames = {n.id for n in ast.walk(tgt) if isinstance(n, ast.Name)}
    if any(name_loads(body, t) != name_loads(s.body, t) for t in tnames):
        return None  # the loop variable is read after the loop
    assigned = stored_names(s.body)
    mutates = any((isinstance(n, ast.Subscript) and isinstance(n.ctx, (ast.Store, ast.Del))) for n in walk_stmts(s.body))

    def pairs(t, e):
        if isinstance(t, ast.Name):
            return [(t.id, e)]
        if isinstance(t, (ast.Tuple, ast.List)) and isinstance(e, (ast.Tuple, ast.List)) and len(t.elts) == len(e.elts) \
                and not any(isinstance(x, ast.Starred) for x in list(t.elts) + list(e.elts)):
            out = []
            for a, b in zip(t.elts, e.elts):
                r = pairs(a, b)
                if r is None:
                    return None
                out.extend(r)
            return out
        return None
    out = []
    for e in elems:
        # a record built on the spot whose fields are the only thing the body looks at: the fields are read off the constructor call
        if isinstance(tgt, ast.Name) and isinstance(e, ast.Call) and not any(isinstance(a, ast.Starred) for a in e.args) and not any(k.arg is None for k in e.keywords):
            flds = namedtuple_fields(nz, fi, e.func)
            if flds is not None and len(e.args) + len(e.keywords) == len(flds) and all(is_pure(a) for a in list(e.args) + [k.value for k in e.keywords]):
                amap = dict(zip(flds, e.args))
                amap.update({k.arg: k.value for k in e.keywords})
                uses_ok = set(amap) == set(flds) and tgt.id not in assigned

                class Rd(ast.NodeTransformer):
                    bad = False

                    def visit_Attribute(self, n):
                        if isinstance(n.value, ast.Name) and n.value.id == tgt.id:
                            if isinstance(n.ctx, ast.Load) and n.attr in amap:
                                return ast.copy_location(copy.deepcopy(amap[n.attr]), n)
                            Rd.bad = True
                            return n
                        return self.generic_visit(n)

                    def visit_Name(self, n):
                        if n.id == tgt.id:
                            Rd.bad = True
                        return n
                if uses_ok:
                    Rd.bad = False
                    b = [Rd().visit(copy.deepcopy(x)) for x in s.body]
                    if not Rd.bad:
                        out.extend(b)
                        continue
        ps = pairs(tgt, e)
        if ps is None:
            return None
        subst, pre = {}, []
        for name, val in ps:
            if name in assigned or not (is_pure(val) and (isinstance(val, (ast.Constant, ast.Name, ast.Attribute)) or name_loads(s.body, name) <= 2 or not mutates)):
                pre.append(ast.copy_location(ast.Assign(targets=[ast.Name(id=name, ctx=ast.Store())], value=copy.deepcopy(val), lineno=s.lineno), s))
            else:
                subst[name] = val
        try:
            b = [Subst({}, subst).visit(copy.deepcopy(x)) for x in s.body]
        except NotInlinable:
            return None
        out.extend(mark_inl(pre))
        out.extend(b)
    # names bound by the loop keep their last value after it (only matters if read later; keep it cheap: bind them when read after)
    return out


# ---------------------------------------------------------------------------------------------- SROA

def namedtuple_fields(nz, fi, func_expr) -> Optional[List[str]]:
    try:
        r = nz.prog.resolve_name_expr(fi.module, func_expr)
    except Exception:
        return None
    if r and r[0] == "const":
        v = r[1].consts.get(r[2])
        if isinstance(v, ast.Call) and norm(v.func) in ("namedtuple", "collections.namedtuple") and len(v.args) >= 2 and f"{r[1].name}.{r[2]}" not in nz.baseline:
            a = v.args[1]
            if isinstance(a, (ast.List, ast.Tuple)) and all(isinstance(x, ast.Constant) and isinstance(x.value, str) for x in a.elts):
                return [x.value for x in a.elts]
            if isinstance(a, ast.Constant) and isinstance(a.value, str):
                return a.value.replace(",", " ").split()
    if r and r[0] == "class" and r[1].qname not in nz.baseline:
        ci = r[1]
        if any(norm(b) in ("NamedTuple", "typing.NamedTuple") for b in ci.node.bases):
            return [b.target.id for b in ci.node.body if isinstance(b, ast.AnnAssign) and isinstance(b.target, ast.Name)]
    return None


def view_class(nz, fi, func_expr):
    """(ClassInfo, {field: expr over ctor params}, ctor params, {property: getter expr over self}) for a small non-baseline class"""
    try:
        r = nz.prog.resolve_name_expr(fi.module, func_expr)
    except Exception:
        return None
    if not (r and r[0] == "class"):
        return None
    ci = r[1]
    if ci.qname in nz.baseline or ci.node.bases and [norm(b) for b in ci.node.bases] != ["object"]:
        return None
    init = ci.methods.get("__init__")
    if init is None:
        return None
    selfp = init.params[0]
    fields = {}
    for st in strip_doc(init.node.body):
        if isinstance(st, ast.Assign) and len(st.targets) == 1 and isinstance(st.targets[0], ast.Attribute) and isinstance(st.targets[0].value, ast.Name) \
                and st.targets[0].value.id == selfp and is_pure(st.value) and not any(isinstance(x, ast.Name) and x.id == selfp for x in ast.walk(st.value)):
            fields[st.targets[0].attr] = st.value
        elif isinstance(st, ast.Pass):
            continue
        else:
            return None
    props = {}
    for name, m in ci.methods.items():
        if m.kind == "property":
            b = strip_doc(m.node.body)
            if len(b) == 1 and isinstance(b[0], ast.Return) and b[0].value is not None:
                props[name] = (m.params[0], b[0].value)
            else:
                return None
    return ci, fields, init, props


def sroa(nz, body, fi):
    changed = True
    rounds = 0
    while changed and rounds < 4:
        changed = False
        rounds += 1
        for a in [n for n in walk_stmts(body, nested=False) if isinstance(n, ast.Assign)]:
            if not (len(a.targets) == 1 and isinstance(a.targets[0], ast.Name) and isinstance(a.value, ast.Call)):
                continue
            b = a.targets[0].id
            call = a.value
            if not isinstance(call.func, (ast.Name, ast.Attribute)) or b in fi.params:
                continue
            if any(isinstance(x, ast.Starred) for x in call.args) or any(k.arg is None for k in call.keywords):
                continue
            fields = namedtuple_fields(nz, fi, call.func)
            if fields is None and view_class(nz, fi, call.func) is None:
                continue
            if single_assignment(body, b) is not a:
                continue
            field_vals: Dict[str, ast.expr] = {}
            props = {}
            cls_q = None
            if fields is not None:
                if len(call.args) > len(fields):
                    continue
                for i, x in enumerate(call.args):
                    field_vals[fields[i]] = x
                for k in call.keywords:
                    if k.arg not in fields or k.arg in field_vals:
                        field_vals = None
                        break
                    field_vals[k.arg] = k.value
                if field_vals is None or set(field_vals) != set(fields):
                    continue
                order = fields
            else:
                vc = view_class(nz, fi, call.func)
                if vc is None:
                    continue
                ci, fexprs, init, props = vc
                cls_q = ci.qname
                pos = init.pos_params[1:]
                amap = {}
                for i, x in enumerate(call.args):
                    if i >= len(pos):
                        amap = None
                        break
                    amap[pos[i]] = x
                if amap is None:
                    continue
                for k in call.keywords:
                    amap[k.arg] = k.value
                ok = True
                for p in pos:
                    if p not in amap:
                        d = init.default_of(p)
                        if d is None:
                            ok = False
                            break
                        amap[p] = d
                if not ok or not all(is_pure(v) or name_loads([ast.Expr(value=e) for e in fexprs.values()], p) <= 1 for p, v in amap.items()):
                    continue
                try:
                    field_vals = {f: Subst({}, amap).visit(copy.deepcopy(e)) for f, e in fexprs.items()}
                except NotInlinable:
                    continue
                order = list(fexprs)
            # every other use of b is b.<field or property> in load context
            ok = True
            for n in walk_stmts(body):
                if isinstance(n, ast.Name) and n.id == b and n is not a.targets[0]:
                    ok = ok and getattr(n, "_sa_ok", False)
                if isinstance(n, ast.Attribute) and isinstance(n.value, ast.Name) and n.value.id == b:
                    if isinstance(n.ctx, ast.Load) and (n.attr in field_vals or n.attr in props):
                        n.value._sa_ok = True
            for n in walk_stmts(body):
                if isinstance(n, ast.Name) and n.id == b and n is not a.targets[0] and not getattr(n, "_sa_ok", False):
                    ok = False
            if not ok:
                continue
            names = {}
            for f in order:
                base = f"{b}__{f.lstrip('_')}"
                nm = base
                i = 1
                while nm in nz.used:
                    i += 1
                    nm = f"{base}{i}"
                nz.used.add(nm)
                names[f] = nm
            new_assigns = mark_inl([ast.copy_location(ast.Assign(targets=[ast.Name(id=names[f], ctx=ast.Store())], value=field_vals[f], lineno=a.lineno), a)
                                    for f in order])

            class R(ast.NodeTransformer):
                def visit_Attribute(self_, n):
                    if isinstance(n.value, ast.Name) and n.value.id == b and isinstance(n.ctx, ast.Load):
                        if n.attr in names:
                            return ast.copy_location(ast.Name(id=names[n.attr], ctx=ast.Load()), n)
                        if n.attr in props:
                            sp, ge = props[n.attr]
                            g = copy.deepcopy(ge)

                            class P(ast.NodeTransformer):
                                def visit_Attribute(s2, m):
                                    if isinstance(m.value, ast.Name) and m.value.id == sp and m.attr in names:
                                        return ast.copy_location(ast.Name(id=names[m.attr], ctx=ast.Load()), n)
                                    return s2.generic_visit(m)
                            g = P().visit(g)
                            if any(isinstance(x, ast.Name) and x.id == sp for x in ast.walk(g)):
                                raise NotInlinable("property uses self otherwise")
                            for x in ast.walk(g):
                                ast.copy_location(x, n)
                            return g
                    return self_.generic_visit(n)

            def rewrite(stmts):
                out = []
                for s in stmts:
                    if s is a:
                        out.extend(new_assigns)
                    else:
                        out.append(s)
                return out
            try:
                body2 = map_blocks(copy.deepcopy(body) if False else body, rewrite)
                body2 = [R().visit(s) for s in body2]
            except NotInlinable:
                continue
            body = body2
            if cls_q:
                nz.sroa_classes.add(cls_q)
            nz._local_touched = True
            nz.log.setdefault(fi.qname, []).append(f"scalar replacement of `{b}` at line {getattr(a, 'lineno', '?')}")
            changed = True
            break
    return body


# ---------------------------------------------------------------------------------------------- dispatch lowering

def value_kind(nz, fi, body, v) -> Optional[str]:
    """'none' | 'truthy' | 'falsy' | None (unknown) for a dispatch-table value"""
    if isinstance(v, ast.Constant):
        return "none" if v.value is None else ("truthy" if v.value else "falsy")
    if isinstance(v, ast.Lambda):
        return "truthy"
    if isinstance(v, ast.Name) and v.id in nz.closures:
        return "truthy"
    if isinstance(v, ast.Attribute) and isinstance(v.value, ast.Name) and fi.cls is not None and fi.params and v.value.id == fi.params[0] \
            and nz.world.lookup_method(fi.cls, v.attr) is not None:
        return "truthy"
    if isinstance(v, (ast.Name, ast.Attribute)):
        try:
            r = nz.prog.resolve_name_expr(fi.module, v)
        except Exception:
            r = None
        if r and r[0] in ("func", "class"):
            return "truthy"
        try:
            c = nz.prog.const(fi.module, v)
        except Exception:
            c = None
        if isinstance(c, EnumMember):
            return "truthy"
        if isinstance(c, (str, int, float, tuple)) and not isinstance(c, bool):
            return "truthy" if c else "falsy"
    t = const_truth(v)
    if t is not None:
        return "truthy" if t else "falsy"
    return None


def lower_dispatch(nz, body, fi):
    def f(stmts):
        for i, s in enumerate(stmts):
            r = try_lower(nz, body_ref[0], fi, stmts, i)
            if r is not None:
                nz._local_touched = True
                nz.log.setdefault(fi.qname, []).append(f"constant-dict dispatch lowered at line {getattr(s, 'lineno', '?')}")
                return f(r)
        return stmts
    body_ref = [body]
    return map_blocks(body, f)


def try_lower(nz, body, fi, stmts, i):
    s = stmts[i]
    # f = D.get(k[, default])
    if not (isinstance(s, ast.Assign) and len(s.targets) == 1 and isinstance(s.targets[0], ast.Name) and isinstance(s.value, ast.Call)
            and isinstance(s.value.func, ast.Attribute) and s.value.func.attr == "get" and 1 <= len(s.value.args) <= 2 and not s.value.keywords):
        return None
    fname = s.targets[0].id
    if store_count(body, fname, fi.params) != 1:
        return None
    key = s.value.args[0]
    if not is_pure(key):
        return None
    default = s.value.args[1] if len(s.value.args) == 2 else ast.Constant(value=None)
    lit = literal_of(nz, body, fi, s.value.func.value, (ast.Dict,))
    if lit is None:
        return None
    D, where, assign = lit
    if not D.keys or any(k is None or not isinstance(k, ast.Constant) for k in D.keys) or len(D.keys) > 40:
        return None
    if i + 1 >= len(stmts) or not isinstance(stmts[i + 1], ast.If):
        return None
    iff = stmts[i + 1]
    t = iff.test
    form = None
    if isinstance(t, ast.Name) and t.id == fname:
        form = "truthy"
    elif isinstance(t, ast.UnaryOp) and isinstance(t.op, ast.Not) and isinstance(t.operand, ast.Name) and t.operand.id == fname:
        form = "falsy"
    elif isinstance(t, ast.Compare) and len(t.ops) == 1 and isinstance(t.left, ast.Name) and t.left.id == fname \
            and isinstance(t.comparators[0], ast.Constant) and t.comparators[0].value is None:
        form = "notnone" if isinstance(t.ops[0], ast.IsNot) else "isnone" if isinstance(t.ops[0], ast.Is) else None
    if form is None:
        return None
    # loads of f outside the statements that follow in this block?
    following = stmts[i + 1:]
    total = name_loads(body, fname)
    if name_loads(following, fname) != total:
        return None
    rest = stmts[i + 2:]
    pos_branch, neg_branch = (iff.body, iff.orelse) if form in ("truthy", "notnone") else (iff.orelse, iff.body)

    def with_rest(branch):
        if terminates(branch):
            return list(branch)
        return list(branch) + list(rest)
    POS, NEG = with_rest(pos_branch or []), with_rest(neg_branch or [])
    kinds = [value_kind(nz, fi, body, v) for v in D.values]
    dk = value_kind(nz, fi, body, default)
    if any(k is None for k in kinds) or dk is None:
        return None

    def goes_pos(k):
        if form in ("notnone", "isnone"):
            return k != "none"
        return k == "truthy"
    if count_nodes(POS) * len(D.keys) > 6000:
        return None
    arms = []
    try:
        for k, v, kd in zip(D.keys, D.values, kinds):
            src = POS if goes_pos(kd) else NEG
            arm = [Subst({}, {fname: v}).visit(copy.deepcopy(x)) for x in src] or [ast.Pass()]
            arms.append((k, arm))
        dflt = [Subst({}, {fname: default}).visit(copy.deepcopy(x)) for x in (POS if goes_pos(dk) else NEG)]
    except NotInlinable:
        return None
    chain = None
    for k, arm in reversed(arms):
        test = ast.copy_location(ast.Compare(left=copy.deepcopy(key), ops=[ast.Eq()], comparators=[copy.deepcopy(k)]), iff)
        node = ast.copy_location(ast.If(test=test, body=arm, orelse=[chain] if chain is not None else dflt), iff)
        chain = node
    mark_inl([chain])
    out = stmts[:i] + [chain]      # f is not read any more: the lookup itself (a dict literal's .get) has no effect
    # the table, if it was a local literal only this lookup used
    if where == "local" and assign is not None:
        dname = s.value.func.value.id
        if name_loads(body, dname) == 1:
            assign._sa_dead = True
    return out


# ---------------------------------------------------------------------------------------------- copy propagation

def copyprop(nz, body, fi, touched):
    if not touched:
        return body
    for _ in range(40):
        cand = None
        for a in [n for n in walk_stmts(body, nested=False) if isinstance(n, ast.Assign)]:
            if not (len(a.targets) == 1 and isinstance(a.targets[0], ast.Name)):
                continue
            x = a.targets[0].id
            if x in fi.params or single_assignment(body, x) is not a:
                continue
            v = a.value
            loads = name_loads(body, x)
            inl = getattr(a, "_sa_inl", False)
            ok = False
            if loads == 0:
                ok = inl and is_pure(v)
            elif inl and isinstance(v, ast.Name):
                ok = store_count(body, v.id, fi.params) <= 1
            elif inl and isinstance(v, ast.Attribute) and is_atom(v):
                ok = stable_expr(body, v, fi.params) and _no_call_before_uses(body, a, x)
            elif inl and isinstance(v, ast.Tuple) and is_pure(v):
                ok = stable_expr(body, v, fi.params) and (loads <= 3)
            elif inl and is_pure(v) and not isinstance(v, (ast.List, ast.Dict)) and loads == 1:
                ok = stable_expr(body, v, fi.params)
            elif loads == 1 and ((isinstance(v, ast.Call) and isinstance(v.func, ast.Name) and v.func.id in ("range", "reversed", "enumerate", "zip") and is_pure(v))
                                 or (isinstance(v, ast.Tuple) and is_pure(v) and len(v.elts) > 0 and all(isinstance(e, ast.Tuple) for e in v.elts))):
                ok = stable_expr(body, v, fi.params) and _use_is_inl_or_loop(body, x)
            if ok and not _in_nested_scope_use(body, x):
                cand = (a, x, v)
                break
        if cand is None:
            break
        a, x, v = cand

        def rewrite(stmts):
            return [s for s in stmts if s is not a]
        body = map_blocks(body, rewrite)
        try:
            body = [Subst({}, {x: v}).visit(s) for s in body]
        except NotInlinable:
            break
    return body


def _no_call_before_uses(body, a, x) -> bool:
    """every read of x follows its definition in the same block with no call evaluated in between (a call could change
    what the attribute chain on the right-hand side denotes)"""
    def find_block(stmts):
        for i, s in enumerate(stmts):
            if s is a:
                return stmts, i
            for fld in ("body", "orelse", "finalbody"):
                b = getattr(s, fld, None)
                if isinstance(b, list) and b and isinstance(b[0], ast.stmt):
                    r = find_block(b)
                    if r:
                        return r
            if isinstance(s, ast.Try):
                for h in s.handlers:
                    r = find_block(h.body)
                    if r:
                        return r
        return None
    r = find_block(body)
    if r is None:
        return False
    stmts, i = r
    rest = stmts[i + 1:]
    if name_loads(rest, x) != name_loads(body, x):
        return False
    seen_call = False
    for s in rest:
        uses = any(isinstance(n, ast.Name) and n.id == x for n in ast.walk(s))
        has_call = any(isinstance(n, ast.Call) for n in ast.walk(s))
        if uses:
            if seen_call:
                return False
            if isinstance(s, (ast.For, ast.While, ast.If, ast.Try, ast.With)) and has_call:
                return False
        if has_call:
            seen_call = True
    return True


def _use_is_inl_or_loop(body, x) -> bool:
    for n in walk_stmts(body, nested=False):
        if isinstance(n, ast.For) and isinstance(n.iter, ast.Name) and n.iter.id == x:
            return True
        if isinstance(n, ast.stmt) and getattr(n, "_sa_inl", False) and any(isinstance(m, ast.Name) and m.id == x for m in ast.walk(n)):
            return True
    return False


def _in_nested_scope_use(body, x) -> bool:
    for n in walk_stmts(body, nested=False):
        if isinstance(n, (ast.FunctionDef, ast.AsyncFunctionDef)):
            if any(isinstance(m, ast.Name) and m.id == x for m in ast.walk(n)):
                return True
    for n in walk_stmts(body):
        if isinstance(n, ast.Lambda) and any(isinstance(m, ast.Name) and m.id == x for m in ast.walk(n)):
            return True
    return False


def elem_alias(nz, body, fi):
    """x = e.text (e an lxml element, whose attributes this library only reads): read e.text where x is read"""
    from .types import T_ELEM
    try:
        ft = nz.world.types(fi)
    except Exception:
        return body
    for a in [n for n in walk_stmts(body, nested=False) if isinstance(n, ast.Assign)]:
        if not (len(a.targets) == 1 and isinstance(a.targets[0], ast.Name) and isinstance(a.value, ast.Attribute) and isinstance(a.value.value, ast.Name)):
            continue
        x, p = a.targets[0].id, a.value.value.id
        if ft.env.get(p) != T_ELEM or x in fi.params or single_assignment(body, x) is not a:
            continue
        if store_count(body, p, fi.params) > 1 or _in_nested_scope_use(body, x):
            continue
        if any(isinstance(n, ast.Attribute) and isinstance(n.ctx, (ast.Store, ast.Del)) and n.attr == a.value.attr and isinstance(n.value, ast.Name)
               and n.value.id == p for n in walk_stmts(body)):
            continue
        v = a.value

        def rewrite(stmts):
            return [s for s in stmts if s is not a]
        body = map_blocks(body, rewrite)
        try:
            body = [Subst({}, {x: v}).visit(s) for s in body]
        except NotInlinable:
            return body
        nz._local_touched = True
        nz.log.setdefault(fi.qname, []).append(f"element attribute alias `{x}` resolved at line {getattr(a, 'lineno', '?')}")
    return body


def _callees(nz, f):
    """qualified names of the repository functions a call in ``f`` may reach (resolved targets; an unresolved method call
    reaches every repository function of that name)"""
    out = set()
    try:
        ft = nz.world.types(f)
    except Exception:
        ft = None
    by_name = nz._by_name
    for n in ast.walk(f.node):
        if not isinstance(n, ast.Call):
            continue
        tgs = []
        if ft is not None:
            try:
                tgs = nz.world.resolve_call(ft, n)
            except Exception:
                tgs = []
        hit = False
        for t in tgs:
            if t.func is not None:
                out.add(t.func.qname)
                hit = True
            elif t.kind in ("ext", "builtin", "method", "class"):
                hit = True
                if t.kind == "builtin" and t.name in ("setattr", "delattr"):
                    out.add("*")
        if not hit:
            nm = n.func.attr if isinstance(n.func, ast.Attribute) else n.func.id if isinstance(n.func, ast.Name) else None
            if nm:
                out |= by_name.get(nm, set())
                if nm in ("setattr", "delattr"):
                    out.add("*")
    return out


def _may_store(nz):
    """attribute name (leading underscores dropped) -> qualified names of the repository functions that may assign it,
    transitively over the resolved call graph"""
    if getattr(nz, "_may_store", None) is not None:
        return nz._may_store
    funcs = {q: f for q, f in nz.prog.funcs.items() if not q.startswith("tests.")}
    nz._by_name = {}
    for q, f in funcs.items():
        nz._by_name.setdefault(f.name, set()).add(q)
    direct: Dict[str, set] = {}
    calls: Dict[str, set] = {}
    nz._store_cls = {}   # (attribute, function) -> classes of the receivers it is stored on ('?' = unknown)
    for q, f in funcs.items():
        try:
            ftq = nz.world.types(f)
        except Exception:
            ftq = None
        for n in ast.walk(f.node):
            if isinstance(n, ast.Attribute) and isinstance(n.ctx, (ast.Store, ast.Del)):
                direct.setdefault(n.attr.lstrip("_"), set()).add(q)
                cls_ = "?"
                if isinstance(n.value, ast.Name) and f.cls is not None and f.params and n.value.id == f.params[0] and f.kind in ("method", "property", "setter"):
                    cls_ = f.cls.qname
                elif ftq is not None:
                    t_ = ftq.type_of(n.value)
                    if t_ in ("Node", "OptNode"):
                        cls_ = "metapype.model.node.Node"
                    elif t_ == "Rule":
                        cls_ = "metapype.eml.rule.Rule"
                    elif isinstance(t_, str) and (t_.startswith("inst:") or t_.startswith("class:")):
                        cls_ = t_.split(":", 1)[1]
                nz._store_cls.setdefault(n.attr.lstrip("_"), {}).setdefault(q, set()).add(cls_)
        calls[q] = _callees(nz, f)
        if "*" in calls[q]:
            direct.setdefault("*", set()).add(q)
    out = {}
    for a, fs in direct.items():
        reach = set(fs)
        changed = True
        while changed:
            changed = False
            for q, cs in calls.items():
                if q not in reach and cs & reach:
                    reach.add(q)
                    changed = True
        out[a] = reach
    nz._calls = calls
    nz._may_store = out
    return out


def _find_block(body, stmt):
    """(statement list, index) that directly contains ``stmt``"""
    def rec(stmts):
        for i, s in enumerate(stmts):
            if s is stmt:
                return stmts, i
            for fld in ("body", "orelse", "finalbody"):
                b = getattr(s, fld, None)
                if isinstance(b, list) and b and isinstance(b[0], ast.stmt):
                    r = rec(b)
                    if r:
                        return r
            if isinstance(s, ast.Try):
                for h in s.handlers:
                    r = rec(h.body)
                    if r:
                        return r
            if isinstance(s, ast.Match):
                for c in s.cases:
                    r = rec(c.body)
                    if r:
                        return r
        return None
    return rec(body)


def _enclosing_loops(body, stmt):
    out = []

    def rec(stmts, loops):
        for s in stmts:
            if s is stmt:
                out.extend(loops)
                return True
            inner = loops + [s] if isinstance(s, (ast.For, ast.While)) else loops
            for fld in ("body", "orelse", "finalbody"):
                b = getattr(s, fld, None)
                if isinstance(b, list) and b and isinstance(b[0], ast.stmt) and rec(b, inner):
                    return True
            if isinstance(s, ast.Try):
                for h in s.handlers:
                    if rec(h.body, inner):
                        return True
        return False
    rec(body, [])
    return out


def _callee_names_in(nz, fi, stmts):
    """qualified names of the repository functions the statements may call (as _callees, restricted to these statements)"""
    out = set()
    try:
        ft = nz.world.types(fi)
    except Exception:
        ft = None
    for n in walk_stmts(stmts):
        if not isinstance(n, ast.Call):
            continue
        tgs = []
        if ft is not None:
            try:
                tgs = nz.world.resolve_call(ft, n)
            except Exception:
                tgs = []
        hit = False
        for t in tgs:
            if t.func is not None:
                out.add(t.func.qname)
                hit = True
            elif t.kind in ("ext", "builtin", "method", "class"):
                hit = True
                if t.kind == "builtin" and t.name in ("setattr", "delattr"):
                    out.add("*")
        if not hit:
            nm = n.func.attr if isinstance(n.func, ast.Attribute) else n.func.id if isinstance(n.func, ast.Name) else None
            if nm:
                out |= nz._by_name.get(nm, set())
                if nm in ("setattr", "delattr"):
                    out.add("*")
    return out


def _may_store_cls(nz, attr, cls):
    """functions that may (transitively) assign ``attr`` on an object that could be of class ``cls`` (None = any class)"""
    key = (attr, cls)
    cache = nz.__dict__.setdefault("_msc", {})
    if key in cache:
        return cache[key]
    ms = _may_store(nz)
    per = nz._store_cls.get(attr, {})
    seeds = {q for q, cs in per.items() if cls is None or "?" in cs or cls in cs}
    reach = set(seeds)
    changed = True
    while changed:
        changed = False
        for q, cs in nz._calls.items():
            if q not in reach and cs & reach:
                reach.add(q)
                changed = True
    cache[key] = reach
    return reach


def _window_is_quiet(nz, fi, body, a, x, chain, own_loads=0, recv_cls=None):
    """between the statement ``a`` and the last statement that reads ``x`` nothing assigns an attribute of the chain, directly or
    through a call; returns False when the reads cannot be located as a window after ``a``"""
    ms = _may_store(nz)
    r = _find_block(body, a)
    if r is None:
        return False
    stmts, i = r
    rest = stmts[i + 1:]
    if name_loads(rest, x) != name_loads(body, x) - own_loads:
        return False   # read outside the continuation of its block (e.g. after an enclosing loop's next round)
    last = max((k for k, s_ in enumerate(rest) if any(isinstance(n, ast.Name) and n.id == x for n in ast.walk(s_))), default=-1)
    window = rest[:last + 1]
    # if the definition sits in a loop, the next round runs the rest of the loop body before `a` again -- harmless: x is re-bound
    for n in walk_stmts(window):
        if isinstance(n, ast.Attribute) and isinstance(n.ctx, (ast.Store, ast.Del)) and n.attr.lstrip("_") in chain:
            return False
    called = _callee_names_in(nz, fi, window)
    if "*" in called or called & ms.get("*", set()):
        return False
    # the innermost attribute is read on a receiver whose class may be known: stores of a like-named attribute of another class do not count
    for k, c in enumerate(chain):
        who = _may_store_cls(nz, c, recv_cls if k == 0 else None)
        if called & who:
            return False
    return True


def _recv_class(nz, fi, e):
    """qualified class name of the object an attribute is read from, when the receiver typing knows it"""
    try:
        t_ = nz.world.types(fi).type_of(e)
    except Exception:
        return None
    if t_ in ("Node", "OptNode"):
        return "metapype.model.node.Node"
    if t_ == "Rule":
        return "metapype.eml.rule.Rule"
    if isinstance(t_, str) and (t_.startswith("inst:") or t_.startswith("class:")):
        return t_.split(":", 1)[1]
    if isinstance(e, ast.Name) and fi.cls is not None and fi.params and e.id == fi.params[0] and fi.kind in ("method", "property", "setter"):
        return fi.cls.qname
    return None


def attr_alias(nz, body, fi):
    """x = a.b.c bound once, where nothing between the binding and the last read of x can re-bind .b / .c (no store in that
    window, no call in it that may -- resolved call graph -- store such an attribute): read a.b.c where x is read.  Also the
    reverse: `x = <fresh>; a.f = x` with x bound once: `a.f = <fresh>`, later reads of x read a.f."""
    has_fwd = any(isinstance(n, ast.Assign) and len(n.targets) == 1 and isinstance(n.targets[0], ast.Name) and isinstance(n.value, ast.Attribute)
                  for n in walk_stmts(body, nested=False))
    has_rev = any(isinstance(n, ast.Assign) and len(n.targets) == 1 and isinstance(n.targets[0], ast.Attribute) and isinstance(n.value, ast.Name)
                  for n in walk_stmts(body, nested=False))
    if not (has_fwd or has_rev):
        return body
    _may_store(nz)
    # ---- f = <call>.attr (a bound method / field of a call result kept in a local): name the call result, then f is an attribute alias
    for a in [n for n in walk_stmts(body, nested=False) if isinstance(n, ast.Assign)]:
        if len(a.targets) == 1 and isinstance(a.targets[0], ast.Name) and isinstance(a.value, ast.Attribute) and isinstance(a.value.value, ast.Call) \
                and single_assignment(body, a.targets[0].id) is a and a.targets[0].id not in fi.params:
            tmp = nz.fresh("_obj")
            pre = ast.copy_location(ast.Assign(targets=[ast.Name(id=tmp, ctx=ast.Store())], value=a.value.value, lineno=a.lineno), a)
            a.value = ast.copy_location(ast.Attribute(value=ast.copy_location(ast.Name(id=tmp, ctx=ast.Load()), a), attr=a.value.attr, ctx=ast.Load()), a.value)

            def ins(stmts_, a=a, pre=pre):
                out = []
                for s_ in stmts_:
                    if s_ is a:
                        out.append(pre)
                    out.append(s_)
                return out
            body = map_blocks(body, ins)
            has_fwd = True
            nz._local_touched = True
    # ---- reverse form
    if has_rev:
        for st in [n for n in walk_stmts(body, nested=False) if isinstance(n, ast.Assign)]:
            if not (len(st.targets) == 1 and isinstance(st.targets[0], ast.Attribute) and is_atom(st.targets[0]) and isinstance(st.value, ast.Name)):
                continue
            x = st.value.id
            d = single_assignment(body, x)
            if d is None or x in fi.params or _in_nested_scope_use(body, x) or not (fresh_container_value(d.value) or isinstance(d.value, ast.Constant)):
                continue
            r1, r2 = _find_block(body, d), _find_block(body, st)
            if r1 is None or r2 is None or r1[0] is not r2[0] or r2[1] != r1[1] + 1:
                continue   # the field must be bound right after the local
            chain = [st.targets[0].attr.lstrip("_")]
            e = st.targets[0].value
            while isinstance(e, ast.Attribute):
                chain.append(e.attr.lstrip("_"))
                e = e.value
            if not isinstance(e, ast.Name) or store_count(body, e.id, fi.params) > 1:
                continue
            # no other store to that field after this one
            stmts, i = r2
            if not _window_is_quiet(nz, fi, body, st, x, chain, own_loads=1) and name_loads(body, x) > 1:
                continue
            target = st.targets[0]
            new_st = ast.copy_location(ast.Assign(targets=[target], value=d.value, lineno=st.lineno), st)

            def rewrite(stmts_):
                out = []
                for s_ in stmts_:
                    if s_ is d:
                        continue
                    out.append(new_st if s_ is st else s_)
                return out
            body = map_blocks(body, rewrite)
            load = copy.deepcopy(target)
            for n in ast.walk(load):
                if hasattr(n, "ctx"):
                    n.ctx = ast.Load()
            body = [Subst({}, {x: load}).visit(s_) for s_ in body]
            nz._local_touched = True
            nz.log.setdefault(fi.qname, []).append(f"local `{x}` bound to the field {norm(load)} right after its creation: the field is read instead")
    # ---- forward form
    for a in [n for n in walk_stmts(body, nested=False) if isinstance(n, ast.Assign)]:
        if not (len(a.targets) == 1 and isinstance(a.targets[0], ast.Name) and isinstance(a.value, ast.Attribute) and is_atom(a.value)):
            continue
        x = a.targets[0].id
        if x in fi.params or single_assignment(body, x) is not a or _in_nested_scope_use(body, x):
            continue
        chain = []
        e = a.value
        while isinstance(e, ast.Attribute):
            chain.append(e.attr.lstrip("_"))
            e = e.value
        if not isinstance(e, ast.Name) or e.id == x:
            continue
        if store_count(body, e.id, fi.params) > 1:
            continue
        if name_loads(body, x) == 0:
            continue
        if not _window_is_quiet(nz, fi, body, a, x, chain, recv_cls=_recv_class(nz, fi, a.value.value)):
            continue
        v = a.value

        def rewrite2(stmts):
            return [s for s in stmts if s is not a]
        body = map_blocks(body, rewrite2)
        body = [Subst({}, {x: v}).visit(s) for s in body]
        nz._local_touched = True
        nz.log.setdefault(fi.qname, []).append(f"attribute alias `{x}` = {norm(v)} resolved at line {getattr(a, 'lineno', '?')}")
    return body


def fresh_container_value(v) -> bool:
    """an expression that makes a new container every time it is evaluated (a display, a comprehension, list() / dict() / set() with or without an argument)"""
    return isinstance(v, (ast.List, ast.Dict, ast.Set, ast.ListComp, ast.DictComp, ast.SetComp)) \
        or (isinstance(v, ast.Call) and isinstance(v.func, ast.Name) and v.func.id in ("list", "dict", "set", "sorted") and len(v.args) <= 1 and not v.keywords)


def adjacent_copyprop(nz, body, fi):
    """x = <pure>; <next statement reads x once in its header> -- for names every load of which is such a next-statement use"""
    from .normalize import Normalizer
    cands: Dict[str, list] = {}

    def header_loads(s, x):
        return sum(1 for _, e in Normalizer.header_exprs(s) for n in ast.walk(e) if isinstance(n, ast.Name) and n.id == x and isinstance(n.ctx, ast.Load))

    def scan(stmts):
        for i, s in enumerate(stmts[:-1]):
            if isinstance(s, ast.Assign) and len(s.targets) == 1 and isinstance(s.targets[0], ast.Name):
                x, v = s.targets[0].id, s.value
                nxt = stmts[i + 1]
                if x in fi.params or not is_pure(v) or isinstance(v, (ast.List, ast.Dict)):
                    continue
                if not (isinstance(v, ast.Call) or isinstance(v, ast.Tuple)):
                    continue
                if header_loads(nxt, x) == 1 and name_loads(stmts[i + 1:], x) == 1 and not any(
                        isinstance(n, ast.Name) and n.id == x and isinstance(n.ctx, ast.Store) for n in ast.walk(nxt)):
                    cands.setdefault(x, []).append((s, nxt))
        return stmts
    map_blocks(body, scan)
    for x, pairs in cands.items():
        if name_loads(body, x) != len(pairs) or store_count(body, x, fi.params) != len(pairs):
            continue
        if any(isinstance(n, (ast.Lambda, ast.FunctionDef)) and any(isinstance(m, ast.Name) and m.id == x for m in ast.walk(n)) for n in walk_stmts(body)):
            continue
        for (a, nxt) in pairs:
            class R(ast.NodeTransformer):
                def visit_Name(self_, n):
                    if n.id == x and isinstance(n.ctx, ast.Load):
                        return ast.copy_location(copy.deepcopy(a.value), n)
                    return n
            for fld, e in Normalizer.header_exprs(nxt):
                setattr(nxt, fld, R().visit(e))
        dead = {id(a) for a, _ in pairs}

        def rewrite(stmts):
            return [s for s in stmts if id(s) not in dead]
        body = map_blocks(body, rewrite)
    return body


def tidy(body):
    def f(stmts):
        out = []
        for s in stmts:
            if isinstance(s, (ast.For, ast.While)) and s.orelse and all(isinstance(x, ast.Pass) for x in s.orelse):
                s.orelse = []
            if isinstance(s, ast.If) and s.orelse and all(isinstance(x, ast.Pass) for x in s.orelse):
                s.orelse = []
            if isinstance(s, ast.Pass) and len(stmts) > 1:
                continue
            if getattr(s, "_sa_dead", False):
                continue
            if isinstance(s, ast.Expr) and isinstance(s.value, ast.Constant) and s.value.value is None:
                continue
            out.append(s)
        return out or [ast.Pass()]
    return map_blocks(body, f)


# ---------------------------------------------------------------------------------------------- dissolved closures

def drop_dead_closures(nz, body):
    dead = []
    for name, g in list(nz.closures.items()):
        q = f"{nz.cur.qname}.<locals>.{name}"
        if nz.inlined_sites.get(q, 0) == 0:
            continue
        if any(isinstance(n, ast.Name) and n.id == name and isinstance(n.ctx, ast.Load) for n in walk_stmts(body)):
            continue
        dead.append(name)
    if not dead:
        return body

    def rewrite(stmts):
        return [s for s in stmts if not (isinstance(s, ast.FunctionDef) and s.name in dead)]
    return map_blocks(body, rewrite)
