"""Developer tool: confirm a seeded change and run every check against it.
    python -m sa.seedrun <dir with patch.diff + demo.py> [--keep-as <id>]
1. in a fresh scratch worktree: the unedited tests pass with the change, the demo fails with it and passes without it;
2. git -C /repo apply patch; run all quick checks (no evidence written); git -C /repo checkout -- .
Nothing is ever committed to /repo."""
from __future__ import annotations

import json
import os
import shutil
import subprocess
import sys
import tempfile

from .check import PROPS
from .core import VERIF


def sh(cmd, cwd=None, env=None):
    r = subprocess.run(cmd, shell=True, cwd=cwd, env=env, capture_output=True, text=True)
    return r.returncode, r.stdout + r.stderr


def main():
    d = os.path.abspath(sys.argv[1])
    keep = sys.argv[sys.argv.index("--keep-as") + 1] if "--keep-as" in sys.argv else None
    patch = os.path.join(d, "patch.diff")
    demo = os.path.join(d, "demo.py")
    wt = tempfile.mkdtemp(prefix="seedchk_")
    os.rmdir(wt)
    res = {"dir": d}
    try:
        rc, out = sh(f"git -C /repo worktree add -q --detach {wt} HEAD")
        if rc:
            print(out)
            return 3
        env = dict(os.environ, PYTHONPATH=f"{wt}/src")
        os.makedirs(os.path.join(wt, "out", "m1"), exist_ok=True)
        import re as _re
        txt = open(demo, encoding="utf-8").read()
        txt = _re.sub(r"/tmp/seed/(?:C\d\d|S\d|T\d|U\d|V\d)", wt, txt)  # demos written in an agent's worktree may assert their own location
        open(os.path.join(wt, "out", "m1", "demo.py"), "w", encoding="utf-8").write(txt)
        rc0, o0 = sh("/venv/bin/python out/m1/demo.py", cwd=wt, env=env)
        res["demo_without"] = rc0
        rc, out = sh(f"git apply {patch}", cwd=wt)
        if rc:
            print("patch does not apply:", out)
            return 3
        rct, ot = sh("/venv/bin/python -m pytest -q -p no:cacheprovider tests 2>&1 | tail -1", cwd=wt, env=env)
        res["tests_with"] = ot.strip()
        rc1, o1 = sh("/venv/bin/python out/m1/demo.py", cwd=wt, env=env)
        res["demo_with"] = rc1
        res["demo_with_tail"] = o1.strip().splitlines()[-1][:200] if o1.strip() else ""
    finally:
        sh(f"git -C /repo worktree remove --force {wt}")
    confirmed = res.get("demo_without") == 0 and res.get("demo_with", 0) != 0 and "60 passed" in res.get("tests_with", "")
    res["confirmed"] = confirmed
    if "--scratch" in sys.argv:
        # the same checks against a scratch copy of the working tree with the patch applied (--root), all properties in parallel; leaves /repo alone,
        # so several seeds can be evaluated at once and nothing else that reads /repo is disturbed
        from concurrent.futures import ThreadPoolExecutor
        sc = tempfile.mkdtemp(prefix="seedchk_sc_")
        fired = {}
        try:
            for sub in ("src", "utils"):
                shutil.copytree(os.path.join("/repo", sub), os.path.join(sc, sub), ignore=shutil.ignore_patterns("__pycache__", "*.pyc", "*.log"))
            rc, out = sh(f"git apply {patch}", cwd=sc)
            if rc:
                print("patch does not apply:", out)
                return 3

            def run(pid):
                r = subprocess.run([sys.executable, "-m", "sa.check", pid, "--root", sc, "--no-evidence"], cwd=VERIF, capture_output=True, text=True)
                return pid, r
            with ThreadPoolExecutor(max_workers=6) as ex:
                for pid, r in ex.map(run, PROPS):
                    if r.returncode != 0:
                        lines = [l.strip() for l in r.stdout.splitlines() if l.startswith("  ") or l.startswith("ANALYSIS")]
                        fired[pid] = {"exit": r.returncode, "lines": [l[:300] for l in lines[:6]]}
        finally:
            shutil.rmtree(sc, ignore_errors=True)
        return finish(d, patch, demo, keep, res, confirmed, fired)
    # run the checks against /repo with the patch applied
    rc, out = sh("git -C /repo status --porcelain")
    if out.strip():
        print("/repo is not clean; refusing")
        return 3
    fired = {}
    try:
        rc, out = sh(f"git -C /repo apply {patch}")
        if rc:
            print("patch does not apply to /repo:", out)
            return 3
        for pid in PROPS:
            r = subprocess.run([sys.executable, "-m", "sa.check", pid, "--no-evidence"], cwd=VERIF, capture_output=True, text=True)
            if r.returncode != 0:
                lines = [l.strip() for l in r.stdout.splitlines() if l.startswith("  ") or l.startswith("ANALYSIS")]
                fired[pid] = {"exit": r.returncode, "lines": [l[:300] for l in lines[:6]]}
    finally:
        sh("git -C /repo checkout -- .")
    return finish(d, patch, demo, keep, res, confirmed, fired)


def finish(d, patch, demo, keep, res, confirmed, fired):
    res["fired"] = fired
    print(json.dumps(res, indent=1))
    if keep and confirmed:
        dst = os.path.join(VERIF, "seeded", keep)
        os.makedirs(dst, exist_ok=True)
        if os.path.abspath(patch) != os.path.abspath(os.path.join(dst, "patch.diff")):
            shutil.copy(patch, os.path.join(dst, "patch.diff"))
            shutil.copy(demo, os.path.join(dst, "demo.py"))
        meta = {}
        mp = os.path.join(d, "meta.json")
        if os.path.exists(mp):
            try:
                meta = json.load(open(mp))
            except ValueError:
                meta = {}
        meta["confirmed"] = {"tests_with_change": res["tests_with"], "demo_exit_with_change": res["demo_with"], "demo_exit_without": res["demo_without"],
                             "how": "fresh git worktree of /repo HEAD, PYTHONPATH=<wt>/src, /venv/bin/python -m pytest tests; python demo.py"}
        meta["checks_fired"] = {k: v["lines"][:2] for k, v in fired.items() if v["exit"] == 1}
        meta["analysis_errors"] = {k: v["lines"][:1] for k, v in fired.items() if v["exit"] == 2}
        json.dump(meta, open(os.path.join(dst, "meta.json"), "w"), indent=1)
    return 0


if __name__ == "__main__":
    sys.exit(main())
