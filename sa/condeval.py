"""Evaluation of guard conditions over finite abstract domains: the condition's
AST is *evaluated* (by the constant folder) at sample points chosen from the
partition the property induces, never matched as text -- so ``x < 5``,
``5 > x``, ``not x >= 5`` and ``x <= 4`` are the same condition."""
from __future__ import annotations

import ast
import os
import itertools
from typing import Any, Dict, List, Optional

from .model import FuncInfo, norm
from .peval import Opaque, PEval, PEvalUnsupported, Raised


def bool_atoms(test) -> List[ast.expr]:
    if isinstance(test, ast.BoolOp):
        out = []
        for v in test.values:
            out.extend(bool_atoms(v))
        return out
    if isinstance(test, ast.UnaryOp) and isinstance(test.op, ast.Not):
        return bool_atoms(test.operand)
    return [test]


def eval_structure(test, val: Dict[int, bool]) -> bool:
    if isinstance(test, ast.BoolOp):
        vs = [eval_structure(v, val) for v in test.values]
        return all(vs) if isinstance(test.op, ast.And) else any(vs)
    if isinstance(test, ast.UnaryOp) and isinstance(test.op, ast.Not):
        return not eval_structure(test.operand, val)
    return val[id(test)]


def free_names(test) -> List[str]:
    out = []
    for n in ast.walk(test):
        if isinstance(n, ast.Name) and n.id not in out:
            out.append(n.id)
    return out


def eval_at(ctx, fi: FuncInfo, test, env: Dict[str, Any]):
    """value of the condition at one point; returns ('value', v) | ('raises', cls)"""
    pe = PEval(ctx.world)
    try:
        return ("value", bool(pe.truth(pe.eval(test, dict(env), fi), test)))
    except Raised as r:
        return ("raises", r.cls)


def enclosing_ifs(fi: FuncInfo, node):
    """If statements of ``fi`` around ``node`` (a statement or an expression),
    outermost first, as (if_node, in_body) pairs"""
    def _leaves(block):
        if not block:
            return False
        t = block[-1]
        if isinstance(t, (ast.Continue, ast.Break, ast.Return, ast.Raise)):
            return True
        if isinstance(t, ast.If):
            return bool(t.orelse) and _leaves(t.body) and _leaves(t.orelse)
        return False

    def find(stmts, trail):
        trail = list(trail)
        for s in stmts:
            if s is node:
                return trail
            if not any(x is node for x in ast.walk(s)):
                # an earlier guard clause: `if c: return/raise/continue/break` -- what follows runs only when c is false
                if isinstance(s, ast.If):
                    if _leaves(s.body) and not _leaves(s.orelse):
                        trail.append((s, False))
                    elif s.orelse and _leaves(s.orelse) and not _leaves(s.body):
                        trail.append((s, True))
                continue
            if isinstance(s, ast.If):
                if any(x is node for x in ast.walk(s.test)):
                    return trail
                r = find(s.body, trail + [(s, True)])
                if r is not None:
                    return r
                r = find(s.orelse, trail + [(s, False)])
                if r is not None:
                    return r
                return trail
            subs = []
            for fld in ("body", "orelse", "finalbody"):
                sub = getattr(s, fld, None)
                if isinstance(sub, list) and sub and isinstance(sub[0], ast.stmt):
                    subs.append(sub)
            if isinstance(s, ast.Try):
                for hd in s.handlers:
                    subs.append(hd.body)
            for sub in subs:
                r = find(sub, trail)
                if r is not None:
                    return r
            return trail
        return None

    return find(fi.node.body, []) or []


def guard_verdict(ctx, fi: FuncInfo, node, env: Dict[str, Any], pe: Optional[PEval] = None):
    """Is ``node`` (a statement/expression inside ``fi``) reached under ``env``?  Executes the simple assignments that
    precede it in the enclosing statement lists (the straight-line prefix) and evaluates the chain of enclosing ``if``
    tests.  Returns True / False, or ('raises', cls)."""
    pe = pe or PEval(ctx.world)
    env = dict(env)

    class _Gone(Exception):
        pass

    def terminates(block):
        return bool(block) and isinstance(block[-1], (ast.Continue, ast.Break, ast.Return, ast.Raise))

    def prefix(stmts):
        for s in stmts:
            if s is node or any(x is node for x in ast.walk(s)):
                return s
            if isinstance(s, ast.If) and (terminates(s.body) or terminates(s.orelse)):
                # an earlier guard clause: `if cond: continue/return` leaves before the point of interest
                try:
                    v = bool(pe.truth(pe.eval(s.test, env, fi), s.test))
                except PEvalUnsupported:
                    continue
                if (v and terminates(s.body)) or (not v and terminates(s.orelse)):
                    raise _Gone()
            def _plain(t):
                # a local, or a field of an abstract object standing for the receiver / an argument (self._node = node)
                if isinstance(t, ast.Attribute):
                    return isinstance(t.value, ast.Name) and isinstance(env.get(t.value.id), dict) and isinstance(env[t.value.id].get("__obj__"), bool)
                return not isinstance(t, ast.Subscript)
            if isinstance(s, (ast.Assign, ast.AnnAssign)) and all(_plain(t) for t in (s.targets if isinstance(s, ast.Assign) else [s.target])):
                try:
                    pe.stmt(s, env, fi, 0)
                except PEvalUnsupported as _ex:
                    if os.environ.get("SA_DEBUG"):
                        print("prefix unsupported:", norm(s)[:80], _ex)
        return None

    try:
        cur = fi.node.body
        while True:
            try:
                holder = prefix(cur)
            except _Gone:
                return False
            if holder is None or holder is node:
                return True
            if isinstance(holder, ast.If):
                if any(x is node for x in ast.walk(holder.test)):
                    return True
                v = bool(pe.truth(pe.eval(holder.test, env, fi), holder.test))
                in_body = any(any(x is node for x in ast.walk(b)) for b in holder.body)
                if v != in_body:
                    return False
                cur = holder.body if in_body else holder.orelse
                continue
            nxt = None
            for fld in ("body", "orelse", "finalbody"):
                sub = getattr(holder, fld, None)
                if isinstance(sub, list) and sub and isinstance(sub[0], ast.stmt) and any(any(x is node for x in ast.walk(b)) for b in sub):
                    nxt = sub
            if nxt is None and isinstance(holder, ast.Try):
                for hd in holder.handlers:
                    if any(any(x is node for x in ast.walk(b)) for b in hd.body):
                        nxt = hd.body
                        # the handler runs only when the protected block raises something it catches: fold the block
                        from .exc import resolve_exc_class
                        from .peval import _Ret
                        try:
                            pe.block(holder.body, env, fi, 0)
                            return False
                        except _Ret:
                            return False
                        except Raised as r:
                            caught = None
                            for h2 in holder.handlers:
                                tys = [None] if h2.type is None else (h2.type.elts if isinstance(h2.type, ast.Tuple) else [h2.type])
                                nms = [None if t is None else resolve_exc_class(pe.prog, fi.module, t) for t in tys]
                                if any(n is None or pe.w_h().issub(r.cls, n) for n in nms):
                                    caught = h2
                                    break
                            if caught is None:
                                return ("raises", r.cls)
                            if caught is not hd:
                                return False
                            if hd.name:
                                env[hd.name] = Opaque("exc")
            if nxt is None:
                return True
            cur = nxt
    except Raised as r:
        return ("raises", r.cls)
