"""E4 -- write effects on model state with ownership, propagated over the call graph.

Effect = (kind, field, root, site)
  kind  'W' field (re)assigned, 'M' container reached through a Node field mutated in place,
        'S' registry written, 'P' a raw parameter container mutated (out-parameter)
  root  name of the parameter the receiver is reached from, 'G' global, '?' unknown
        (effects on objects created inside the function are dropped)
"""
from __future__ import annotations

import ast
from dataclasses import dataclass
from typing import Dict, List, Optional, Set, Tuple

from .model import FuncInfo, norm
from .treefx import TreeFx
from .types import MUTATING_METHODS, NODE_Q, T_ELEM, T_NDICT, T_NLIST, T_NODE, T_OPT, T_RULE, World


@dataclass(frozen=True)
class Effect:
    kind: str
    field: Optional[str]
    root: str
    func: str
    construct: str
    loc: str
    via: Tuple[str, ...] = ()


class Effects:
    def __init__(self, world: World, fx: TreeFx):
        self.w = world
        self.fx = fx
        self.nm = world.nm
        self.memo: Dict[str, Set[Effect]] = {}
        self.busy: Set[str] = set()
        self.unknown_receivers: List[str] = []

    def _roots_of(self, fi, e) -> Set[str]:
        env = self.fx.roots(fi)
        if isinstance(e, ast.Name):
            if e.id in env:
                return set(env[e.id]) or {"F"}
            r = self.w.prog.resolve_name_expr(fi.module, e)
            if r is not None:
                return {"G"}
            return {"?"}
        if isinstance(e, (ast.Attribute, ast.Subscript)):
            return self._roots_of(fi, e.value)
        if isinstance(e, ast.Call):
            tg = self.w.resolve_call(self.w.types(fi), e)
            if tg and tg[0].kind == "class":
                return {"F"}
            f = e.func
            if isinstance(f, ast.Attribute):
                if f.attr == "copy":
                    return {"F"}
                if tg and tg[0].kind == "ext" and tg[0].name in ("copy.copy", "copy.deepcopy"):
                    return {"F"}
                s = self._roots_of(fi, f.value)
                for a in e.args:
                    s |= self._roots_of(fi, a)
                return s
            if isinstance(f, ast.Name) and f.id in ("list", "dict", "set", "tuple", "sorted"):
                return {"F"}
            s = set()
            for a in e.args:
                s |= self._roots_of(fi, a)
            return s or {"?"}
        if isinstance(e, (ast.List, ast.Dict, ast.Set, ast.Tuple, ast.ListComp, ast.DictComp, ast.SetComp, ast.Constant, ast.JoinedStr)):
            return {"F"}
        if isinstance(e, ast.IfExp):
            return self._roots_of(fi, e.body) | self._roots_of(fi, e.orelse)
        return {"?"}

    def _container_of(self, fi, ft, e, aliases):
        """if e denotes a container held in a Node field: (owner expr, field); the registry: ('$store', None);
        a raw parameter container: ('$param', name)"""
        if self.fx.is_store(ft, e):
            return ("$store", None)
        if isinstance(e, ast.Attribute):
            f = self.nm.canon(e.attr)
            t = ft.type_of(e.value)
            if f in self.nm.containers and (t in (T_NODE, T_OPT) or (t is None and not self._known_other(ft, e.value))):
                return (e.value, f)
        if isinstance(e, ast.Name):
            if e.id in aliases:
                return aliases[e.id]
            if e.id in fi.params and ft.env.get(e.id) not in (T_NODE, T_OPT, T_RULE):
                return ("$param", e.id)
        return None

    def returns_alias(self, fi):
        """(param, field) pairs such that the function may return the very container held in that field of that parameter"""
        if not hasattr(self, "_ra"):
            self._ra = {}
        if fi.qname in self._ra:
            return self._ra[fi.qname]
        self._ra[fi.qname] = set()
        out = set()
        ft = self.w.types(fi)
        for n in ast.walk(fi.node):
            if isinstance(n, ast.Return) and n.value is not None:
                vals = [n.value]
                if isinstance(n.value, ast.IfExp):
                    vals = [n.value.body, n.value.orelse]
                for v in vals:
                    if isinstance(v, ast.Name):
                        for a in ast.walk(fi.node):
                            if isinstance(a, ast.Assign) and any(isinstance(t, ast.Name) and t.id == v.id for t in a.targets):
                                vals.append(a.value)
                        continue
                    c = self._container_of(fi, ft, v, {})
                    if c is not None and c[0] not in ("$store", "$param") and isinstance(c[0], ast.Name) and c[0].id in fi.params:
                        out.add((c[0].id, c[1]))
                    if isinstance(v, ast.Call):
                        for tg in self.w.resolve_call(ft, v):
                            if tg.func is not None and tg.func.qname != fi.qname:
                                am = self.w.arg_map(tg, v)
                                for (pp, fld) in self.returns_alias(tg.func):
                                    a = am.get(pp)
                                    if isinstance(a, ast.Name) and a.id in fi.params:
                                        out.add((a.id, fld))
        if fi.kind == "property":
            out = set()  # a property *is* the field; access through it is tracked as the field itself
        self._ra[fi.qname] = out
        return out

    def embeds(self, fi):
        """(param, field) pairs such that the structure the function returns contains, somewhere inside, the very container held
        in that field of that parameter (e.g. a serialiser that puts node.attributes into the dict it builds)"""
        if not hasattr(self, "_emb"):
            self._emb = {}
        if fi.qname in self._emb:
            return self._emb[fi.qname]
        self._emb[fi.qname] = set()
        ft = self.w.types(fi)
        returned = {n.value.id for n in ast.walk(fi.node) if isinstance(n, ast.Return) and isinstance(n.value, ast.Name)}
        exprs = [n.value for n in ast.walk(fi.node) if isinstance(n, ast.Return) and n.value is not None and not isinstance(n.value, ast.Name)]
        # what is put into a returned structure (or into a local that is itself put into one)
        changed = True
        structs = set(returned)
        while changed:
            changed = False
            for n in ast.walk(fi.node):
                src, dst = None, None
                if isinstance(n, ast.Assign):
                    for t in n.targets:
                        base = t
                        while isinstance(base, ast.Subscript):
                            base = base.value
                        if isinstance(base, ast.Name) and base.id in structs:
                            src, dst = n.value, base.id
                elif isinstance(n, ast.Call) and isinstance(n.func, ast.Attribute) and n.func.attr in ("append", "extend", "insert", "update", "setdefault", "add"):
                    base = n.func.value
                    while isinstance(base, ast.Subscript):
                        base = base.value
                    if isinstance(base, ast.Name) and base.id in structs and n.args:
                        src, dst = ast.Tuple(elts=list(n.args), ctx=ast.Load()), base.id
                if src is not None:
                    exprs.append(src)
                    for x in ast.walk(src):
                        if isinstance(x, ast.Name) and isinstance(x.ctx, ast.Load) and x.id not in structs and x.id not in fi.params:
                            structs.add(x.id)
                            changed = True
        out = set()

        def scan(e):
            if isinstance(e, ast.Call):
                f = e.func
                fname = f.id if isinstance(f, ast.Name) else f.attr if isinstance(f, ast.Attribute) else ""
                if fname in ("dict", "list", "set", "tuple", "str", "copy", "deepcopy", "sorted", "len", "repr", "int", "float", "bool"):
                    return  # a copy / a scalar: nothing of the original is embedded
                for tg in self.w.resolve_call(ft, e):
                    if tg.func is not None:
                        am = self.w.arg_map(tg, e)
                        for (pp, fld) in (self.embeds(tg.func) if tg.func.qname != fi.qname else set()) | self.returns_alias(tg.func):
                            a = am.get(pp)
                            for r in (self._roots_of(fi, a) if a is not None else ()):
                                if r in fi.params:
                                    out.add((r, fld))
                for a in list(e.args) + [k.value for k in e.keywords]:
                    scan(a)
                return
            c = self._container_of(fi, ft, e, {}) if isinstance(e, ast.Attribute) else None
            if c is not None and c[0] not in ("$store", "$param"):
                for r in self._roots_of(fi, c[0]):
                    if r in fi.params:
                        out.add((r, c[1]))
                return
            for ch in ast.iter_child_nodes(e):
                if isinstance(ch, ast.expr) or isinstance(ch, (ast.comprehension, ast.keyword)):
                    scan(ch) if isinstance(ch, ast.expr) else [scan(x) for x in ast.iter_child_nodes(ch) if isinstance(x, ast.expr)]
        for e in exprs:
            scan(e)
        # values bound to struct locals by plain assignment
        for n in ast.walk(fi.node):
            if isinstance(n, ast.Assign) and any(isinstance(t, ast.Name) and t.id in structs for t in n.targets):
                scan(n.value)
        self._emb[fi.qname] = out
        return out

    def _known_other(self, ft, e) -> bool:
        t = ft.type_of(e)
        return t is not None and t not in (T_NODE, T_OPT)

    def effects(self, fi: FuncInfo) -> Set[Effect]:
        if fi.qname in self.memo:
            return self.memo[fi.qname]
        if fi.qname in self.busy:
            return set()
        self.busy.add(fi.qname)
        prev = None
        out: Set[Effect] = set()
        for _ in range(5):
            out = self._once(fi)
            if prev is not None and {(e.kind, e.field, e.root) for e in out} == {(e.kind, e.field, e.root) for e in prev}:
                break
            prev = out
            self.memo[fi.qname] = out
        self.busy.discard(fi.qname)
        self.memo[fi.qname] = out
        return out

    def _once(self, fi: FuncInfo) -> Set[Effect]:
        w, nm = self.w, self.nm
        ft = w.types(fi)
        out: Set[Effect] = set()
        # local aliases of Node containers: v = X.attributes
        aliases: Dict[str, tuple] = {}
        embedded: Dict[str, list] = {}
        for n in ast.walk(fi.node):
            if isinstance(n, ast.Assign) and len(n.targets) == 1 and isinstance(n.targets[0], ast.Name):
                c = self._container_of(fi, ft, n.value, {})
                if c is None and isinstance(n.value, (ast.IfExp, ast.BoolOp)):
                    # v = X.children if X else []  /  v = X.children or []: v may be the node's own container
                    arms = [n.value.body, n.value.orelse] if isinstance(n.value, ast.IfExp) else list(n.value.values)
                    for arm in arms:
                        c2 = self._container_of(fi, ft, arm, {})
                        if c2 is not None and c2[0] not in ("$param",):
                            c = c2
                            break
                if c is not None and c[0] not in ("$param",):
                    aliases[n.targets[0].id] = c
                elif isinstance(n.value, ast.Call):
                    # the callee may hand back a node's own container (C11-R2: a retained alias that is written later)
                    for tg in w.resolve_call(ft, n.value):
                        if tg.func is not None:
                            am = w.arg_map(tg, n.value)
                            for (pp, fld) in self.returns_alias(tg.func):
                                a = am.get(pp)
                                if a is not None:
                                    aliases[n.targets[0].id] = (a, fld)
                            # ... or a structure that contains such containers somewhere inside
                            for (pp, fld) in self.embeds(tg.func):
                                a = am.get(pp)
                                if a is not None:
                                    embedded.setdefault(n.targets[0].id, []).append((a, fld))

        # locals that are parts of a raw parameter structure: x = p[...] / p.get(..) / for x in p / p.values() / tuples of such
        parts: Dict[str, str] = {}

        def part_root(e):
            while True:
                if isinstance(e, ast.Subscript):
                    e = e.value
                elif isinstance(e, ast.Call) and isinstance(e.func, ast.Attribute) and e.func.attr in ("values", "items", "get", "keys") :
                    e = e.func.value
                elif isinstance(e, ast.Call) and isinstance(e.func, ast.Name) and e.func.id in ("iter", "reversed", "enumerate") and e.args:
                    e = e.args[0]
                else:
                    break
            if isinstance(e, ast.Name):
                if e.id in parts:
                    return parts[e.id]
                if e.id in fi.params and ft.env.get(e.id) not in (T_NODE, T_OPT, T_RULE):
                    return e.id
                if e.id in embedded:
                    return "@" + e.id   # a local structure that embeds node containers
            if isinstance(e, (ast.Tuple, ast.List)) and e.elts:
                rs = {part_root(x) for x in e.elts}
                if len(rs) == 1 and None not in rs:
                    return rs.pop()
            return None
        for _ in range(4):
            for n in ast.walk(fi.node):
                if isinstance(n, ast.Assign) and len(n.targets) == 1 and isinstance(n.targets[0], ast.Name) and n.targets[0].id not in fi.params \
                        and isinstance(n.value, (ast.Subscript, ast.Call)):
                    r_ = part_root(n.value)
                    if r_ is not None and ft.env.get(n.targets[0].id) not in (T_NODE, T_OPT, T_RULE):
                        parts.setdefault(n.targets[0].id, r_)
                elif isinstance(n, ast.For):
                    r_ = part_root(n.iter)
                    if r_ is not None:
                        for x in ast.walk(n.target):
                            if isinstance(x, ast.Name) and ft.env.get(x.id) not in (T_NODE, T_OPT, T_RULE) and x.id not in fi.params:
                                parts.setdefault(x.id, r_)

        def emit(kind, field, recv_expr, node):
            roots = self._roots_of(fi, recv_expr) if recv_expr is not None else {"G"}
            for r in roots:
                if r == "F":
                    continue
                out.add(Effect(kind, field, r, fi.qname, norm(node), fi.loc(node)))

        def target(t, node):
            if isinstance(t, (ast.Tuple, ast.List)):
                for x in t.elts:
                    target(x, node)
                return
            if isinstance(t, ast.Starred):
                target(t.value, node)
                return
            if isinstance(t, ast.Attribute):
                if self.fx.is_store(ft, t):
                    emit("S", None, None, node)
                    return
                typ = ft.type_of(t.value)
                f = nm.canon(t.attr)
                if typ in (T_NODE, T_OPT):
                    emit("W", f or t.attr, t.value, node)
                elif typ is None and f is not None and not (isinstance(t.value, ast.Name) and t.value.id == "self" and fi.cls is not None and fi.cls.qname != NODE_Q):
                    emit("W", f, t.value, node)
                    self.unknown_receivers.append(f"{fi.loc(node)} {norm(t)}")
                return
            if isinstance(t, ast.Subscript):
                c = self._container_of(fi, ft, t.value, aliases)
                if c is None:
                    # a store two or more levels inside a structure that embeds node containers may hit one of them
                    base, depth = t, 0
                    while isinstance(base, ast.Subscript):
                        base, depth = base.value, depth + 1
                    if isinstance(base, ast.Name) and base.id in embedded and depth >= 2:
                        for (owner, fld) in embedded[base.id]:
                            emit("M", fld, owner, node)
                    elif isinstance(base, ast.Name) and base.id in parts and depth >= 1:
                        if parts[base.id].startswith("@"):
                            for (owner, fld) in embedded.get(parts[base.id][1:], []):
                                emit("M", fld, owner, node)
                        else:
                            # a local that is a part of a parameter structure (obtained by subscripting / iterating it): an out-parameter write
                            out.add(Effect("P", None, parts[base.id], fi.qname, norm(node), fi.loc(node)))
                    return
                if c[0] == "$store":
                    emit("S", None, None, node)
                elif c[0] == "$param":
                    out.add(Effect("P", None, c[1], fi.qname, norm(node), fi.loc(node)))
                else:
                    emit("M", c[1], c[0], node)

        for n in ast.walk(fi.node):
            if isinstance(n, ast.Assign):
                for t in n.targets:
                    target(t, n)
            elif isinstance(n, (ast.AugAssign, ast.AnnAssign)):
                if isinstance(n, ast.AnnAssign) and n.value is None:
                    continue
                target(n.target, n)
                if isinstance(n, ast.AugAssign) and isinstance(n.target, (ast.Name, ast.Attribute)):
                    c = self._container_of(fi, ft, n.target, aliases)
                    if c is not None and c[0] not in ("$store", "$param"):
                        emit("M", c[1], c[0], n)
                    elif c is not None and c[0] == "$param":
                        pass  # re-binding a local name
            elif isinstance(n, ast.Delete):
                for t in n.targets:
                    target(t, n)
            elif isinstance(n, ast.Call):
                f = n.func
                if isinstance(f, ast.Attribute) and f.attr in MUTATING_METHODS:
                    c = self._container_of(fi, ft, f.value, aliases)
                    if c is not None:
                        if c[0] == "$store":
                            emit("S", None, None, n)
                        elif c[0] == "$param":
                            out.add(Effect("P", None, c[1], fi.qname, norm(n), fi.loc(n)))
                        else:
                            emit("M", c[1], c[0], n)
                if isinstance(f, ast.Name) and f.id in ("setattr", "delattr") and n.args:
                    if ft.type_of(n.args[0]) in (T_NODE, T_OPT, None):
                        emit("W", "*", n.args[0], n)
                if isinstance(f, ast.Attribute) and f.attr == "__dict__":
                    pass
                for tg in w.resolve_call(ft, n):
                    if tg.func is None:
                        continue
                    sub = self.effects(tg.func)
                    if not sub:
                        continue
                    am = w.arg_map(tg, n)
                    fresh_self = tg.kind == "class"
                    for e in sub:
                        if e.kind == "S":
                            out.add(Effect("S", None, "G", e.func, e.construct, e.loc, (fi.qname,) + e.via))
                            continue
                        if e.root in ("G", "?"):
                            out.add(Effect(e.kind, e.field, e.root, e.func, e.construct, e.loc, (fi.qname,) + e.via))
                            continue
                        if fresh_self and tg.func.params and e.root == tg.func.params[0]:
                            continue
                        a = am.get(e.root)
                        if a is None:
                            continue
                        if e.kind == "P":
                            if isinstance(a, ast.Name) and a.id in parts and parts[a.id].startswith("@"):
                                a = ast.Name(id=parts[a.id][1:], ctx=ast.Load())
                            if isinstance(a, ast.Name) and a.id in embedded:
                                # the callee writes somewhere inside a structure that holds the nodes' own containers
                                for (owner, fld) in embedded[a.id]:
                                    for r in self._roots_of(fi, owner):
                                        if r != "F":
                                            out.add(Effect("M", fld, r, e.func, e.construct, e.loc, (fi.qname,) + e.via))
                                continue
                            c = self._container_of(fi, ft, a, aliases)
                            if c is None:
                                continue
                            if c[0] == "$store":
                                out.add(Effect("S", None, "G", e.func, e.construct, e.loc, (fi.qname,) + e.via))
                            elif c[0] == "$param":
                                out.add(Effect("P", None, c[1], e.func, e.construct, e.loc, (fi.qname,) + e.via))
                            else:
                                for r in self._roots_of(fi, c[0]):
                                    if r != "F":
                                        out.add(Effect("M", c[1], r, e.func, e.construct, e.loc, (fi.qname,) + e.via))
                            continue
                        for r in self._roots_of(fi, a):
                            if r == "F":
                                continue
                            out.add(Effect(e.kind, e.field, r, e.func, e.construct, e.loc, (fi.qname,) + e.via))
        # attribute access to __dict__ / vars()
        for n in ast.walk(fi.node):
            if isinstance(n, ast.Attribute) and n.attr == "__dict__" and ft.type_of(n.value) in (T_NODE, T_OPT):
                emit("W", "*", n.value, n)
        return out
