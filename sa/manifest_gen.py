"""Regenerates /verif/MANIFEST.json from the table below:
    /venv/bin/python -m sa.manifest_gen
Only properties whose check module exists under sa/props are listed as checks."""
from __future__ import annotations

import json
import os

from .core import VERIF

PY = "/venv/bin/python"

NA = {
    "C17": "relates a computed index to membership of a modified child sequence in a regular language, for all rules x "
           "sequences x names; no clause of it is visible in the shape of child_insert_index short of freezing its one "
           "comparison as text (DESIGN.md section 3, C17)",
    "C20": "idempotence, word preservation and 'no run of spaces' quantify over all strings under str.split/strip and over "
           "all documents under XSLT normalize-space: library semantics and an embedded stylesheet, not code shape "
           "(DESIGN.md section 3, C20)",
}

CHECKS = {
    "C07": dict(
        technique="flow-sensitive output-context taint analysis (text vs attribute-value context from the constant text around each "
                  "interpolation; escape/quoteattr sanitisers; one-level wrapper inlining), tag-name agreement, constant folding of the re-declaration "
                  "helper (or of the expression it was folded into), def-use output coverage of every return path, long-lived-state / memo-key rule",
        text="Partial: the escaping discipline well-formedness depends on is decided for every interpolation of node data in both "
             "exporters, plus the tag structure per combination class (folded output read back) and the namespace re-declaration rule; parse-back equality for arbitrary strings is not decided.",
        note="names/prefixes are XML-legal by the quantifier; EML-exporter pruning idioms (pre-escaped entities, inline para) are recognised by "
             "the shape of the test, not by text",
        ref="DESIGN.md section 3, C07"),
    "C08": dict(
        technique="provenance sets (which infoset item each stored expression derives from), raw-path identity, sibling agreement of the "
                  "text and tail policy blocks up to renaming, loop-shape rules, attribute-split guard evaluated on plain/Clark names, "
                  "reserved-namespace constant, regex-AST check of the blank-only test; the clean-mode policy compared in guarded-value form (path "
                  "conditions x final symbolic value, control-flow shape abstracted); memo-key coverage on the import slice; parser-option whitelist",
        text="Partial: field provenance, raw identity, text/tail sibling agreement, child coverage/order, attribute split and the reserved xml: prefix are "
             "decided structurally, the element-to-node conversion per class of element by folding; lxml's parsing and the whitespace policy on every string are not.",
        note="import-export-import stability is decided on seven folded documents only",
        ref="DESIGN.md section 3, C08"),
    "C06": dict(
        technique="positional layout extraction (writer key sequence vs reader (index, key) pairs), field-coverage set comparison with "
                  "value provenance to the restoring sink and guard dependence, constructor/setter sibling agreement, constructor-argument re-binding rule, "
                  "abstract execution of the upgrade's constant-index inserts",
        text="Partial: writer/reader agreement slot by slot, coverage of every Node field (incl. one added later) with provenance, parent "
             "links on load and the upgrade's layout algebra are decided; the round trip (ids, every field, identical re-serialisation) per class of filled / empty fields; Unicode fidelity is the json library's.",
        note="namespace-map replay through add_namespace is covered structurally by C13",
        ref="DESIGN.md section 3, C06"),
    "C15": dict(
        technique="escape analysis with conditional callee summaries and membership facts, handler-coverage path check, record/remove/"
                  "unregister pairing, effect summary bound, element-kind consistency of membership tests, live-iteration rule, must-marker dataflow "
                  "'pruned below before judged' and guard-dependence of the strict validation",
        text="Partial: prune never raises (all paths, all callees), the sweep runs for every rule error, every removal is recorded and "
             "unregistered and nothing else is written; the outcome (exactly the offending subtrees, idempotence) on a catalogue of small documents in both modes, not on every tree.",
        note="distinct variables iterating a duplicate-free child list denote distinct nodes; D-TREE/D-REG provisos",
        ref="DESIGN.md section 3, C15"),
    "C16": dict(
        technique="may-dataflow of a WROTE marker against the failure points found by the escape analysis (validate-then-mutate incl. "
                  "loop back edges), def-use/dominance check of the insertion index, copy provenance, loop-shape rules, guarded-entry and "
                  "unconditional-entry discipline of the id register",
        text="Partial: atomic failure, in-place ordered insertion, copies-not-originals and complete cleanup are decided on all paths of "
             "expand, and the outcome on eight small documents; that the result validates is not.",
        note="independence of the copies is C12; only the documented ValueError may escape",
        ref="DESIGN.md section 3, C16"),
    "C19": dict(
        technique="escape analysis (nullable-use rule) through the dispatch table, table/tuple shape rules, declared-vs-emitted set "
                  "comparison, enum-alias check, threshold guards evaluated at t-1, t, t+1, descendant text collection, latched found-flags, "
                  "no deep queries in evaluators, no long-lived state on the evaluation slice",
        text="Partial: totality on all paths of all evaluators, the shape of what is appended, completeness of the warning set and the "
             "three documented thresholds are decided; the emitted set is compared with the documented recommendations per class of facts (200 abstract trees), not on every tree.",
        note="word counting relies on normalize()/split (library semantics)",
        ref="DESIGN.md section 3, C19"),
    "C12": dict(
        technique="flow-sensitive may-aliasing domain over Node.copy (which container fields of the clone still alias the original's), "
                  "freshness classification of re-binding expressions, marker dataflow for id re-binding / registration order, pairing rule for parent links, "
                  "effect summaries of everything copy calls on the clone / child copies",
        text="Independence is decided on all paths of Node.copy (no container of the clone is the original's at return, child list holds "
             "only recursive copies); equality by field coverage of the shallow clone; registration after the id is re-bound.",
        note="uuid1 uniqueness and value equality of the (immutable) copied strings are not decided",
        ref="DESIGN.md section 3, C12"),
    "C13": dict(
        technique="must-dataflow 'map re-bound to a fresh dict' dominating every in-place namespace-map mutation in the operation alphabet, "
                  "receiver classification of namespace writes, identity-capture ordering, must-reach of the propagation loop, guard dominance and sharing guard evaluated in add_child",
        text="Partial: the copy-on-write discipline that keeps shared namespace dicts from leaking outside the subtree is decided on all "
             "paths; the visibility semantics over whole histories is not.",
        note="fix_nsmap/set_nsmap are outside the property's alphabet (noted only); freshness idioms: {}, dict(), comprehension, deepcopy/copy, .copy()",
        ref="DESIGN.md section 3, C13"),
    "C14": dict(
        technique="marker dataflow (must-pass / must-follow) for register-on-create, discard=>unregister and unregister=>detached pairings; "
                  "who-may-write / who-may-unregister by effect analysis; structure of delete_node_instance incl. live-iteration and unconditional-descent "
                  "rules; no-orphan-registration rule over every library function that creates a node into a local",
        text="Partial: the registration/unregistration discipline is decided on all paths of the creating and discarding operations; "
             "id uniqueness (uuid1) is runtime and not decided.",
        note="documented discarders: prune, expand, replace_child; plain remove_child (caller keeps the node) is not a discard",
        ref="DESIGN.md section 3, C14"),
    "C18": dict(
        technique="derived field-coverage set comparison, loop-shape rule on the child loop, symmetry classification of dict comparisons, "
                  "guards evaluated on equal/different abstract values",
        text="Which parts of two trees are compared, and how, is decided completely for Node.is_equal (field coverage incl. fields "
             "added later, universal child loop, symmetric dict comparison, guard polarity).",
        note="the is-same-object shortcut at the top of is_equal is outside the property (distinct trees)",
        ref="DESIGN.md section 3, C18"),
    "C09": dict(
        technique="marker dataflow for insertion/parent-link pairing on all paths, who-may-write scan, guard-fact bounds for every "
                  "subscript in shift, swap/returned-index tracking domain with an exchange-only rule, escape analysis, validate-then-mutate ordering, "
                  "pre-order shape of the descendant queries, long-lived-state rule over Node's methods",
        text="Partial: the pairing of child list and parent link, shift's bounds/returned index/failure discipline and "
             "validate-then-mutate are decided on all paths of Node's mutators; equivalence with a list model over all "
             "histories and the query results are not.",
        note="distinct variables iterating a duplicate-free child list denote distinct nodes; writes to a not-yet-attached node are not tree state",
        ref="DESIGN.md section 3, C09"),
    "C11": dict(
        technique="interprocedural write-effect analysis with receiver ownership (fresh / parameter / global) over the resolved call graph",
        text="Complete up to call resolution (rate in the evidence): every read-only entry point's transitive effect summary is "
             "free of writes to Nodes reached from its arguments or globals and of registry writes.",
        note="externals (lxml, json, re, logging, uuid) are assumed not to write the model; caller-supplied result lists are not tree state",
        ref="DESIGN.md section 3, C11"),
    "C03": dict(
        technique="layout-descriptor extraction and sibling agreement (validator vs introspection), constant folding of the helpers over "
                  "every attribute spec on the Rule object built by folding its constructor (with an alias check on the lists handed out), guard chains "
                  "evaluated over the complete per-attribute abstraction with a reported-vs-required set comparison per abstract world, escape analysis",
        text="Partial: the wiring and the three guard predicates are decided over the abstraction the property names "
             "({absent, listed, unlisted} x {foreign}); the introspection helpers are folded over all 89 attribute specs.",
        note="guards are evaluated per attribute on a four-attribute abstract rule; independence of iterations follows from the loop shape",
        ref="DESIGN.md section 3, C03"),
    "C05": dict(
        technique="marker dataflow (dominance / must-pass) over all paths of validate.tree, loop-shape and iterable classification, "
                  "(recursive form and explicit-stack form: LIFO with reversed pushes), constant and subject agreement across the three metadata tests, "
                  "dominance of child dereferences by the non-metadata outcome, freshness / per-call reset discipline of the matcher object, long-lived-state rule with memo-key coverage",
        text="Close to complete for how node verdicts are combined: the traversal is small enough that its shape is the property; "
             "per-node verdicts are C01-C04's subject.",
        note="order-preserving snapshot idioms recognised: direct, list(), tuple(), iter(), .copy(), [:], enumerate()",
        ref="DESIGN.md section 3, C05"),
    "C01": dict(
        technique="guard-fact dataflow (cursor invariant, bounded reads), escape analysis of the matcher slice in both modes, "
                  "marker dataflow over all paths (trailing check / sweep dominance, one count per matched alternative), flag dataflow, guard conditions evaluated at boundary points, first/follow analysis of every children spec (greedy-exactness preconditions)",
        text="Partial: necessary structural conditions of the content-model equivalence are decided over all paths of the matcher "
             "slice; the language equivalence of the greedy matcher itself is not decided (it would need the matcher to be run).",
        note="relies on C10's table-shape check in the same run (D-SPEC); occurrence guards are evaluated on boundary points, "
             "the greedy strategy is not analysed",
        ref="DESIGN.md section 3, C01"),
    "C02": dict(
        technique="dispatch/table set comparison, arm-to-checker kind agreement by call-graph reachability of parse primitives, "
                  "escape analysis, abstract evaluation of reject conditions over {boundaries, +-inf, NaN} with constants "
                  "propagated from the dispatch arm and three states of the error list, checker guards over {none, empty, listed, unlisted} x "
                  "{predicate holds, fails}, use-classification of the value in the typed predicates (parser / type test / truth test only)",
        text="Partial: dispatch exhaustiveness, checker totality in both modes, error-code existence, and the range/NaN/infinity "
             "and mixed-content verdicts are decided; lexical acceptance of the Python/rfc3986 parsers is not.",
        note="a value is represented by the float it parses to; parser leniency is outside the claim (the property leaves it unspecified)",
        ref="DESIGN.md section 3, C02"),
    "C04": dict(technique="two-mode exception-escape (effect) analysis over the call graph with a partial-operation ledger and guard facts; raise/append pairing; mode-independence check", text="An effect analysis, sound up to the listed assumptions, for \"no other exception type escapes\" and the shape of collected errors: all paths of all functions reachable from the three validation entry points, in both modes.", note="assumed-total externals are listed in the evidence; termination of the choice loop is a paper argument; RecursionError/MemoryError outside the claim", ref="DESIGN.md section 3, C04"),
    "C10": dict(
        technique="exhaustive static enumeration of the shipped tables (AST constant folding of node_mappings/names, "
                  "rules.json as data), grammar parse of every children spec, least-fixpoint productivity",
        text="Complete decision: the property quantifies over the shipped tables only and all three are statically "
             "available; every row is visited (exhaustive). Closure, shape (incl. agreement with rule.py's own modality "
             "predicates, constant-folded over every spec node), child-name knownness and productivity are decided.",
        note="assumes the validator implements the declared semantics of a rule (C01-C03's subject); tables are not "
             "written after definition (checked). Three child names of unmodelled EML modules are known findings.",
        ref="DESIGN.md section 3, C10"),
}


# round 5: whole pure functions constant-folded (sa/peval.py over the syntax tree, nothing of /repo imported or run) on abstract trees, one per
# equivalence class of what the function can observe (DESIGN.md section 2.7)
FOLD = {
    "C02": "each typed dispatch arm folded over {of the type, not of the type} x {fail-fast, collecting}",
    "C03": "introspection helpers also folded over an abstract rule with every spec kind",
    "C04": "tree / node validation folded on ten small documents: tuple shape, rule-error family, list empty iff fail-fast succeeds",
    "C05": "validate.tree folded against the concatenation of the folded validate.node over the nodes outside metadata (a relation between two entry points, no oracle); "
           "metadata occupancy guard evaluated for 0..3 children",
    "C06": "to_json -> from_json, the legacy codec and legacy -> converter -> current reader folded over a catalogue of trees (fields None / empty / filled, nesting, shared maps)",
    "C07": "both exporters folded over abstract trees and the folded text read back by a small tag reader (balanced, same names / attributes / texts / tails / nesting)",
    "C08": "_process_element folded over abstract lxml elements, one per class the whitespace policy and the attribute / namespace / comment handling distinguish (318 verdicts); "
           "import -> export -> import folded on seven documents, the exported text read back by the tag reader",
    "C09": "the eight queries folded over every position class of a name and compared by identity with the ordered-tree model; add / remove / replace / shift / clear folded on the "
           "child list (a, b, a, c, a) against the ordered-list model",
    "C11": "every read-only entry point the folder can follow folded on 24 small documents with the whole state (fields, container objects, links, registry) frozen before and compared after",
    "C12": "copy folded over the tree catalogue: equal, fresh registered ids, parent links inside the copy, no shared mutable object",
    "C13": "add_namespace / remove_namespace / add_child folded on a small forest under four sharing patterns: effect inside the subtree, nothing outside",
    "C14": "creation, delete_node_instance and replace_child folded on a small tree: the folded registry holds exactly the live nodes",
    "C15": "prune (with the validator and the rule table below it) folded on nine documents x both modes: exactly the offending subtrees gone, kept nodes untouched, returned list, "
           "registry, idempotence",
    "C16": "expand folded on eight documents: ordered independent copies in place, referenced element untouched, registry, ValueError with the tree left as it was",
    "C18": "is_equal folded over pairs of abstract trees that agree everywhere or differ in exactly one field in every way its kind allows, both argument orders",
    "C19": "every evaluator folded over 200 trees, one per class of facts its recommendation is stated in (each factor varied from a complete and a bare element, counts around the thresholds)",
}


def build():
    checks = []
    for pid in sorted(CHECKS):
        if not os.path.exists(os.path.join(VERIF, "sa", "props", pid.lower() + ".py")):
            continue
        c = CHECKS[pid]
        checks.append({
            "property_id": pid,
            "quick_cmd": f"{PY} -m sa.check {pid} --tier quick",
            "thorough_cmd": f"{PY} -m sa.check {pid} --tier thorough",
            "evidence_file": f"/verif/evidence/{pid}.json",
            "replay_cmd_template": f"{PY} -m sa.replay {{path}}",
            "engine": "sa",
            "level_claimed": {"category": "other", "text": c["text"], "design_ref": c["ref"]},
            "level_note": c["note"],
            "technique": c["technique"] + (("; constant folding of whole pure functions over finitely many classes of abstract trees: " + FOLD[pid]) if pid in FOLD else "")
                         + ("; a shape rule whose claim this fold decides is reported only when the fold is incomplete or reports something itself (check.settle)"
                            if pid in ("C08", "C09", "C13", "C16", "C18", "C19") else ""),
        })
    claimed = {c["property_id"] for c in checks}
    na = [{"property_id": k, "reason": v} for k, v in sorted(NA.items())]
    for i in range(1, 21):
        pid = f"C{i:02d}"
        if pid not in claimed and pid not in NA:
            na.append({"property_id": pid, "reason": "check under construction in this commit; not claimed yet"})
    m = {
        "version": 1,
        "setup_cmd": f"{PY} -m compileall -q sa",
        "hooks": {
            "guard": "METAPYPE_EML_VERIF",
            "enable": "none needed: every check is a static analysis (ast) of /repo's working tree; nothing in /repo is "
                      "instrumented and the guard variable is never read",
            "baseline_off_cmd": "cd /repo && /venv/bin/python -m pytest -ra -q -p no:cacheprovider --timeout=900 "
                                "--continue-on-collection-errors",
            "source_commits": [],
            "add_only": True,
        },
        "engines": [{
            "name": "sa",
            "path": "/verif/sa",
            "serves_properties": sorted(claimed),
            "kind_free_text": "repo-specific static analyser on CPython's ast: program model and constant folding (E0), "
                              "receiver typing and call graph (E1), structured forward dataflow with guard facts (E2), "
                              "two-mode exception-escape ledger (E3), effect/ownership summaries (E4), layout and "
                              "field-coverage agreement (E5), output-context taint (E6), rule-table grammar (E7), "
                              "pairing/ordering (E8)",
        }],
        "checks": checks,
        "notes": "All checks are static: they parse /repo's working tree on every run and never import or execute it. "
                 "Exit 2 + 'ANALYSIS-ERROR' means the analysis itself could not proceed (never a verdict). "
                 "known_findings.json lists genuine defects recorded rather than repaired, and the repaired ones as 'fixed:'.",
        "not_applicable": sorted(na, key=lambda x: x["property_id"]),
    }
    return m


def main():
    m = build()
    with open(os.path.join(VERIF, "MANIFEST.json"), "w", encoding="utf-8") as f:
        json.dump(m, f, indent=1)
        f.write("\n")
    print("MANIFEST.json:", len(m["checks"]), "checks,", len(m["not_applicable"]), "not applicable")


if __name__ == "__main__":
    main()
