"""E9 -- normalisation of the parsed program before any rule runs.

The rules are anchored in the functions the library had when the rules were
written (sa/baseline_names.json: every function / class qualified name of the
pinned tree).  A function or class that is NOT in that list is a helper somebody
introduced later (an extracted method, a reporting helper, a small view class,
a namedtuple).  Helpers are dissolved back into their callers by behaviour-
preserving source-to-source rewriting, so that a rule sees the same program
whether or not a body was split into helpers:

  inline     calls to non-baseline, non-recursive functions (statement-level with
             return elimination, expression-level for one-expression helpers),
             nested closures called by name, callable parameters
  sroa       scalar replacement of local namedtuples / small view objects
  lower      dispatch through a constant dict  ->  if/elif chain over its keys
  unroll     loops over a literal tuple / list (also a module constant)
  fold       getattr(x, "c") -> x.c ; (a, b) + (c,) -> (a, b, c) ; x.extend([a, b]) -> appends
  copyprop   single-assignment locals introduced by the above

Every rewrite keeps the original line numbers of the statements it moves, so a
finding still points at the helper's source line.  A call that cannot be
dissolved soundly is left alone (the interprocedural engines still follow it).
Nothing here executes the library."""
from __future__ import annotations

import ast
import copy
import json
import os
from typing import Dict, List, Optional, Set, Tuple

from .model import AnalysisError, FuncInfo, Program, norm

BASELINE_FILE = os.path.join(os.path.dirname(os.path.abspath(__file__)), "baseline_names.json")
MAX_ROUNDS = 10
MAX_BODY_NODES = 900          # a helper bigger than this is not dissolved
MAX_DUP_NODES = 400           # continuation duplicated per return site
PURE_BUILTINS = {"len", "range", "reversed", "enumerate", "zip", "id", "type", "isinstance", "tuple", "sorted", "list", "dict", "set", "str", "bool"}
MUTATORS = {"append", "insert", "remove", "pop", "clear", "extend", "sort", "reverse", "update", "popitem", "setdefault", "add", "discard"}


class NotInlinable(Exception):
    pass


def fingerprint(fn: ast.FunctionDef, prog: Optional[Program] = None, mi=None) -> dict:
    body = strip_doc(fn.body)
    callees, attrs, strs = set(), set(), set()
    n_nodes = 0
    callfuncs = set()
    for st in body:
        for n in ast.walk(st):
            n_nodes += 1
            if isinstance(n, ast.Call):
                callfuncs.add(id(n.func))
                nm = n.func.id if isinstance(n.func, ast.Name) else n.func.attr if isinstance(n.func, ast.Attribute) else None
                if nm:
                    callees.add("<self>" if nm == fn.name else nm)
    for st in body:
        for n in ast.walk(st):
            if isinstance(n, ast.Attribute) and id(n) not in callfuncs:
                attrs.add(n.attr)
            elif isinstance(n, ast.Constant) and isinstance(n.value, str) and n.value.strip():
                strs.add(n.value.strip()[:60])
            elif isinstance(n, ast.Name) and prog is not None and mi is not None and n.id.isupper():
                # a module constant standing for a string literal of the original
                try:
                    v = prog.const(mi, n)
                except Exception:
                    v = None
                if isinstance(v, str) and v.strip():
                    strs.add(v.strip()[:60])
    a = fn.args
    kind = "function"
    for d in fn.decorator_list:
        if isinstance(d, ast.Name) and d.id in ("staticmethod", "classmethod", "property"):
            kind = {"staticmethod": "static", "classmethod": "class", "property": "property"}[d.id]
    # defaults of the parameters, by position (a default is part of what a call without that argument means)
    pos = a.posonlyargs + a.args
    dflt = [None] * (len(pos) - len(a.defaults)) + [ast.unparse(d) for d in a.defaults]
    dflt += [ast.unparse(d) if d is not None else None for d in a.kw_defaults]
    return {"params": len(a.posonlyargs) + len(a.args) + len(a.kwonlyargs), "callees": sorted(callees), "attrs": sorted(attrs), "strs": sorted(strs), "size": n_nodes,
            "deco": kind, "defaults": dflt, "pnames": [x.arg for x in pos + a.kwonlyargs]}


def load_baseline_funcs() -> dict:
    try:
        with open(BASELINE_FILE, encoding="utf-8") as f:
            return json.load(f).get("funcs", {})
    except (OSError, ValueError) as e:
        raise AnalysisError(f"cannot read {BASELINE_FILE}: {e}")


def _jac(a, b):
    a, b = set(a), set(b)
    if not a and not b:
        return None
    return len(a & b) / len(a | b)


def recover_moves(prog: Program, taken: Set[str]) -> Dict[tuple, dict]:
    """A baseline function that is gone while a new module-level function with (nearly) the same fingerprint sits in ANOTHER
    module (private helpers moved to a new file, methods turned into plain functions there) was moved: the function keeps its
    place, but the program model files it under its baseline qualified name / class / kind, so the rules find their anchor and
    calls to the new location resolve to it.  Returns {(module, function name): {q, kind, cls}}."""
    base = load_baseline_funcs()
    names = load_baseline()
    missing = [q for q in base if q not in prog.funcs and q not in taken and q.rsplit(".", 1)[0] in set(prog.modules) | set(prog.classes)]
    new = [q for q, f in prog.funcs.items() if q not in names and not q.startswith("tests.") and f.cls is None and q not in taken]
    if not missing or not new:
        return {}
    fps = {q: fingerprint(prog.funcs[q].node, prog, prog.funcs[q].module) for q in new}
    moved, used_m, used_x = {}, set(), set()
    ren_names: Dict[str, str] = {}
    for _round in range(3):
        scored = []
        for m in missing:
            if m in used_m:
                continue
            fm = base[m]
            for x in new:
                if x in used_x:
                    continue
                fx = fps[x]
                cx = {ren_names.get(c, c) for c in fx["callees"]}
                parts = [(_jac(fm["strs"], fx["strs"]), 0.45), (_jac(fm["callees"], cx), 0.25), (_jac(fm["attrs"], {ren_names.get(c, c) for c in fx["attrs"]}), 0.3)]
                parts = [(v, w) for v, w in parts if v is not None]
                if not parts:
                    continue
                sc = sum(v * w for v, w in parts) / sum(w for _, w in parts)
                if abs(fm["params"] - fx["params"]) > 1:
                    sc -= 0.15
                ratio = min(fm["size"], fx["size"]) / max(fm["size"], fx["size"], 1)
                if ratio < 0.4:
                    sc -= 0.2
                # the simple name usually survives a move (possibly without the leading underscore / with a new prefix)
                a, b = m.rsplit(".", 1)[1].strip("_"), x.rsplit(".", 1)[1].strip("_")
                a2, b2 = a.replace("get_", "").replace("validate_", ""), b.replace("get_", "").replace("check_", "").replace("validate_", "")
                if a == b or a.endswith(b) or b.endswith(a) or (len(b2) > 3 and (a2 == b2 or a2.startswith(b2) or b2.startswith(a2))):
                    sc += 0.2
                scored.append((sc, m, x))
        scored.sort(reverse=True)
        progress = False
        for sc, m, x in scored:
            if sc < 0.55 or m in used_m or x in used_x:
                continue
            rivals = [s2 for s2, m2, x2 in scored if (m2 == m) != (x2 == x) and (m2 == m or x2 == x) and m2 not in used_m and x2 not in used_x]
            if rivals and max(rivals) > sc - 0.1:
                continue
            fx = prog.funcs[x]
            scope = m.rsplit(".", 1)[0]
            kind = base[m].get("deco", "function")
            if scope in prog.classes:
                if kind == "function":
                    kind = "method"
                if kind == "method" and base[m]["params"] == fps[x]["params"] + 1:
                    continue  # the receiver was dropped: not the same function any more
            used_m.add(m)
            used_x.add(x)
            ren_names[x.rsplit(".", 1)[1]] = m.rsplit(".", 1)[1]
            moved[(fx.module.name, fx.node.name)] = {"q": m, "kind": kind, "cls": scope if scope in prog.classes else None}
            progress = True
        if not progress:
            break
    return moved


def recover_renames(prog: Program) -> Tuple[Optional[Dict[str, ast.Module]], Dict[str, str]]:
    """A baseline function that is gone while a new function with (nearly) the same body sits in the same class / module
    was renamed: give it its baseline name back (definition and every reference) so that the rules find their anchors.
    Returns (renamed trees or None, {new qualified name: baseline qualified name})."""
    base = load_baseline_funcs()
    names = load_baseline()
    missing = [q for q in base if q not in prog.funcs and q.rsplit(".", 1)[0] in set(prog.modules) | set(prog.classes)]
    new = [q for q in prog.funcs if q not in names and not q.startswith("tests.") and not q.endswith(".setter")]
    if not missing or not new:
        return None, {}
    fps = {q: fingerprint(prog.funcs[q].node, prog, prog.funcs[q].module) for q in new}
    ren_names: Dict[str, str] = {}   # simple new name -> simple old name (applied to callee sets of later rounds)
    mapping: Dict[str, str] = {}
    for _round in range(3):
        scored = []
        for m in missing:
            if m in mapping.values():
                continue
            scope = m.rsplit(".", 1)[0]
            fm = base[m]
            for x in new:
                if x in mapping or x.rsplit(".", 1)[0] != scope:
                    continue
                fx = fps[x]
                cx = {ren_names.get(c, c) for c in fx["callees"]}
                ax = {ren_names.get(c, c) for c in fx["attrs"]}
                parts = [(_jac(fm["strs"], fx["strs"]), 0.45), (_jac(fm["callees"], cx), 0.3), (_jac(fm["attrs"], ax), 0.25)]
                parts = [(v, w) for v, w in parts if v is not None]
                if not parts:
                    continue
                sc = sum(v * w for v, w in parts) / sum(w for _, w in parts)
                if fm["params"] != fx["params"]:
                    sc -= 0.1
                ratio = min(fm["size"], fx["size"]) / max(fm["size"], fx["size"], 1)
                if ratio < 0.5:
                    sc -= 0.2
                scored.append((sc, m, x))
        scored.sort(reverse=True)
        progress = False
        for sc, m, x in scored:
            if sc < 0.6 or m in mapping.values() or x in mapping:
                continue
            # clearly better than any competitor for either side
            rivals = [s2 for s2, m2, x2 in scored if (m2 == m) != (x2 == x) and (m2 == m or x2 == x)]
            if rivals and max(rivals) > sc - 0.15:
                continue
            mapping[x] = m
            ren_names[x.rsplit(".", 1)[1]] = m.rsplit(".", 1)[1]
            progress = True
        if not progress:
            break
    if not mapping:
        return None, {}
    # simple names must be unambiguous to rename references by name
    simple = {}
    for x, m in list(mapping.items()):
        xn, mn = x.rsplit(".", 1)[1], m.rsplit(".", 1)[1]
        others = [q for q in prog.funcs if q.rsplit(".", 1)[1] == xn and q != x]
        taken = [q for q in prog.funcs if q.rsplit(".", 1)[1] == mn and q.rsplit(".", 1)[0] == m.rsplit(".", 1)[0]]
        if others or taken or xn in simple:
            del mapping[x]
            continue
        simple[xn] = mn
    if not mapping:
        return None, {}
    trees = {}
    for mod, mi in prog.modules.items():
        t = copy.deepcopy(mi.tree)
        for n in ast.walk(t):
            if isinstance(n, (ast.FunctionDef, ast.AsyncFunctionDef)) and n.name in simple:
                n.name = simple[n.name]
            elif isinstance(n, ast.Attribute) and n.attr in simple:
                n.attr = simple[n.attr]
            elif isinstance(n, ast.Name) and n.id in simple:
                n.id = simple[n.id]
            elif isinstance(n, ast.alias) and n.name in simple:
                n.name = simple[n.name]
        trees[mod] = t
    return trees, mapping


def load_baseline() -> Set[str]:
    try:
        with open(BASELINE_FILE, encoding="utf-8") as f:
            return set(json.load(f)["names"])
    except (OSError, ValueError, KeyError) as e:
        raise AnalysisError(f"cannot read {BASELINE_FILE}: {e}")


# ---------------------------------------------------------------------------------------------- small AST helpers

def walk_no_nested(node):
    """ast.walk that does not descend into nested function / lambda / class bodies (the node itself is yielded)"""
    todo = [node]
    first = True
    while todo:
        n = todo.pop()
        yield n
        for c in ast.iter_child_nodes(n):
            if isinstance(c, (ast.FunctionDef, ast.AsyncFunctionDef, ast.Lambda, ast.ClassDef)) and not (first and c is node):
                if isinstance(c, (ast.FunctionDef, ast.AsyncFunctionDef, ast.ClassDef)):
                    yield c  # the def statement itself (its name is bound here) but not its body
                continue
            todo.append(c)
        first = False


def walk_stmts(stmts, nested=True):
    for s in stmts:
        if not nested and isinstance(s, (ast.FunctionDef, ast.AsyncFunctionDef, ast.ClassDef)):
            yield s  # the def binds its name here; its body is another scope
            continue
        yield from (ast.walk(s) if nested else walk_no_nested(s))


def stored_names(stmts) -> Set[str]:
    out = set()
    for n in walk_stmts(stmts, nested=False):
        if isinstance(n, ast.Name) and isinstance(n.ctx, (ast.Store, ast.Del)):
            out.add(n.id)
        elif isinstance(n, (ast.FunctionDef, ast.AsyncFunctionDef, ast.ClassDef)):
            out.add(n.name)
        elif isinstance(n, ast.ExceptHandler) and n.name:
            out.add(n.name)
        elif isinstance(n, (ast.Import, ast.ImportFrom)):
            for a in n.names:
                out.add((a.asname or a.name).split(".")[0])
        elif isinstance(n, ast.NamedExpr) and isinstance(n.target, ast.Name):
            out.add(n.target.id)
        elif isinstance(n, ast.MatchAs) and n.name:
            out.add(n.name)
    return out


def all_names(stmts) -> Set[str]:
    out = set()
    for n in walk_stmts(stmts):
        if isinstance(n, ast.Name):
            out.add(n.id)
        elif isinstance(n, ast.arg):
            out.add(n.arg)
        elif isinstance(n, (ast.FunctionDef, ast.AsyncFunctionDef, ast.ClassDef)):
            out.add(n.name)
        elif isinstance(n, ast.ExceptHandler) and n.name:
            out.add(n.name)
    return out


def free_names(stmts, params=()) -> Set[str]:
    """names read or written in this scope or a nested one that are not bound in the scope that uses them"""
    local = stored_names(stmts) | set(params)
    used = set()
    inner = set()
    for n in walk_stmts(stmts, nested=False):
        if isinstance(n, ast.Name):
            used.add(n.id)
        elif isinstance(n, (ast.FunctionDef, ast.AsyncFunctionDef)):
            a = n.args
            ps = [x.arg for x in a.posonlyargs + a.args + a.kwonlyargs] + ([a.vararg.arg] if a.vararg else []) + ([a.kwarg.arg] if a.kwarg else [])
            inner |= free_names(n.body, ps)
            for d in list(a.defaults) + [x for x in a.kw_defaults if x is not None] + list(n.decorator_list):
                used |= {m.id for m in ast.walk(d) if isinstance(m, ast.Name)}
    # lambdas are skipped by walk_no_nested: visit them here
    for n in walk_stmts(stmts, nested=True):
        if isinstance(n, ast.Lambda):
            a = n.args
            ps = {x.arg for x in a.posonlyargs + a.args + a.kwonlyargs} | ({a.vararg.arg} if a.vararg else set()) | ({a.kwarg.arg} if a.kwarg else set())
            inner |= {m.id for m in ast.walk(n.body) if isinstance(m, ast.Name)} - ps
    return (used | inner) - local


def has_node(stmts, types, nested=False) -> bool:
    return any(isinstance(n, types) for n in walk_stmts(stmts, nested=nested))


def count_nodes(stmts) -> int:
    return sum(1 for _ in walk_stmts(stmts))


def strip_doc(body):
    if body and isinstance(body[0], ast.Expr) and isinstance(body[0].value, ast.Constant) and isinstance(body[0].value.value, str):
        return body[1:]
    return body


def terminates(stmts) -> bool:
    """every path through the statement list leaves it (return / raise / continue / break)"""
    if not stmts:
        return False
    s = stmts[-1]
    if isinstance(s, (ast.Return, ast.Raise, ast.Continue, ast.Break)):
        return True
    if isinstance(s, ast.If):
        return bool(s.orelse) and terminates(s.body) and terminates(s.orelse)
    if isinstance(s, ast.Try):
        return (terminates(s.body) or (bool(s.orelse) and terminates(s.orelse))) and all(terminates(h.body) for h in s.handlers) or terminates(s.finalbody)
    if isinstance(s, ast.With):
        return terminates(s.body)
    return False


def returns_only(stmts) -> bool:
    """like terminates, but only through return / raise"""
    if not stmts:
        return False
    s = stmts[-1]
    if isinstance(s, (ast.Return, ast.Raise)):
        return True
    if isinstance(s, ast.If):
        return bool(s.orelse) and returns_only(s.body) and returns_only(s.orelse)
    if isinstance(s, ast.Try):
        return (returns_only(s.body) or (bool(s.orelse) and returns_only(s.orelse))) and all(returns_only(h.body) for h in s.handlers) or returns_only(s.finalbody)
    if isinstance(s, ast.With):
        return returns_only(s.body)
    return False


def is_atom(e) -> bool:
    if isinstance(e, (ast.Constant, ast.Name)):
        return True
    if isinstance(e, ast.Attribute):
        return is_atom(e.value)
    return False


def is_pure(e) -> bool:
    """no side effect and no dependence on evaluation time other than through names / attributes / items read"""
    if is_atom(e):
        return True
    if isinstance(e, ast.Subscript):
        return is_pure(e.value) and is_pure(e.slice)
    if isinstance(e, ast.Slice):
        return all(x is None or is_pure(x) for x in (e.lower, e.upper, e.step))
    if isinstance(e, (ast.Tuple, ast.List)):
        return all(is_pure(x) for x in e.elts)
    if isinstance(e, ast.BinOp):
        return is_pure(e.left) and is_pure(e.right)
    if isinstance(e, ast.UnaryOp):
        return is_pure(e.operand)
    if isinstance(e, ast.BoolOp):
        return all(is_pure(x) for x in e.values)
    if isinstance(e, ast.Compare):
        return is_pure(e.left) and all(is_pure(x) for x in e.comparators)
    if isinstance(e, ast.IfExp):
        return is_pure(e.test) and is_pure(e.body) and is_pure(e.orelse)
    if isinstance(e, ast.JoinedStr):
        return all(is_pure(v.value) if isinstance(v, ast.FormattedValue) else True for v in e.values)
    if isinstance(e, ast.Call) and isinstance(e.func, ast.Name) and e.func.id in PURE_BUILTINS and not e.keywords:
        return all(is_pure(a) for a in e.args)
    if isinstance(e, ast.Dict):
        return all(k is not None and is_pure(k) for k in e.keys) and all(is_pure(v) for v in e.values)
    return False


def fresh_container(e) -> bool:
    return isinstance(e, (ast.List, ast.Dict, ast.Set, ast.ListComp, ast.DictComp, ast.SetComp)) or \
        (isinstance(e, ast.Call) and isinstance(e.func, ast.Name) and e.func.id in ("list", "dict", "set", "sorted"))


def name_loads(stmts, name) -> int:
    return sum(1 for n in walk_stmts(stmts) if isinstance(n, ast.Name) and n.id == name and isinstance(n.ctx, ast.Load))


def const_truth(e):
    """True / False when the expression's truth value is known from its shape, else None"""
    if isinstance(e, ast.Constant):
        return bool(e.value)
    if isinstance(e, (ast.Tuple, ast.List)):
        return bool(e.elts) if not any(isinstance(x, ast.Starred) for x in e.elts) else None
    if isinstance(e, ast.Dict):
        return bool(e.keys)
    if isinstance(e, ast.JoinedStr):
        return True if any(isinstance(v, ast.Constant) and v.value for v in e.values) else None
    if isinstance(e, ast.Lambda):
        return True
    return None


class Subst(ast.NodeTransformer):
    """rename names (all contexts) and substitute expressions for loads of names"""

    def __init__(self, rename: Dict[str, str], subst: Dict[str, ast.expr], vararg: Optional[str] = None, kwarg: Optional[str] = None,
                 kw_items: Optional[List[Tuple[str, ast.expr]]] = None):
        self.rename, self.subst = rename, subst
        self.vararg, self.kwarg, self.kw_items = vararg, kwarg, kw_items

    def visit_Name(self, n):
        if isinstance(n.ctx, ast.Load) and n.id in self.subst:
            return ast.copy_location(copy.deepcopy(self.subst[n.id]), n)
        if n.id in self.subst and not isinstance(n.ctx, ast.Load):
            raise NotInlinable(f"store to substituted name {n.id}")
        if n.id in self.rename:
            return ast.copy_location(ast.Name(id=self.rename[n.id], ctx=n.ctx), n)
        return n

    def _shadow_check(self, args: ast.arguments):
        for a in args.posonlyargs + args.args + args.kwonlyargs + ([args.vararg] if args.vararg else []) + ([args.kwarg] if args.kwarg else []):
            if a.arg in self.subst or a.arg in self.rename:
                raise NotInlinable(f"nested scope shadows {a.arg}")

    def visit_FunctionDef(self, n):
        self._shadow_check(n.args)
        if n.name in self.subst:
            raise NotInlinable("nested def of a substituted name")
        n = self.generic_visit(n)
        if n.name in self.rename:
            n.name = self.rename[n.name]
        return n

    def visit_Lambda(self, n):
        self._shadow_check(n.args)
        return self.generic_visit(n)

    def visit_ExceptHandler(self, n):
        n = self.generic_visit(n)
        if n.name and n.name in self.rename:
            n.name = self.rename[n.name]
        if n.name and n.name in self.subst:
            raise NotInlinable("handler binds a substituted name")
        return n

    def visit_Global(self, n):
        raise NotInlinable("global statement")

    def visit_Nonlocal(self, n):
        raise NotInlinable("nonlocal statement")

    def visit_Call(self, n):
        n = self.generic_visit(n)
        # *vararg / **kwarg of the dissolved helper forwarded to another call
        args = []
        for a in n.args:
            if isinstance(a, ast.Starred) and isinstance(a.value, ast.Tuple):
                args.extend(a.value.elts)
            else:
                args.append(a)
        n.args = args
        kws = []
        for k in n.keywords:
            if k.arg is None and isinstance(k.value, ast.Dict) and all(isinstance(x, ast.Constant) and isinstance(x.value, str) for x in k.value.keys):
                for kk, vv in zip(k.value.keys, k.value.values):
                    kws.append(ast.keyword(arg=kk.value, value=vv))
            else:
                kws.append(k)
        n.keywords = kws
        return n


def replace_node(root, hole_id: int, new):
    """copy of ``root`` in which the node marked ``_sa_hole == hole_id`` is replaced by ``new``"""
    class R(ast.NodeTransformer):
        def visit(self, n):
            if getattr(n, "_sa_hole", None) == hole_id:
                return ast.copy_location(copy.deepcopy(new), n)
            return self.generic_visit(n)
    return R().visit(copy.deepcopy(root))


# ---------------------------------------------------------------------------------------------- the normaliser

class Normalizer:
    def __init__(self, prog: Program, world, baseline: Set[str]):
        self.prog, self.world, self.baseline = prog, world, baseline
        self.memo: Dict[str, Optional[list]] = {}
        self.in_progress: Set[str] = set()
        self.hole = 0
        self.log: Dict[str, List[str]] = {}          # caller qname -> what was dissolved into it
        self.inlined_sites: Dict[str, int] = {}      # helper qname -> call sites dissolved
        self.failed: Dict[str, str] = {}             # helper qname -> why a call was left alone
        self.cur: Optional[FuncInfo] = None
        self.used: Set[str] = set()
        self.try_depth = 0
        self.sroa_classes: Set[str] = set()
        self.closures: Dict[str, ast.FunctionDef] = {}

    # ------------------------------------------------------------------ policy
    def is_helper(self, fi: Optional[FuncInfo]) -> bool:
        if fi is None:
            return False
        q = fi.qname
        if q in self.baseline:
            return False
        if fi.kind in ("setter",):
            return False
        if fi.name.startswith("__") and fi.name.endswith("__") and fi.name != "__init__":
            return False
        return True

    def note(self, what: str):
        self.log.setdefault(self.cur.qname, []).append(what)

    # ------------------------------------------------------------------ annotate resolved calls
    def annotate(self, fi: FuncInfo):
        ft = self.world.types(fi)
        for n in ast.walk(fi.node):
            if not isinstance(n, ast.Call):
                continue
            try:
                tg = self.world.resolve_call(ft, n)
            except AnalysisError:
                continue
            if len(tg) != 1:
                continue
            t = tg[0]
            if t.kind == "func" and self.is_helper(t.func) and t.func.qname != fi.qname:
                n._sa_q = t.func.qname
                n._sa_recv = "bound" if (t.bound_recv is not None and t.func.kind in ("method", "class")) else "none"
            elif t.kind == "class" and t.name not in self.baseline:
                n._sa_cls = t.name

    # ------------------------------------------------------------------ per function
    def function_body(self, fi: FuncInfo) -> list:
        """normalised body of ``fi`` (memoised); raises NotInlinable when fi takes part in a recursion"""
        q = fi.qname
        if q in self.memo:
            if self.memo[q] is None:
                raise NotInlinable("recursive")
            return self.memo[q]
        if q in self.in_progress:
            raise NotInlinable("recursive")
        self.in_progress.add(q)
        saved = (self.cur, self.used, self.try_depth, self.closures, getattr(self, "_local_touched", False))
        saved_ul = getattr(self, "used_locals", set())
        try:
            self.cur = fi
            self._local_touched = False
            self.annotate(fi)
            node = copy.deepcopy(fi.node)
            self.used = all_names([node]) | set(fi.module.consts) | set(fi.module.functions) | set(fi.module.classes) | set(fi.module.imports)
            self.used_locals = stored_names(node.body) | {a.arg for a in node.args.posonlyargs + node.args.args + node.args.kwonlyargs}
            self.try_depth = 0
            body = node.body
            for _ in range(MAX_ROUNDS):
                before = ast.dump(ast.Module(body=body, type_ignores=[]))
                self.closures = self.find_closures(body)
                body = self.tx_block(body)
                body = self.local_passes(body, fi)
                if ast.dump(ast.Module(body=body, type_ignores=[])) == before:
                    break
            if self._local_touched and q not in self.log:
                self.log.setdefault(q, []).append("local idioms rewritten (functional forms, loops over literals, aliases)")
            self.memo[q] = body
            return body
        finally:
            self.cur, self.used, self.try_depth, self.closures, self._local_touched = saved
            self.used_locals = saved_ul
            self.in_progress.discard(q)

    # ------------------------------------------------------------------ statement transformation
    def tx_block(self, stmts: list) -> list:
        out = []
        for s in stmts:
            out.extend(self.tx_stmt(s))
        return out or [ast.Pass()]

    def tx_stmt(self, s) -> list:
        # nested blocks first
        if isinstance(s, (ast.FunctionDef, ast.AsyncFunctionDef)):
            s.body = self.tx_block(s.body)
            return [s]
        if isinstance(s, ast.ClassDef):
            return [s]
        if isinstance(s, ast.Try):
            self.try_depth += 1
            s.body = self.tx_block(s.body)
            self.try_depth -= 1
            for h in s.handlers:
                h.body = self.tx_block(h.body)
            if s.orelse:
                s.orelse = self.tx_block(s.orelse)
            if s.finalbody:
                s.finalbody = self.tx_block(s.finalbody)
        else:
            for fld in ("body", "orelse", "finalbody"):
                b = getattr(s, fld, None)
                if isinstance(b, list) and b and isinstance(b[0], ast.stmt):
                    setattr(s, fld, self.tx_block(b))
            if isinstance(s, ast.Match):
                for c in s.cases:
                    c.body = self.tx_block(c.body)
        # x = A if c else B with a helper call in a branch: make the branches statements so the helper can be dissolved
        if isinstance(s, (ast.Assign, ast.Return, ast.Expr, ast.AugAssign, ast.AnnAssign)) and isinstance(getattr(s, "value", None), ast.IfExp):
            v = s.value
            cands = [c for br in (v.body, v.orelse) for c in ast.walk(br)
                     if isinstance(c, ast.Call) and (hasattr(c, "_sa_q") or hasattr(c, "_sa_closure")) and not getattr(c, "_sa_skip", False)]
            if cands:
                # an expression-like helper is substituted where it stands (the conditional expression keeps its form: `x if c else f()` reads
                # the same to every rule afterwards); only a helper that needs statements forces the split into an if statement
                r0 = self.inline_in_header(s)
                if r0 is not None:
                    pre0, s20 = r0
                    for x in pre0:
                        for n in ast.walk(x):
                            if isinstance(n, ast.stmt):
                                n._sa_inl = True
                    return pre0 + (s20 or [])
                for c in cands:
                    c._sa_skip = False
                a, b = copy.copy(s), copy.copy(s)
                a.value, b.value = v.body, v.orelse
                new = ast.copy_location(ast.If(test=v.test, body=[a], orelse=[b]), s)
                return self.tx_stmt(new)
        # calls in the statement's own expressions (one per round; the function-level loop iterates)
        r = self.inline_in_header(s)
        if r is None:
            loop = self.comprehension_to_loop(s)
            if loop is not None:
                return self.tx_block(loop)
            return [s]
        pre, s2 = r
        for x in pre:
            for n in ast.walk(x):
                if isinstance(n, ast.stmt):
                    n._sa_inl = True
        return pre + (s2 or [])

    def comprehension_to_loop(self, s):
        """v = [elt for x in it if c]  whose element calls a helper that needs statements (an early return, a raise): written as
        v = []; for x in it: if c: v.append(elt)  so that the helper can be dissolved where it is called"""
        if not (isinstance(s, ast.Assign) and len(s.targets) == 1 and isinstance(s.targets[0], ast.Name)):
            return None
        v = s.value
        if isinstance(v, ast.Call) and isinstance(v.func, ast.Name) and v.func.id == "list" and len(v.args) == 1 and not v.keywords and isinstance(v.args[0], ast.GeneratorExp):
            v = v.args[0]
        if not isinstance(v, (ast.ListComp, ast.GeneratorExp)) or (isinstance(v, ast.GeneratorExp) and v is s.value):
            return None
        if len(v.generators) != 1 or v.generators[0].is_async:
            return None
        g = v.generators[0]
        stuck = [c for part in [v.elt] + list(g.ifs) for c in ast.walk(part)
                 if isinstance(c, ast.Call) and (hasattr(c, "_sa_q") or hasattr(c, "_sa_closure")) and getattr(c, "_sa_skip", False)]
        if not stuck:
            return None
        name = s.targets[0].id
        if any(isinstance(x, ast.Name) and x.id == name for x in ast.walk(v)):
            return None
        for c in stuck:
            c._sa_skip = False
        app = ast.Expr(value=ast.Call(func=ast.Attribute(value=ast.Name(id=name, ctx=ast.Load()), attr="append", ctx=ast.Load()), args=[v.elt], keywords=[]))
        inner = [app]
        for c in reversed(g.ifs):
            inner = [ast.If(test=c, body=inner, orelse=[])]
        loop = ast.For(target=g.target, iter=g.iter, body=inner, orelse=[])
        init = ast.Assign(targets=[ast.Name(id=name, ctx=ast.Store())], value=ast.List(elts=[], ctx=ast.Load()))
        out = [init, loop]
        for x in out:
            ast.copy_location(x, s)
            for n in ast.walk(x):
                if not hasattr(n, "lineno"):
                    ast.copy_location(n, s)
            ast.fix_missing_locations(x)
        self.note(f"comprehension at line {getattr(s, 'lineno', '?')} written as a loop so that its helper can be dissolved")
        return out

    # header expressions of a statement, in evaluation order
    @staticmethod
    def header_exprs(s):
        if isinstance(s, ast.Expr):
            return [("value", s.value)]
        if isinstance(s, ast.Assign):
            return [("value", s.value)]
        if isinstance(s, ast.AnnAssign) and s.value is not None:
            return [("value", s.value)]
        if isinstance(s, ast.AugAssign):
            return [("value", s.value)] if isinstance(s.target, ast.Name) else []
        if isinstance(s, ast.Return) and s.value is not None:
            return [("value", s.value)]
        if isinstance(s, ast.If):
            return [("test", s.test)]
        if isinstance(s, ast.While):
            return [("test", s.test)]
        if isinstance(s, ast.For):
            return [("iter", s.iter)]
        if isinstance(s, ast.Raise) and s.exc is not None:
            return [("exc", s.exc)]
        if isinstance(s, ast.Assert):
            return [("test", s.test)]
        return []

    def eval_order(self, e, cond=False, acc=None, state=None):
        """[(call node, conditional, impure_before)] for annotated calls in ``e`` in evaluation order"""
        if acc is None:
            acc, state = [], {"impure": False}
        if isinstance(e, (ast.Lambda, ast.GeneratorExp, ast.ListComp, ast.SetComp, ast.DictComp)):
            for c in ast.walk(e):
                if isinstance(c, ast.Call) and (hasattr(c, "_sa_q") or hasattr(c, "_sa_closure")):
                    acc.append((c, True, True))
            state["impure"] = True
            return acc
        if isinstance(e, ast.BoolOp):
            for i, v in enumerate(e.values):
                self.eval_order(v, cond or i > 0, acc, state)
            return acc
        if isinstance(e, ast.IfExp):
            self.eval_order(e.test, cond, acc, state)
            self.eval_order(e.body, True, acc, state)
            self.eval_order(e.orelse, True, acc, state)
            return acc
        if isinstance(e, ast.Call):
            # callee expression, then arguments, then the call itself
            imp0 = state["impure"]
            if isinstance(e.func, ast.Attribute):
                self.eval_order(e.func.value, cond, acc, state)
            elif not isinstance(e.func, ast.Name):
                self.eval_order(e.func, cond, acc, state)
            for a in e.args:
                self.eval_order(a.value if isinstance(a, ast.Starred) else a, cond, acc, state)
            for k in e.keywords:
                self.eval_order(k.value, cond, acc, state)
            if hasattr(e, "_sa_q") or hasattr(e, "_sa_closure"):
                # its own arguments are evaluated before its body either way (impure ones are bound in a prelude)
                acc.append((e, cond, imp0))
            state["impure"] = True
            return acc
        if isinstance(e, ast.Compare):
            self.eval_order(e.left, cond, acc, state)
            for i, c in enumerate(e.comparators):
                self.eval_order(c, cond or i > 0, acc, state)
            return acc
        for c in ast.iter_child_nodes(e):
            if isinstance(c, ast.expr):
                self.eval_order(c, cond, acc, state)
            elif isinstance(c, (ast.keyword, ast.FormattedValue, ast.Slice)):
                for d in ast.iter_child_nodes(c):
                    if isinstance(d, ast.expr):
                        self.eval_order(d, cond, acc, state)
        if isinstance(e, (ast.Await, ast.Yield, ast.YieldFrom, ast.NamedExpr)):
            state["impure"] = True
        return acc

    def inline_in_header(self, s):
        """try to dissolve one helper call in the header of ``s``.
        Returns None (nothing to do) or (prelude statements, [replacement statements] or None when s vanished)"""
        for fld, e in self.header_exprs(s):
            for (call, cond, impure_before) in self.eval_order(e):
                if getattr(call, "_sa_skip", False):
                    continue
                if hasattr(call, "_sa_closure"):
                    g = self.closures.get(call._sa_closure)
                    if g is None:
                        continue
                    q = f"{self.cur.qname}.<locals>.{g.name}"
                    try:
                        hbody = strip_doc(copy.deepcopy(g.body))
                        if has_node(hbody, (ast.Yield, ast.YieldFrom, ast.Await)) or count_nodes(hbody) > MAX_BODY_NODES:
                            raise NotInlinable("generator / too large")
                        r = self.splice(s, fld, e, call, q, g, hbody, cond, impure_before, closure=True)
                    except NotInlinable as ex:
                        self.failed[q] = str(ex)
                        call._sa_skip = True
                        continue
                    if r is not None:
                        self.inlined_sites[q] = self.inlined_sites.get(q, 0) + 1
                        self.note(f"closure {g.name} at line {getattr(call, 'lineno', '?')}")
                        return r
                    call._sa_skip = True
                    continue
                q = call._sa_q
                H = self.prog.funcs.get(q)
                if H is None:
                    continue
                try:
                    r = self.inline_call(s, fld, e, call, H, cond, impure_before)
                except NotInlinable as ex:
                    self.failed[q] = str(ex)
                    call._sa_skip = True
                    continue
                except RecursionError:
                    call._sa_skip = True
                    continue
                if r is not None:
                    self.inlined_sites[q] = self.inlined_sites.get(q, 0) + 1
                    self.note(f"{H.qname} at line {getattr(call, 'lineno', '?')}")
                    return r
                call._sa_skip = True
        return None

    # ------------------------------------------------------------------ binding of actuals
    def bind(self, H: FuncInfo, call: ast.Call, hbody: list):
        a = H.node.args
        pos = [x.arg for x in a.posonlyargs + a.args]
        actual_pos = list(call.args)
        if any(isinstance(x, ast.Starred) for x in actual_pos) or any(k.arg is None for k in call.keywords):
            raise NotInlinable("star arguments at the call")
        if call._sa_recv == "bound":
            if not isinstance(call.func, ast.Attribute):
                raise NotInlinable("bound call without receiver")
            actual_pos = [call.func.value] + actual_pos
        elif H.kind == "class":
            # Class.method(...) on a classmethod: cls is the class expression
            if isinstance(call.func, ast.Attribute):
                actual_pos = [call.func.value] + actual_pos
            else:
                raise NotInlinable("classmethod without receiver")
        elif H.kind == "method" and H.cls is not None and isinstance(call.func, ast.Attribute):
            # Class.method(obj, ...): positional as written
            pass
        m: Dict[str, ast.expr] = {}
        extra = []
        for i, x in enumerate(actual_pos):
            if i < len(pos):
                m[pos[i]] = x
            else:
                extra.append(x)
        if extra and not a.vararg:
            raise NotInlinable("too many positional arguments")
        kw_extra = []
        names = set(pos) | {x.arg for x in a.kwonlyargs}
        for k in call.keywords:
            if k.arg in names:
                if k.arg in m:
                    raise NotInlinable("duplicate argument")
                m[k.arg] = k.value
            elif a.kwarg:
                kw_extra.append((k.arg, k.value))
            else:
                raise NotInlinable(f"unexpected keyword {k.arg}")
        for p in list(pos) + [x.arg for x in a.kwonlyargs]:
            if p not in m:
                d = H.default_of(p)
                if d is None:
                    raise NotInlinable(f"missing argument {p}")
                m[p] = d
        if a.vararg:
            m[a.vararg.arg] = ast.Tuple(elts=extra, ctx=ast.Load())
        if a.kwarg:
            m[a.kwarg.arg] = ast.Dict(keys=[ast.Constant(value=k) for k, _ in kw_extra], values=[v for _, v in kw_extra])
        assigned = stored_names(hbody)
        attr_stores = {n.attr for n in walk_stmts(hbody) if isinstance(n, ast.Attribute) and isinstance(n.ctx, (ast.Store, ast.Del))}
        mutates = any((isinstance(n, ast.Subscript) and isinstance(n.ctx, (ast.Store, ast.Del))) or
                      (isinstance(n, ast.Call) and isinstance(n.func, ast.Attribute) and n.func.attr in MUTATORS) for n in walk_stmts(hbody))
        subst, prelude_pairs = {}, []
        for p, x in m.items():
            uses = name_loads(hbody, p)
            if p in assigned or not self.substitutable(x, uses, attr_stores, mutates):
                prelude_pairs.append((p, x))
            else:
                subst[p] = x
        return subst, prelude_pairs, m

    def substitutable(self, x, uses, attr_stores, mutates) -> bool:
        if isinstance(x, (ast.Constant, ast.Name)):
            return True
        if isinstance(x, ast.UnaryOp) and isinstance(x.op, (ast.USub, ast.UAdd)) and isinstance(x.operand, ast.Constant) and isinstance(x.operand.value, (int, float)):
            return True
        if uses == 0:
            return is_pure(x)
        if isinstance(x, ast.Attribute):
            return self.substitutable(x.value, uses, attr_stores, mutates) and (x.attr not in attr_stores)
        if isinstance(x, ast.Subscript):
            return is_pure(x) and (uses <= 1 or not mutates)
        if isinstance(x, ast.Lambda):
            return uses <= 1
        if fresh_container(x):
            return uses <= 1 and is_pure(x)
        if isinstance(x, ast.Tuple):
            return all(self.substitutable(e, uses, attr_stores, mutates) for e in x.elts)
        if isinstance(x, ast.Dict):
            return uses <= 1 and is_pure(x)
        if is_pure(x):
            return uses <= 2 or not mutates
        return False

    def fresh(self, base: str) -> str:
        i = 1
        while f"{base}__{i}" in self.used:
            i += 1
        nm = f"{base}__{i}"
        self.used.add(nm)
        return nm

    def check_scope(self, H: FuncInfo, hbody: list, hlocals: Set[str]):
        """free names of the helper must mean the same thing at the call site"""
        F = self.cur
        free = free_names(hbody, hlocals)
        flocals = stored_names(F.node.body) | set(F.params)
        import builtins
        for g in free:
            if g in flocals and not self._is_nested_in(H, F):
                raise NotInlinable(f"free name {g} of the helper is a local of the caller")
            if H.module is not F.module and not hasattr(builtins, g):
                r1 = self.prog.resolve_name_expr(H.module, ast.Name(id=g, ctx=ast.Load()))
                r2 = self.prog.resolve_name_expr(F.module, ast.Name(id=g, ctx=ast.Load()))
                if r1 is None or r2 is None or repr(r1) != repr(r2):
                    raise NotInlinable(f"free name {g} resolves differently in the caller's module")

    @staticmethod
    def _is_nested_in(H, F):
        return False

    # ------------------------------------------------------------------ one call
    def inline_call(self, s, fld, e, call, H: FuncInfo, cond: bool, impure_before: bool):
        if H.node.decorator_list and not all(isinstance(d, ast.Name) and d.id in ("staticmethod", "classmethod") for d in H.node.decorator_list):
            raise NotInlinable("decorated")
        if isinstance(H.node, ast.AsyncFunctionDef):
            raise NotInlinable("async")
        hbody = strip_doc(copy.deepcopy(self.function_body(H)))
        if has_node(hbody, (ast.Yield, ast.YieldFrom, ast.Await)):
            raise NotInlinable("generator")
        if count_nodes(hbody) > MAX_BODY_NODES:
            raise NotInlinable("too large")
        return self.splice(s, fld, e, call, H.qname, H, hbody, cond, impure_before)

    def splice(self, s, fld, e, call, label, H, hbody, cond, impure_before, closure=False):
        """dissolve ``call`` (to a helper with body ``hbody``) occurring in header expression ``e`` of statement ``s``"""
        if closure:
            subst, prelude_pairs, amap = self.bind_closure(H, call, hbody)
        else:
            subst, prelude_pairs, amap = self.bind(H, call, hbody)
        params = set(amap)
        hlocals = stored_names(hbody) | params
        if not closure:
            self.check_scope(H, hbody, hlocals)
        # names of the helper that must not capture names visible at the call site
        actual_names = set()
        for x in amap.values():
            actual_names |= {n.id for n in ast.walk(x) if isinstance(n, ast.Name)}
        rename = {}
        keep_locals = hlocals - set(subst)
        for l in sorted(keep_locals):
            if l in self.used or l in actual_names:
                rename[l] = self.fresh(l)
            else:
                self.used.add(l)
        # ---- expression-like helper: substitute in place
        single = len(hbody) == 1 and isinstance(hbody[0], ast.Return)
        if single or (len(hbody) == 1 and isinstance(hbody[0], ast.Pass)):
            if not prelude_pairs or (not cond and not impure_before and not isinstance(s, ast.While)):
                val = hbody[0].value if single and hbody[0].value is not None else ast.Constant(value=None)
                val = Subst(rename, subst).visit(copy.deepcopy(val))
                pre = [self._assign(rename.get(p, p), x, call) for p, x in prelude_pairs]
                self.hole += 1
                call._sa_hole = self.hole
                new_s = replace_node(s, self.hole, val)
                del call._sa_hole
                return pre, [new_s]
        if cond or impure_before:
            raise NotInlinable("not the first thing the statement evaluates")
        if isinstance(s, ast.While):
            raise NotInlinable("statement-level helper in a loop test")
        body = [Subst(rename, subst).visit(x) for x in hbody]
        pre = [self._assign(rename.get(p, p), x, call) for p, x in prelude_pairs]
        # ---- choose the continuation
        self.hole += 1
        hid = self.hole
        call._sa_hole = hid
        try:
            if isinstance(s, ast.Return):
                # the caller returns what the helper returns: the helper's returns become the caller's
                def cont(E):
                    return [replace_node(s, hid, E if E is not None else ast.Constant(value=None))]
                out = self.map_returns(body, cont)
                if not returns_only(out):
                    out = out + cont(None)
                return pre + out, None
            if isinstance(s, (ast.For, ast.With, ast.Assert, ast.Raise)) or (isinstance(s, ast.If) and not self._const_returns(body)):
                tmp = self.fresh("_r")
                ass = ast.copy_location(ast.Assign(targets=[ast.Name(id=tmp, ctx=ast.Store())], value=call, lineno=call.lineno), call)
                new_s = replace_node(s, hid, ast.Name(id=tmp, ctx=ast.Load()))
                call2 = ass.value
                # now dissolve the call in the temporary assignment
                del call._sa_hole
                self.hole += 1
                hid2 = self.hole
                call2._sa_hole = hid2

                def cont2(E):
                    return [replace_node(ass, hid2, E if E is not None else ast.Constant(value=None))]
                out = self.elim(body, cont2)
                del call2._sa_hole
                return pre + out, [new_s]
            if isinstance(s, ast.If):
                size = count_nodes([s])

                def cont_if(E):
                    E = E if E is not None else ast.Constant(value=None)
                    c = replace_node(s, hid, E)
                    return self.fold_if(c)
                nret = sum(1 for n in walk_stmts(body, nested=False) if isinstance(n, ast.Return))
                if size * max(nret, 1) > MAX_DUP_NODES * 3:
                    raise NotInlinable("continuation too large to duplicate")
                return pre + self.elim(body, cont_if), None
            # simple statement: Expr / Assign / AugAssign / AnnAssign
            target_name = None
            if isinstance(s, ast.Assign) and len(s.targets) == 1 and isinstance(s.targets[0], ast.Name) and s.value is call:
                target_name = s.targets[0].id
            # rename the helper's result variable to the assignment target
            if target_name and self.try_depth == 0:
                rets = [n for n in walk_stmts(body, nested=False) if isinstance(n, ast.Return)]
                rv = {n.value.id if isinstance(n.value, ast.Name) else None for n in rets}
                if rets and len(rv) == 1 and None not in rv:
                    v = rv.pop()
                    free_h = {n.id for n in walk_stmts(body) if isinstance(n, ast.Name)}
                    if v in stored_names(body) and v not in set(rename.get(p, p) for p, _ in prelude_pairs) and target_name not in free_h \
                            and target_name not in actual_names and not returns_fall(body):
                        body = [Subst({v: target_name}, {}).visit(x) for x in body]

            def cont_simple(E):
                if isinstance(s, ast.Expr) and s.value is call:
                    if E is None or is_pure(E):
                        return []
                    return [ast.copy_location(ast.Expr(value=E), s)]
                E2 = E if E is not None else ast.Constant(value=None)
                if target_name and isinstance(E2, ast.Name) and E2.id == target_name:
                    return []
                return [replace_node(s, hid, E2)]
            return pre + self.elim(body, cont_simple), None
        finally:
            if hasattr(call, "_sa_hole"):
                del call._sa_hole

    @staticmethod
    def _assign(name, value, at):
        return ast.copy_location(ast.Assign(targets=[ast.Name(id=name, ctx=ast.Store())], value=copy.deepcopy(value), lineno=getattr(at, "lineno", 1)), at)

    @staticmethod
    def _const_returns(body) -> bool:
        rets = [n for n in walk_stmts(body, nested=False) if isinstance(n, ast.Return)]
        return bool(rets) and all(n.value is None or isinstance(n.value, ast.Constant) for n in rets)

    def fold_if(self, s: ast.If) -> list:
        """an ``if`` whose test became constant after substituting a constant return value"""
        t = self.fold_test(s.test)
        if t is True:
            return s.body
        if t is False:
            return s.orelse
        s.test = t if isinstance(t, ast.AST) else s.test
        return [s]

    def fold_test(self, t):
        if isinstance(t, ast.Constant):
            return bool(t.value)
        if isinstance(t, ast.UnaryOp) and isinstance(t.op, ast.Not):
            v = self.fold_test(t.operand)
            if isinstance(v, bool):
                return not v
            return t
        if isinstance(t, ast.BoolOp):
            vals = []
            is_and = isinstance(t.op, ast.And)
            for v in t.values:
                fv = self.fold_test(v)
                if isinstance(fv, bool):
                    if fv == is_and:
                        continue  # neutral element
                    if not vals:
                        return fv
                    vals.append(ast.copy_location(ast.Constant(value=fv), t))
                    break
                vals.append(fv)
            if not vals:
                return is_and
            if len(vals) == 1:
                return vals[0]
            return ast.copy_location(ast.BoolOp(op=t.op, values=vals), t)
        def _num(e):
            if isinstance(e, ast.UnaryOp) and isinstance(e.op, ast.USub) and isinstance(e.operand, ast.Constant) and isinstance(e.operand.value, (int, float)) \
                    and not isinstance(e.operand.value, bool):
                return ast.Constant(value=-e.operand.value)
            return e
        if isinstance(t, ast.Compare) and len(t.ops) == 1 and isinstance(_num(t.left), ast.Constant) and isinstance(_num(t.comparators[0]), ast.Constant):
            a, b = _num(t.left).value, _num(t.comparators[0]).value
            op = t.ops[0]
            if isinstance(op, ast.Is):
                if a is None or b is None or isinstance(a, bool) or isinstance(b, bool):
                    return a is b
            if isinstance(op, ast.IsNot):
                if a is None or b is None or isinstance(a, bool) or isinstance(b, bool):
                    return a is not b
            if isinstance(op, ast.Eq):
                return a == b
            if isinstance(op, ast.NotEq):
                return a != b
        return t

    # ------------------------------------------------------------------ return elimination
    def map_returns(self, stmts, cont):
        class M(ast.NodeTransformer):
            def visit_Return(self_, n):
                r = cont(n.value)
                return [ast.copy_location(x, n) if not hasattr(x, "lineno") else x for x in r]

            def visit_FunctionDef(self_, n):
                return n

            def visit_Lambda(self_, n):
                return n
        out = []
        for s in stmts:
            r = M().visit(s)
            out.extend(r if isinstance(r, list) else [r])
        return out

    def elim(self, stmts, cont, in_loop=False) -> list:
        """statements equivalent to running ``stmts`` where ``return E`` means: run cont(E) and skip everything that follows
        (both the remaining helper statements and ``rest_after``); falling off the end means cont(None)"""
        out = []
        for i, s in enumerate(stmts):
            if isinstance(s, ast.Return):
                out.extend(cont(s.value))
                if in_loop:
                    out.append(ast.copy_location(ast.Break(), s))
                return out or [ast.copy_location(ast.Pass(), s)]
            if isinstance(s, ast.Raise):
                out.append(s)
                return out
            if not has_node([s], ast.Return):
                out.append(s)
                continue
            rest = stmts[i + 1:]
            if in_loop:
                # inside a loop of the helper every return is followed by a break; nothing needs restructuring
                out.append(self._returns_to_breaks(s, cont))
                continue
            if isinstance(s, ast.If):
                a = self.elim(s.body + rest, cont)
                b = self.elim((s.orelse or []) + rest, cont)
                if count_nodes(rest) > MAX_DUP_NODES and not (returns_only(s.body) or returns_only(s.orelse or [])):
                    raise NotInlinable("helper tail would be duplicated")
                new = ast.copy_location(ast.If(test=s.test, body=a or [ast.Pass()], orelse=b), s)
                if not new.orelse or (len(new.orelse) == 1 and isinstance(new.orelse[0], ast.Pass)):
                    new.orelse = []
                out.append(new)
                return out
            if isinstance(s, (ast.For, ast.While)):
                if s.orelse:
                    raise NotInlinable("return inside a loop with an else clause")
                for n in s.body:
                    for x in walk_stmts([n], nested=False):
                        if isinstance(x, (ast.For, ast.While)) and has_node([x], ast.Return):
                            raise NotInlinable("return inside a nested loop")
                tail = self.elim(rest, cont)
                own_break = self._has_own_break(s)
                if tail and own_break:
                    raise NotInlinable("loop with both break and return")
                body = self.elim(s.body, cont, in_loop=True)
                new = copy.copy(s)
                new.body = body
                new.orelse = tail
                out.append(new)
                return out
            if isinstance(s, (ast.Try, ast.With)):
                tail = self.elim(rest, cont)
                if tail and not returns_only([s]):
                    raise NotInlinable("return inside try/with followed by more code")
                out.append(self._returns_in_place(s, cont))
                return out
            raise NotInlinable(f"return inside {type(s).__name__}")
        if not in_loop:
            # fell off the end of the helper
            out.extend(self._tail(cont))
        return out

    def _tail(self, cont):
        return cont(None)

    @staticmethod
    def _has_own_break(loop) -> bool:
        def scan(stmts):
            for s in stmts:
                if isinstance(s, ast.Break):
                    return True
                if isinstance(s, (ast.For, ast.While, ast.FunctionDef, ast.AsyncFunctionDef, ast.ClassDef)):
                    continue
                for fld in ("body", "orelse", "finalbody"):
                    b = getattr(s, fld, None)
                    if isinstance(b, list) and b and isinstance(b[0], ast.stmt) and scan(b):
                        return True
                if isinstance(s, ast.Try):
                    for h in s.handlers:
                        if scan(h.body):
                            return True
            return False
        return scan(loop.body)

    def _returns_to_breaks(self, s, cont):
        class M(ast.NodeTransformer):
            def visit_Return(self_, n):
                return cont(n.value) + [ast.copy_location(ast.Break(), n)]

            def visit_FunctionDef(self_, n):
                return n

            def visit_Lambda(self_, n):
                return n
        return M().visit(s)

    def _returns_in_place(self, s, cont):
        class M(ast.NodeTransformer):
            def visit_Return(self_, n):
                r = cont(n.value)
                return r or [ast.copy_location(ast.Pass(), n)]

            def visit_FunctionDef(self_, n):
                return n

            def visit_Lambda(self_, n):
                return n
        if has_node(getattr(s, "finalbody", []) or [], ast.Return):
            raise NotInlinable("return in finally")
        return M().visit(s)

    # ------------------------------------------------------------------ closures
    def find_closures(self, body) -> Dict[str, ast.FunctionDef]:
        defs: Dict[str, list] = {}
        stores: Dict[str, int] = {}
        for n in walk_stmts(body, nested=False):
            if isinstance(n, ast.FunctionDef):
                defs.setdefault(n.name, []).append(n)
            elif isinstance(n, ast.Name) and isinstance(n.ctx, (ast.Store, ast.Del)):
                stores[n.id] = stores.get(n.id, 0) + 1
        out = {}
        for name, ds in defs.items():
            if len(ds) != 1 or stores.get(name):
                continue
            g = ds[0]
            if g.decorator_list or any(isinstance(x, ast.Name) and x.id == name for x in ast.walk(g)):
                continue
            if has_node(g.body, (ast.Nonlocal, ast.Global), nested=True):
                continue
            out[name] = g
        for n in walk_stmts(body):
            if isinstance(n, ast.Call) and isinstance(n.func, ast.Name) and n.func.id in out and not hasattr(n, "_sa_closure"):
                n._sa_closure = n.func.id
        return out

    def bind_closure(self, g: ast.FunctionDef, call: ast.Call, hbody):
        fake = FuncInfo("<closure>", g.name, self.cur.module, None, g, "function")
        call._sa_recv = "none"
        return self.bind(fake, call, hbody)

    # ------------------------------------------------------------------ local passes
    def local_passes(self, body, fi):
        from . import normalize_local as L
        return L.run(self, body, fi)


def returns_fall(body) -> bool:
    """some return is not the last thing executed syntactically (used only as a conservative guard)"""
    return False


# ---------------------------------------------------------------------------------------------- driver

def normalize_program(prog: Program, world) -> Tuple[Dict[str, ast.Module], dict]:
    baseline = load_baseline()
    nz = Normalizer(prog, world, baseline)
    new_bodies: Dict[tuple, list] = {}
    for q, fi in list(prog.funcs.items()):
        try:
            body = nz.function_body(fi)
        except NotInlinable:
            continue
        if q in nz.log:
            new_bodies[(fi.module.name, fi.node.name, fi.node.lineno, fi.node.col_offset)] = body
    # helpers dissolved at every reference are dropped
    touched = set(nz.log)
    trees = {}
    for mod, mi in prog.modules.items():
        t2 = copy.deepcopy(mi.tree)
        for n in ast.walk(t2):
            if isinstance(n, (ast.FunctionDef, ast.AsyncFunctionDef)):
                k = (mod, n.name, n.lineno, n.col_offset)
                if k in new_bodies:
                    n.body = new_bodies[k]
        trees[mod] = t2
    refs: Dict[str, int] = {}
    for mod, t in trees.items():
        for n in ast.walk(t):
            if isinstance(n, ast.Name) and isinstance(n.ctx, ast.Load):
                refs[n.id] = refs.get(n.id, 0) + 1
            elif isinstance(n, ast.Attribute):
                refs[n.attr] = refs.get(n.attr, 0) + 1
            elif isinstance(n, ast.alias):
                refs[n.name.split(".")[-1]] = refs.get(n.name.split(".")[-1], 0) + 1
    removed = []
    for q, cnt in nz.inlined_sites.items():
        fi = prog.funcs.get(q)
        if fi is None or refs.get(fi.name, 0) > 0:
            continue
        removed.append(q)
    for q in list(nz.sroa_classes):
        ci = prog.classes.get(q)
        if ci is not None and refs.get(ci.name, 0) == 0:
            removed.append(q)
    dead = set()
    for q in removed:
        if q in prog.funcs:
            fi = prog.funcs[q]
            dead.add((fi.module.name, fi.node.name, fi.node.lineno))
        else:
            ci = prog.classes[q]
            dead.add((ci.module.name, ci.node.name, ci.node.lineno))

    def prune(mod, body):
        out = []
        for s in body:
            if isinstance(s, (ast.FunctionDef, ast.AsyncFunctionDef, ast.ClassDef)) and (mod, s.name, s.lineno) in dead:
                continue
            if isinstance(s, ast.ClassDef):
                s.body = prune(mod, s.body) or [ast.Pass()]
            out.append(s)
        return out
    for mod, t in trees.items():
        t.body = prune(mod, t.body)
        ast.fix_missing_locations(t)
    info = {"dissolved": {k: v for k, v in sorted(nz.log.items())}, "helpers_removed": sorted(removed),
            "left_alone": {k: v for k, v in sorted(nz.failed.items()) if k not in removed}}
    return trees, info


def main():
    import sys
    from .types import World
    root = None
    args = [a for a in sys.argv[1:]]
    if "--root" in args:
        root = args[args.index("--root") + 1]
        args = [a for a in args if a not in ("--root", root)]
    if args and args[0] == "--baseline":
        prog = Program(root, wide=True)
        names = sorted(set(prog.funcs) | set(prog.classes) | {f"{m}.{c}" for m, mi in prog.modules.items() for c in mi.consts})
        with open(BASELINE_FILE, "w", encoding="utf-8") as f:
            json.dump({"comment": "qualified names of every function and class of the pinned tree (anything else is a helper and is dissolved into its callers, "
                                  "sa/normalize.py) and a fingerprint of every function, used only to recognise a baseline function that was renamed",
                       "names": names, "funcs": {q: fingerprint(fi.node, prog, fi.module) for q, fi in sorted(prog.funcs.items()) if not q.startswith("tests.")}}, f, indent=0)
        print(len(names), "names written to", BASELINE_FILE)
        return 0
    prog = Program(root)
    trees, info = normalize_program(prog, World(prog))
    print(json.dumps(info, indent=1))
    prog2 = Program(root, trees=trees)
    for q in args:
        fi = prog2.funcs.get(q)
        print("#", q)
        print(ast.unparse(fi.node) if fi else "  (not found)")
    return 0


if __name__ == "__main__":
    raise SystemExit(main())
