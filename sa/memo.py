"""Shared rule: module- or class-level containers written on a property's slice.

A result that a property requires to be a function of the input alone must not depend on what was processed earlier.
A memo table is compatible with that only if (a) the key it is filled under determines the stored value -- every
parameter the value is computed from also goes into the key -- and (b) the table is read with the same key.  Any other
write to long-lived state on the slice (a counter, a list of things seen, a cache keyed by part of the input) makes the
result history dependent.  Node.store (the registry, C14's subject) and logging are exempt."""
from __future__ import annotations

import ast
from typing import Dict, List, Set

from .model import FuncInfo, norm

MUT = {"append", "add", "update", "pop", "clear", "setdefault", "extend", "insert", "remove", "discard", "popitem", "appendleft"}


def _module_containers(prog, mi) -> Set[str]:
    out = set()
    for name, v in mi.consts.items():
        if isinstance(v, (ast.Dict, ast.List, ast.Set)) or (isinstance(v, ast.Call) and norm(v.func) in (
                "dict", "list", "set", "collections.defaultdict", "defaultdict", "collections.OrderedDict", "OrderedDict", "collections.Counter", "Counter",
                "collections.deque", "deque", "weakref.WeakValueDictionary")):
            out.add(name)
    return out


def state_writes(ctx, funcs: List[FuncInfo], exempt=("store",)):
    """[(fi, node, container name, kind)] writes to module-level containers (by name or module.attr) and class-level
    containers (Class.attr / cls.attr) in ``funcs``; kind: 'item' (D[k] = v / setdefault) or 'other'"""
    prog = ctx.prog
    out = []
    for fi in funcs:
        mi = fi.module
        conts = _module_containers(prog, mi)
        local_stores = {n.id for n in ast.walk(fi.node) if isinstance(n, ast.Name) and isinstance(n.ctx, ast.Store)} | set(fi.params)
        globals_decl = {x for n in ast.walk(fi.node) if isinstance(n, ast.Global) for x in n.names}

        def container_of(e):
            """name of the long-lived container ``e`` denotes, or None"""
            if isinstance(e, ast.Name) and e.id in conts and (e.id not in local_stores or e.id in globals_decl):
                return e.id
            if isinstance(e, ast.Attribute) and isinstance(e.value, ast.Name):
                r = prog.resolve_name_expr(mi, e)
                if r and r[0] == "const":
                    tm = r[1]
                    if r[2] in _module_containers(prog, tm):
                        return f"{tm.name}.{r[2]}"
                # Class.attr / cls.attr / self.__class__.attr
                base = e.value.id
                ci = mi.classes.get(base) or (fi.cls if (fi.cls is not None and base in ("cls",) or (fi.kind == "class" and fi.params and base == fi.params[0])) else None)
                if ci is None:
                    rr = prog.resolve_name_expr(mi, e.value)
                    if rr and rr[0] == "class":
                        ci = rr[1]
                if ci is not None and e.attr in ci.class_attrs and e.attr not in exempt:
                    v = ci.class_attrs[e.attr]
                    if isinstance(v, (ast.Dict, ast.List, ast.Set)) or (isinstance(v, ast.Call) and norm(v.func) in ("dict", "list", "set")):
                        return f"{ci.name}.{e.attr}"
            return None
        # a mutable default argument is created once: mutating it (or handing it on) keeps state between calls
        for p in fi.params:
            d = fi.default_of(p)
            if isinstance(d, (ast.List, ast.Dict, ast.Set)) or (isinstance(d, ast.Call) and norm(d.func) in ("list", "dict", "set")):
                rebound_first = False
                for n in ast.walk(fi.node):
                    hit = None
                    if isinstance(n, ast.Call) and isinstance(n.func, ast.Attribute) and n.func.attr in MUT and isinstance(n.func.value, ast.Name) and n.func.value.id == p:
                        hit = n
                    elif isinstance(n, (ast.Assign, ast.AugAssign)) and any(
                            (isinstance(t, ast.Subscript) and isinstance(t.value, ast.Name) and t.value.id == p) or
                            (isinstance(n, ast.AugAssign) and isinstance(t, ast.Name) and t.id == p)
                            for t in (n.targets if isinstance(n, ast.Assign) else [n.target])):
                        hit = n
                    elif isinstance(n, ast.Call) and any(isinstance(a, ast.Name) and a.id == p for a in list(n.args) + [k.value for k in n.keywords]) \
                            and not (isinstance(n.func, ast.Name) and n.func.id in ("len", "list", "tuple", "sorted", "set", "dict", "isinstance", "str", "bool", "iter", "enumerate")):
                        hit = n
                    elif isinstance(n, ast.Return) and isinstance(n.value, ast.Name) and n.value.id == p:
                        hit = n
                    if hit is not None:
                        out.append((fi, hit, f"default value of parameter `{p}`", "default"))
                        break
        # a dict parameter used as a cache handed down through the calls (read with .get / in / [] and filled in the same function)
        for p in fi.params:
            if fi.cls is not None and p == fi.params[0] and fi.kind in ("method", "class"):
                continue
            reads = any((isinstance(n, ast.Call) and isinstance(n.func, ast.Attribute) and n.func.attr == "get" and isinstance(n.func.value, ast.Name) and n.func.value.id == p)
                        or (isinstance(n, ast.Compare) and isinstance(n.ops[0], (ast.In, ast.NotIn)) and isinstance(n.comparators[0], ast.Name) and n.comparators[0].id == p)
                        for n in ast.walk(fi.node))
            if not reads:
                continue
            for n in ast.walk(fi.node):
                if isinstance(n, ast.Assign):
                    for t in n.targets:
                        if isinstance(t, ast.Subscript) and isinstance(t.value, ast.Name) and t.value.id == p:
                            out.append((fi, n, f"parameter `{p}`", "param-item"))
        for n in ast.walk(fi.node):
            if isinstance(n, (ast.Assign, ast.AugAssign)):
                for t in (n.targets if isinstance(n, ast.Assign) else [n.target]):
                    if isinstance(t, ast.Subscript):
                        c = container_of(t.value)
                        if c:
                            out.append((fi, n, c, "item" if isinstance(n, ast.Assign) else "other"))
                    elif isinstance(t, ast.Name) and t.id in globals_decl:
                        out.append((fi, n, t.id, "rebind"))
            elif isinstance(n, ast.Delete):
                for t in n.targets:
                    if isinstance(t, ast.Subscript):
                        c = container_of(t.value)
                        if c:
                            out.append((fi, n, c, "other"))
            elif isinstance(n, ast.Call) and isinstance(n.func, ast.Attribute) and n.func.attr in MUT:
                c = container_of(n.func.value)
                if c:
                    out.append((fi, n, c, "item" if n.func.attr == "setdefault" and len(n.args) == 2 else "other"))
    return out


def _param_deps(fi: FuncInfo):
    """flow-insensitive: local name -> set of parameters it may derive from"""
    deps: Dict[str, Set[str]] = {p: {p} for p in fi.params}

    def dep_of(e):
        out = set()
        for n in ast.walk(e):
            if isinstance(n, ast.Name) and n.id in deps:
                out |= deps[n.id]
        return out

    def bind(t, d):
        ch = False
        for n in ast.walk(t):
            if isinstance(n, ast.Name) and isinstance(n.ctx, ast.Store) and n.id not in fi.params:
                if not d <= deps.get(n.id, set()):
                    deps.setdefault(n.id, set()).update(d)
                    ch = True
        return ch
    for _ in range(10):
        changed = False
        for n in ast.walk(fi.node):
            if isinstance(n, ast.Assign):
                d = dep_of(n.value)
                for t in n.targets:
                    changed |= bind(t, d)
            elif isinstance(n, ast.AugAssign):
                changed |= bind(n.target, dep_of(n.value))
            elif isinstance(n, (ast.For, ast.comprehension)):
                changed |= bind(n.target, dep_of(n.iter))
            elif isinstance(n, ast.NamedExpr):
                changed |= bind(n.target, dep_of(n.value))
            elif isinstance(n, ast.withitem) and n.optional_vars is not None:
                changed |= bind(n.optional_vars, dep_of(n.context_expr))
        if not changed:
            break
    return deps, dep_of


def check_slice(ctx, rep, rule: str, funcs: List[FuncInfo], what: str, exempt=("store",)):
    """report history dependence introduced by long-lived state on ``funcs``"""
    writes = state_writes(ctx, funcs, exempt)
    rep.count(f"functions scanned for long-lived state ({what})", len(funcs))
    by_fi = {}
    for w in writes:
        by_fi.setdefault(w[0].qname, []).append(w)
    for q, ws in sorted(by_fi.items()):
        fi = ws[0][0]
        deps, dep_of = _param_deps(fi)
        for (_fi, n, cont, kind) in ws:
            if kind == "default":
                rep.oblige((rule, q, cont), False)
                rep.add(rule, q, n, f"the mutable {cont} is created once and is changed / handed on / returned here: what one call puts into it is "
                        f"still there in the next call ({what} then depends on what was processed before)", fi.loc(n))
                continue
            if kind == "param-item":
                t = [t for t in n.targets if isinstance(t, ast.Subscript)][0]
                key_e, val_e = t.slice, n.value
                pname = t.value.id
                vd = dep_of(val_e) - {pname}
                kd = {x.id for x in ([key_e] if isinstance(key_e, ast.Name) else key_e.elts if isinstance(key_e, ast.Tuple) else []) if isinstance(x, ast.Name)}
                kd_params = set()
                for x in kd:
                    kd_params |= deps.get(x, {x} if x in fi.params else set())
                # variable-level: what the stored value is computed from (following locals to their definitions, never through the
                # key's own names or the cache) must be the key's names
                local_defs = {}
                for a_ in ast.walk(fi.node):
                    if isinstance(a_, ast.Assign):
                        for t_ in a_.targets:
                            if isinstance(t_, ast.Name):
                                local_defs.setdefault(t_.id, []).append(a_.value)
                bound_here = set(local_defs) | set(fi.params) | {x.id for lp_ in ast.walk(fi.node) if isinstance(lp_, ast.For) for x in ast.walk(lp_.target) if isinstance(x, ast.Name)}
                frontier = {x.id for x in ast.walk(val_e) if isinstance(x, ast.Name)}
                seen_, basis = set(), set()
                for _ in range(4):
                    nxt = set()
                    for v_ in frontier:
                        if v_ in seen_ or v_ == pname:
                            continue
                        seen_.add(v_)
                        if v_ in kd:
                            continue
                        if v_ in local_defs and v_ not in fi.params:
                            for rhs in local_defs[v_]:
                                if isinstance(rhs, ast.Call) and isinstance(rhs.func, ast.Attribute) and isinstance(rhs.func.value, ast.Name) and rhs.func.value.id == pname:
                                    continue   # read back from the cache itself
                                nxt |= {x.id for x in ast.walk(rhs) if isinstance(x, ast.Name)}
                        elif v_ in bound_here:
                            basis.add(v_)
                    frontier = nxt
                basis |= {v_ for v_ in frontier if v_ in bound_here and v_ not in kd and v_ != pname}
                missing = {m for m in vd - kd_params - kd if m in fi.params} | (basis - kd)
                ok = not missing
                rep.oblige((rule, q, cont, "key"), ok, sample={"cache parameter": pname, "key": norm(key_e), "value depends on": sorted(vd), "key covers": sorted(kd_params | kd)})
                if not ok:
                    rep.add(rule, q, n, f"the cache handed down in `{pname}` is filled under the key `{norm(key_e)}`, but the stored value also depends on "
                            f"{', '.join('`' + m + '`' for m in sorted(missing))}: a later call with the same key and a different "
                            f"{'/'.join(sorted(missing))} gets a stale answer", fi.loc(n))
                continue
            if kind != "item":
                rep.oblige((rule, q, cont, getattr(n, "lineno", 0)), False)
                rep.add(rule, q, n, f"{what} changes the long-lived container `{cont}` (not a memo entry keyed by the input): the result for one "
                        f"input can depend on what was processed before", fi.loc(n))
                continue
            if isinstance(n, ast.Assign):
                t = [t for t in n.targets if isinstance(t, ast.Subscript)][0]
                key_e, val_e = t.slice, n.value
            else:
                key_e, val_e = n.args[0], n.args[1]
            kd, vd = dep_of(key_e), dep_of(val_e)
            # a key computed from a parameter (a digest, a shape, a sorted list of names) may leave out part of what the value
            # depends on: only parameters that enter the key as they are count as covered
            bare = {x.id for x in ([key_e] if isinstance(key_e, ast.Name) else key_e.elts if isinstance(key_e, ast.Tuple) else [])
                    if isinstance(x, ast.Name) and x.id in fi.params}
            if not isinstance(key_e, ast.Name) or key_e.id not in fi.params:
                kd = bare if isinstance(key_e, ast.Tuple) else (kd if isinstance(key_e, ast.Name) and not (deps.get(key_e.id, set()) - {key_e.id}) else bare)
            missing = vd - kd
            ok = not missing
            rep.oblige((rule, q, cont, "key"), ok, sample={"memo table": cont, "key": norm(key_e), "value depends on": sorted(vd), "key covers": sorted(kd)})
            if not ok:
                rep.add(rule, q, n, f"the memo table `{cont}` is filled under the key `{norm(key_e)}`, but the stored value also depends on "
                        f"{', '.join('`' + m + '`' for m in sorted(missing))}: a later call with the same key and a different "
                        f"{'/'.join(sorted(missing))} gets a stale answer", fi.loc(n))
