"""E3 -- exception-escape analysis with a partial-operation ledger, on top of
the guard-fact domain (E2).  Interprocedural, context-sensitive in the facts
that hold for the actual arguments (this is how the two validation modes are
told apart: ``errs is None`` / ``errs is not None`` are ordinary null facts).
"""
from __future__ import annotations

import ast
from dataclasses import dataclass, field
from typing import Dict, List, Optional, Set, Tuple

from . import facts as F
from .exc import resolve_exc_class, resolve_exc_classes
from .flow import Flow
from .model import UNKNOWN, AnalysisError, FuncInfo, norm
from .treefx import TreeFx
from .types import (DICT_METHODS, LIST_METHODS, NODE_Q, NULLABLE_TYPES, RULE_Q, STR_METHODS, T_ANY, T_DICT, T_ELEM,
                    T_INT, T_LIST, T_NDICT, T_NLIST, T_NODE, T_NONE, T_OPT, T_OPTSTR, T_RULE, T_SPEC, T_STR)

RET = "$ret"
STORE = "$store"
TRANSFER = {"ub", "lb", "clsval", "constval", "nn", "none", "known", "rulekey", "parses", "lenge", "member", "haskey", "desc", "reg", "isstr", "falsy", "listed"}

# externals and builtins that accept None arguments without raising
NONE_TOLERANT = {
    "str", "repr", "print", "isinstance", "type", "id", "bool", "hash", "format", "dict", "tuple", "list", "set",
    "json.dumps", "copy.copy", "copy.deepcopy", "callable", "getattr", "hasattr", "enumerate", "zip", "any", "all",
    "uuid.uuid1", "uuid.uuid4",
}
# standard-library operations that are partial on arbitrary string / number input (documented exceptions; the classes are
# builtins or mapped to their builtin base so that the hierarchy knows them)
_VE = ("ValueError",)
STDLIB_PARTIAL = {
    "urllib.parse.urlsplit": (_VE, "raises ValueError on an unbalanced or non-IP bracketed host and on hosts that change under NFKC normalisation"),
    "urllib.parse.urlparse": (_VE, "raises ValueError on an unbalanced or non-IP bracketed host and on hosts that change under NFKC normalisation"),
    "urllib.parse.urlunsplit": (("TypeError",), "mixed str / bytes components"),
    "urllib.parse.parse_qs": (_VE, "strict parsing / too many fields"),
    "urllib.parse.parse_qsl": (_VE, "strict parsing / too many fields"),
    "urllib.parse.unquote_to_bytes": (("TypeError",), "non-string input"),
    "ipaddress.ip_address": (_VE, "not an IPv4 / IPv6 address"),
    "ipaddress.ip_network": (_VE, "not a network"),
    "ipaddress.ip_interface": (_VE, "not an interface"),
    "ipaddress.IPv4Address": (_VE, "not an IPv4 address"),
    "ipaddress.IPv6Address": (_VE, "not an IPv6 address"),
    "decimal.Decimal": (("ArithmeticError", "TypeError", "ValueError"), "decimal.InvalidOperation on a malformed literal"),
    "fractions.Fraction": (("ValueError", "ZeroDivisionError", "TypeError"), "malformed literal / zero denominator"),
    "uuid.UUID": (_VE + ("TypeError", "AttributeError"), "badly formed hexadecimal UUID string"),
    "base64.b64decode": (_VE + ("TypeError",), "binascii.Error on incorrect padding"),
    "base64.b32decode": (_VE + ("TypeError",), "binascii.Error"),
    "base64.b16decode": (_VE + ("TypeError",), "binascii.Error"),
    "binascii.unhexlify": (_VE + ("TypeError",), "odd-length / non-hexadecimal string"),
    "binascii.a2b_base64": (_VE + ("TypeError",), "binascii.Error"),
    "ast.literal_eval": (_VE + ("SyntaxError", "TypeError", "MemoryError", "RecursionError"), "malformed node or string"),
    "time.strptime": (_VE + ("TypeError",), "format mismatch"),
    "datetime.datetime": (_VE + ("TypeError", "OverflowError"), "field out of range"),
    "datetime.date": (_VE + ("TypeError", "OverflowError"), "field out of range"),
    "datetime.time": (_VE + ("TypeError",), "field out of range"),
    "datetime.timedelta": (("OverflowError", "TypeError"), "magnitude out of range"),
    "datetime.datetime.fromtimestamp": (_VE + ("OverflowError", "OSError", "TypeError"), "timestamp out of range"),
    "datetime.date.fromordinal": (_VE + ("OverflowError", "TypeError"), "ordinal out of range"),
    "unicodedata.normalize": (_VE + ("TypeError",), "invalid form / non-string"),
    "unicodedata.name": (_VE + ("TypeError",), "no such name"),
    "unicodedata.lookup": (("KeyError", "TypeError"), "undefined character name"),
    "codecs.decode": (_VE + ("TypeError", "LookupError"), "undecodable input / unknown codec"),
    "codecs.encode": (_VE + ("TypeError", "LookupError"), "unencodable input / unknown codec"),
    "math.sqrt": (_VE + ("TypeError",), "math domain error"),
    "math.log": (_VE + ("TypeError", "ZeroDivisionError"), "math domain error"),
    "math.log10": (_VE + ("TypeError",), "math domain error"),
    "math.log2": (_VE + ("TypeError",), "math domain error"),
    "math.floor": (_VE + ("OverflowError", "TypeError"), "NaN / infinity cannot be converted to an integer"),
    "math.ceil": (_VE + ("OverflowError", "TypeError"), "NaN / infinity cannot be converted to an integer"),
    "math.trunc": (_VE + ("OverflowError", "TypeError"), "NaN / infinity cannot be converted to an integer"),
    "math.exp": (("OverflowError", "TypeError"), "math range error"),
    "math.pow": (_VE + ("OverflowError", "TypeError"), "math domain / range error"),
    "math.factorial": (_VE + ("TypeError", "OverflowError"), "negative / non-integral argument"),
    "math.fsum": (("OverflowError", "TypeError", "ValueError"), "intermediate overflow"),
    "math.acos": (_VE + ("TypeError",), "math domain error"),
    "math.asin": (_VE + ("TypeError",), "math domain error"),
    "math.radians": (("TypeError",), "non-number"),
    "statistics.mean": (("ValueError", "TypeError"), "StatisticsError on empty data"),
    "statistics.median": (("ValueError", "TypeError"), "StatisticsError on empty data"),
    "shlex.split": (_VE, "no closing quotation"),
    "struct.unpack": (("Exception",), "struct.error"),
    "re.compile": (("Exception",), "re.error on a malformed pattern"),
    "email.utils.parsedate_to_datetime": (_VE + ("TypeError",), "unparsable date"),
    "operator.itemgetter": ((), ""),
    "lxml.etree.QName": (_VE + ("TypeError",), "invalid tag name"),
    "lxml.etree.XMLParser": ((), ""),
    "os.stat": (("OSError",), "file system"),
    "os.listdir": (("OSError",), "file system"),
    "os.remove": (("OSError",), "file system"),
    "io.open": (("OSError",), "file system"),
    "dateutil.parser.parse": (_VE + ("OverflowError", "TypeError"), "unknown string format"),
    "dateutil.parser.isoparse": (_VE + ("TypeError",), "not an ISO-8601 string"),
    "iso8601.parse_date": (("Exception",), "iso8601.ParseError"),
    "idna.encode": (("UnicodeError", "ValueError"), "idna.IDNAError"),
    "idna.decode": (("UnicodeError", "ValueError"), "idna.IDNAError"),
}
STDLIB_PARTIAL = {k: v for k, v in STDLIB_PARTIAL.items() if v[0]}
SPEC_OK_INDEX = {0, 1, 2, -1, -2}
SPEC_OK_KEYS = {"content_rules"}
# read from the installed rfc3986 2.0.0: Validator.validate raises its four ValidationError subclasses, and
# _mixin.authority_info() encodes an unparsable authority (str.encode, strict) while building InvalidAuthority,
# which raises UnicodeEncodeError for a lone surrogate before the library's own handler sees anything
RFC_VALIDATE = ["rfc3986.exceptions.MissingComponentError", "rfc3986.exceptions.UnpermittedComponentError",
                "rfc3986.exceptions.InvalidComponentsError", "rfc3986.exceptions.PasswordForbidden", "UnicodeError"]


@dataclass
class Esc:
    cls: str
    origin: tuple  # (func qname, normalised construct, why)
    chain: tuple  # qnames from the summarised function down to the origin
    facts: frozenset
    loc: str
    site: str = ""  # the construct in the summarised function through which it escapes


class Summary:
    def __init__(self):
        self.escapes: Dict[tuple, Esc] = {}
        self.ret_facts: Optional[frozenset] = None
        self.exit_facts: Optional[frozenset] = None
        self.truthy: Optional[frozenset] = None
        self.falsy: Optional[frozenset] = None
        self.ledger: List[dict] = []
        self.notes: List[str] = []
        self.pre: Dict[int, frozenset] = {}  # state before each simple statement (final pass)

    def sig(self):
        return (frozenset((k, e.facts) for k, e in self.escapes.items()), self.ret_facts, self.exit_facts, self.truthy, self.falsy)

    def classes(self) -> Set[str]:
        return {e.cls for e in self.escapes.values()}


class Engine:
    def __init__(self, ctx, invariants=None, tree_invariant=True, registry_invariant=True, spec_ok=True, closure_ok=True):
        self.ctx = ctx
        self.w = ctx.world
        self.prog = ctx.prog
        self.h = ctx.hier
        self.w.param_types_from_calls()
        self.fx = ctx.get("treefx", lambda: TreeFx(self.w))
        self.memo: Dict[tuple, Summary] = {}
        self.inprog: Set[tuple] = set()
        self.done: Set[tuple] = set()
        self.changed = False
        self.invariants = invariants or []  # (class qname, index field, list field)
        self.tree_invariant = tree_invariant  # D-TREE available (C09-R1 holds in this run)
        self.registry_invariant = registry_invariant  # D-REG available (C14 R1/R2 hold in this run)
        self.spec_ok = spec_ok  # D-SPEC available (C10 shape check passed in this run)
        self.closure_ok = closure_ok  # D-KNOWN available (C10-R1 closure passed)
        self.assumed_total: Set[str] = set()
        self.analysed: Set[str] = set()
        self.spec_total: Dict[str, str] = {}
        self.rule_mod = self.prog.modules.get("metapype.eml.rule")

    # ------------------------------------------------------------- summaries
    def summary(self, fi: FuncInfo, cfacts: frozenset) -> Summary:
        key = (fi.qname, cfacts)
        if key in self.done:
            return self.memo[key]
        if key in self.inprog:
            return self.memo.get(key) or Summary()
        self.inprog.add(key)
        try:
            s = self._analyse(fi, cfacts)
        finally:
            self.inprog.discard(key)
        old = self.memo.get(key)
        if old is None or old.sig() != s.sig():
            self.changed = True
        self.memo[key] = s
        self.done.add(key)
        return s

    def entry(self, fi: FuncInfo, cfacts=frozenset()) -> Summary:
        s = None
        for _ in range(12):
            self.changed = False
            self.done = set()
            s = self.summary(fi, frozenset(cfacts))
            if not self.changed:
                return s
        raise AnalysisError(f"escape analysis of {fi.qname} did not reach a fixpoint")

    def _analyse(self, fi: FuncInfo, cfacts: frozenset) -> Summary:
        self.analysed.add(fi.qname)
        dom = Domain(self, fi, cfacts)
        flow = Flow(fi, dom, self.h, lambda e: resolve_exc_class(self.prog, fi.module, e))
        dom.flow = flow
        flow.run(frozenset(cfacts))
        s = dom.summ
        # normal exits
        exits = [st for (_r, st) in flow.returns]
        rets = []
        for (r, st) in flow.returns:
            rets.append(st)
        if flow.end_state is not None:
            end = dom.assign_path(RET, ast.Constant(value=None), flow.end_state, flow)
            exits.append(end)
        params = set(fi.params)
        if exits:
            m = exits[0]
            for x in exits[1:]:
                m = F.meet(m, x)
            s.ret_facts = frozenset(f for f in m if RET in F.paths_of(f) and all(q == RET or q.split(".")[0] in params or q == STORE or q.startswith("#") for q in F.paths_of(f)))
            s.exit_facts = frozenset(f for f in m if f[0] in TRANSFER and all(q.split(".")[0] in params for q in F.paths_of(f)) and f not in cfacts)
        # truthy / falsy facts of the returned value (predicate summaries)
        tr, fa = None, None
        for (r, st) in flow.returns:
            if r.value is None:
                continue
            t = flow.assume(r.value, True, st)
            f = flow.assume(r.value, False, st)
            if t is not None:
                tr = t if tr is None else F.meet(tr, t)
            if f is not None:
                fa = f if fa is None else F.meet(fa, f)

        def restrict(m):
            if m is None:
                return None
            out = set()
            for f in m:
                k = "parses" if f[0] == "conv" else f[0]
                if k in TRANSFER and all(q.split(".")[0] in params or q == STORE or q.startswith("#") for q in F.paths_of(f)) and f not in cfacts:
                    out.add((k,) + f[1:])
            return frozenset(out)
        s.truthy, s.falsy = restrict(tr), restrict(fa)
        return s


class Domain:
    prune_dead_handlers = True

    def __init__(self, eng: Engine, fi: FuncInfo, cfacts: frozenset):
        self.eng = eng
        self.fi = fi
        self.w = eng.w
        self.nm = eng.w.nm
        self.ft = eng.w.types(fi)
        self.cfacts = cfacts
        self.summ = Summary()
        self.flow: Optional[Flow] = None
        self.call_info: Dict[int, list] = {}
        self.nullable_params = set()
        for p in fi.params:
            d = fi.default_of(p)
            if isinstance(d, ast.Constant) and d.value is None:
                self.nullable_params.add(p)
        self.loopvars: Dict[str, str] = {}

    # ---------------------------------------------------------------- basics
    def meet(self, a, b):
        return F.meet(a, b)

    def enter_function(self, fi, st, flow):
        out = set(st)
        for (cq, ifield, lfield) in self.eng.invariants:
            if fi.cls is not None and fi.cls.qname == cq and fi.bound and fi.kind != "class":
                s = fi.params[0]
                out.add(("inv", f"{s}.{ifield}", f"{s}.{lfield}"))
        for i, p in enumerate(fi.params):
            t = self.ft.env.get(p)
            if p not in self.nullable_params and ("none", p) not in out:
                out.add(("nn", p))
            if t == T_NODE and self.eng.registry_invariant and not any(f[0] == "none" and f[1] == p for f in out):
                out.add(("reg", p))
            if t in (T_NODE, T_OPT) and self.eng.tree_invariant:
                out.add(("listed", p))  # tree invariant on entry: if p has a parent, that parent lists p
        return frozenset(out)

    def path(self, e) -> Optional[str]:
        if isinstance(e, ast.Name):
            return e.id
        if isinstance(e, ast.Attribute):
            if self.eng.fx.is_store(self.ft, e):
                return STORE
            b = self.path(e.value)
            if b is None:
                return None
            return f"{b}.{self.eng.fx.canon_attr(self.ft, e.value, e.attr)}"
        return None

    def type_of(self, e):
        return self.ft.type_of(e)

    def const(self, e):
        return self.eng.prog.const(self.fi.module, e)

    def is_none_const(self, e) -> bool:
        if isinstance(e, ast.Constant):
            return e.value is None
        if isinstance(e, (ast.Name, ast.Attribute)):
            if isinstance(e, ast.Name) and (e.id in self.ft.env or e.id in self.fi.params):
                return False
            return self.const(e) is None
        return False

    def nullable(self, e, st) -> bool:
        """may the expression evaluate to None here?"""
        if isinstance(e, ast.Constant):
            return e.value is None
        p = self.path(e)
        if p is not None:
            if ("nn", p) in st:
                return False
            if ("none", p) in st:
                return True
            for f in st:
                if f[0] == "alias" and ((f[1] == p and ("nn", f[2]) in st) or (f[2] == p and ("nn", f[1]) in st)):
                    return False
            if p.endswith("._parent") and self.eng.tree_invariant and ("desc", p[: -len("._parent")]) in st:
                return False
            if isinstance(e, ast.Name) and e.id in self.nullable_params:
                return True
        if isinstance(e, ast.IfExp):
            # X if X else d  /  X if X is not None else d  /  d if X is None else X: the arm that is X is taken only when X is there
            t = e.test
            def same(a, b):
                return self.path(a) is not None and self.path(a) == self.path(b)
            body_nn = same(t, e.body) or (isinstance(t, ast.Compare) and len(t.ops) == 1 and isinstance(t.ops[0], ast.IsNot) and isinstance(t.comparators[0], ast.Constant)
                                          and t.comparators[0].value is None and same(t.left, e.body))
            else_nn = (isinstance(t, ast.UnaryOp) and isinstance(t.op, ast.Not) and same(t.operand, e.orelse)) or \
                      (isinstance(t, ast.Compare) and len(t.ops) == 1 and isinstance(t.ops[0], ast.Is) and isinstance(t.comparators[0], ast.Constant)
                       and t.comparators[0].value is None and same(t.left, e.orelse))
            return (False if body_nn else self.nullable(e.body, st)) or (False if else_nn else self.nullable(e.orelse, st))
        if isinstance(e, ast.BoolOp):
            if isinstance(e.op, ast.Or):
                return self.nullable(e.values[-1], st)
            return any(self.nullable(v, st) for v in e.values)
        if isinstance(e, ast.Call):
            tg0 = self.w.resolve_call(self.ft, e)
            if tg0 and all(t.kind == "class" for t in tg0):
                return False
            info = self.call_info.get(id(e))
            if info:
                return not all(("nn", RET) in (s.ret_facts or frozenset()) for (s, _m) in info) and self._call_ret_nullable(e, info)
        t = self.type_of(e)
        return t in NULLABLE_TYPES

    def _call_ret_nullable(self, e, info):
        for (s, _m) in info:
            rf = s.ret_facts
            if rf is None:
                continue
            if ("nn", RET) not in rf:
                t = self.type_of(e)
                return t in NULLABLE_TYPES or ("none", RET) in rf
        return False

    # --------------------------------------------------------------- ledger
    def oblige(self, node, op, classes, st, discharge: Optional[str], why=""):
        """record one partial operation; if not discharged, raise the event"""
        row = {"func": self.fi.qname, "construct": norm(node), "op": op, "may_raise": [self.eng.h.short(c) for c in classes],
               "discharge": discharge or "ESCAPES", "loc": self.fi.loc(node)}
        if not self.flow.quiet:
            self.summ.ledger.append(row)
        if discharge is None:
            esc = self.flow.raise_event(classes, node, st, why or op, "partial")
            if not self.flow.quiet:
                row["discharge"] = "ESCAPES" if esc else "D-TRY"
                for c in esc:
                    self._escape(c, (self.fi.qname, norm(node), why or op), (self.fi.qname,), st, self.fi.loc(node), norm(node))

    def _next_has_element(self, call) -> bool:
        """next((k for k in X if k in Y)) under a guard that says X and Y intersect (not X.isdisjoint(Y), X & Y, any(k in Y for k in X)):
        the generator has a first element"""
        g = call.args[0]
        if not (isinstance(g, ast.GeneratorExp) and len(g.generators) == 1 and len(g.generators[0].ifs) == 1 and isinstance(g.generators[0].target, ast.Name)):
            return False
        gen = g.generators[0]
        c = gen.ifs[0]
        if not (isinstance(c, ast.Compare) and len(c.ops) == 1 and isinstance(c.ops[0], ast.In) and isinstance(c.left, ast.Name) and c.left.id == gen.target.id):
            return False

        def base(x):
            while isinstance(x, ast.Call) and isinstance(x.func, ast.Attribute) and x.func.attr == "keys" and not x.args:
                x = x.func.value
            if isinstance(x, ast.Call) and isinstance(x.func, ast.Name) and x.func.id in ("set", "frozenset", "list", "tuple") and len(x.args) == 1:
                return base(x.args[0])
            return norm(x)
        want = {base(gen.iter), base(c.comparators[0])}
        if len(want) != 2:
            return False

        def says_intersect(t):
            """(True/False: holds when the test is true / false) or None"""
            if isinstance(t, ast.UnaryOp) and isinstance(t.op, ast.Not):
                r = says_intersect(t.operand)
                return None if r is None else (not r)
            if isinstance(t, ast.Call) and isinstance(t.func, ast.Attribute) and t.func.attr == "isdisjoint" and len(t.args) == 1 and {base(t.func.value), base(t.args[0])} == want:
                return False
            if isinstance(t, ast.BinOp) and isinstance(t.op, ast.BitAnd) and {base(t.left), base(t.right)} == want:
                return True
            if isinstance(t, ast.Call) and isinstance(t.func, ast.Name) and t.func.id == "any" and len(t.args) == 1 and isinstance(t.args[0], ast.GeneratorExp) \
                    and len(t.args[0].generators) == 1 and not t.args[0].generators[0].ifs:
                g2 = t.args[0]
                e2 = g2.elt
                if isinstance(e2, ast.Compare) and len(e2.ops) == 1 and isinstance(e2.ops[0], ast.In) and {base(g2.generators[0].iter), base(e2.comparators[0])} == want:
                    return True
            return None
        from .condeval import enclosing_ifs
        for (gd, side) in enclosing_ifs(self.fi, call):
            r = says_intersect(gd.test)
            if r is not None and r == side:
                return True
        return False

    def _escape(self, cls, origin, chain, st, loc, site=""):
        params = set(self.fi.params)
        keep = frozenset(f for f in st if f[0] in TRANSFER and all(q.split(".")[0] in params for q in F.paths_of(f)))
        key = (cls, origin, site)
        old = self.summ.escapes.get(key)
        if old is not None:
            keep = F.meet(old.facts, keep)
        self.summ.escapes[key] = Esc(cls, origin, chain, keep, loc, site)

    # ----------------------------------------------------------- assumptions
    def assume_atom(self, test, outcome, st):
        st2 = self._assume_atom(test, outcome, st)
        return st2

    def _gen(self, st, *facts):
        """add facts, propagating through aliases"""
        out = set(st)
        for f in facts:
            out.add(f)
            if f[0] == "desc":
                out.add(("listed", f[1]))
            if f[0] in ("nn", "none", "isstr", "known", "rulekey", "desc"):
                p = f[1]
                for g in st:
                    if g[0] == "alias":
                        if g[1] == p:
                            out.add((f[0], g[2]))
                        elif g[2] == p:
                            out.add((f[0], g[1]))
            elif f[0] == "parses":
                p = f[2]
                for g in st:
                    if g[0] == "alias":
                        if g[1] == p:
                            out.add((f[0], f[1], g[2]))
                        elif g[2] == p:
                            out.add((f[0], f[1], g[1]))
        return frozenset(out)

    def _assume_atom(self, test, outcome, st):
        # truthiness of a path
        p = self.path(test)
        if p is not None:
            if outcome:
                if ("none", p) in st or ("falsy", p) in st:
                    return None
                extra = [("nn", p)]
                for f in st:
                    if f[0] == "imp" and f[1] == p:
                        extra.append(f[2])
                t = self.type_of(test)
                if t in (T_NLIST, T_LIST, T_DICT, T_NDICT, T_STR, T_OPTSTR, T_SPEC):
                    extra.append(("lenge", p, 1))
                return self._gen(st, *extra)
            return st
        if isinstance(test, ast.Compare) and len(test.ops) == 1:
            return self._assume_compare(test.left, test.ops[0], test.comparators[0], outcome, st)
        if isinstance(test, ast.Compare):
            # chained comparison: true => every link holds
            if outcome:
                cur = st
                left = test.left
                for op, c in zip(test.ops, test.comparators):
                    cur = self._assume_compare(left, op, c, True, cur)
                    if cur is None:
                        return None
                    left = c
                return cur
            return st
        if isinstance(test, ast.Call):
            return self._assume_call(test, outcome, st)
        return st

    def _assume_call(self, call, outcome, st):
        f = call.func
        if isinstance(f, ast.Name) and f.id == "isinstance" and len(call.args) == 2:
            p = self.path(call.args[0])
            if p is not None and outcome:
                facts = [("nn", p)]
                if isinstance(call.args[1], ast.Name) and call.args[1].id == "str":
                    facts.append(("isstr", p))
                return self._gen(st, *facts)
            return st
        if isinstance(f, ast.Name) and f.id in ("all", "any"):
            return st
        info = self.call_info.get(id(call))
        if info:
            gens = None
            for (s, back) in info:
                src = s.truthy if outcome else s.falsy
                if src is None:
                    continue
                g = set()
                for fact in src:
                    tf = back(fact)
                    if tf is not None:
                        g.add(tf)
                gens = g if gens is None else (gens & g)
            if gens:
                return self._gen(st, *gens)
        return st

    def term(self, e, st=None):
        """linear term: (base, const) with base in (None, ('v', path), ('len', path))"""
        t = self._term(e)
        if st is not None and t is not None and t[0] is not None and t[0][0] == "v":
            for f in st:
                if f[0] == "islen" and f[1] == t[0][1]:
                    return (("len", f[2]), t[1])
        return t

    def _term(self, e):
        if isinstance(e, ast.Constant) and isinstance(e.value, int) and not isinstance(e.value, bool):
            return (None, e.value)
        if isinstance(e, ast.UnaryOp) and isinstance(e.op, ast.USub):
            t = self._term(e.operand)
            if t and t[0] is None:
                return (None, -t[1])
            return None
        if isinstance(e, ast.BinOp) and isinstance(e.op, (ast.Add, ast.Sub)):
            a, b = self._term(e.left), self._term(e.right)
            if a is None or b is None:
                return None
            sign = 1 if isinstance(e.op, ast.Add) else -1
            if b[0] is None:
                return (a[0], a[1] + sign * b[1])
            if a[0] is None and sign == 1:
                return (b[0], a[1] + b[1])
            return None
        inner = F.is_len_call(e)
        if inner is not None:
            p = self.path(inner)
            return (("len", p), 0) if p is not None else None
        p = self.path(e)
        if p is not None:
            c = self.const(e) if not (isinstance(e, ast.Name) and (e.id in self.ft.env)) else UNKNOWN
            if isinstance(c, int) and not isinstance(c, bool):
                return (None, c)
            return (("v", p), 0)
        return None

    def _assume_compare(self, left, op, right, outcome, st):
        # normalise negation
        neg = {ast.Is: ast.IsNot, ast.IsNot: ast.Is, ast.Eq: ast.NotEq, ast.NotEq: ast.Eq, ast.Lt: ast.GtE, ast.GtE: ast.Lt,
               ast.Gt: ast.LtE, ast.LtE: ast.Gt, ast.In: ast.NotIn, ast.NotIn: ast.In}
        opt = type(op)
        if not outcome:
            opt = neg.get(opt)
            if opt is None:
                return st
        # None tests
        for a, b in ((left, right), (right, left)):
            if self.is_none_const(b) and opt in (ast.Is, ast.IsNot, ast.Eq, ast.NotEq):
                p = self.path(a)
                isnone = opt in (ast.Is, ast.Eq)
                if p is None:
                    return st
                if isnone:
                    if ("nn", p) in st:
                        return None
                    return self._gen(st, ("none", p))
                if ("none", p) in st:
                    return None
                return self._gen(st, ("nn", p))
        # type(x) is str
        if opt in (ast.Is, ast.Eq) and isinstance(left, ast.Call) and isinstance(left.func, ast.Name) and left.func.id == "type" \
                and len(left.args) == 1 and isinstance(right, ast.Name) and right.id == "str":
            p = self.path(left.args[0])
            if p is not None:
                return self._gen(st, ("isstr", p), ("nn", p))
        # membership
        if opt in (ast.In, ast.NotIn):
            cp = self.path(right)
            if cp is not None:
                ct = self.type_of(right)
                kp = self.path(left)
                kc = self.const(left)
                if opt is ast.In:
                    facts = [("lenge", cp, 1)]
                    if ct in (T_DICT, T_NDICT, T_SPEC) or cp == STORE or self._is_table(right):
                        if kp is not None:
                            facts.append(("haskey", cp, kp))
                        elif isinstance(kc, str):
                            facts.append(("haskey", cp, "#" + repr(kc)))
                        if self._is_table(right) == "node_mappings" and kp is not None:
                            facts.append(("known", kp))
                        if self._is_table(right) == "rules_dict" and kp is not None:
                            facts.append(("rulekey", kp))
                    if ct in (T_NLIST, T_LIST) and kp is not None:
                        facts.append(("member", kp, cp))
                    return self._gen(st, *facts)
            return st
        # arithmetic
        if opt in (ast.Lt, ast.LtE, ast.Gt, ast.GtE, ast.Eq, ast.NotEq):
            a, b = self.term(left, st), self.term(right, st)
            if a is None or b is None:
                return st
            if opt in (ast.Gt, ast.GtE):
                a, b = b, a
                opt = ast.Lt if opt is ast.Gt else ast.LtE
            return self._assume_lin(a, opt, b, st)
        return st

    def _is_table(self, e):
        r = self.eng.prog.resolve_name_expr(self.fi.module, e)
        if r and r[0] == "const" and r[1].name == "metapype.eml.rule" and r[2] in ("node_mappings", "rules_dict"):
            if isinstance(e, ast.Name) and e.id in self.ft.env and self.ft.env.get(e.id) is not None and e.id in self.fi.params:
                return None
            return r[2]
        return None

    def _assume_lin(self, a, opt, b, st):
        """a (<|<=|==|!=) b on linear terms"""
        (ab, ac), (bb, bc) = a, b
        out = []
        strict = opt is ast.Lt
        if opt in (ast.Lt, ast.LtE):
            # ab + ac (<|<=) bb + bc
            if ab and ab[0] == "v" and bb and bb[0] == "len":
                k = ac - bc + (1 if strict else 0)
                out.append(("ub", ab[1], bb[1], k))
                if k >= 1:
                    out.append(("lenge", bb[1], k))  # only meaningful with i >= 0; kept weak on purpose below
                    out.pop()
            elif ab is None and bb and bb[0] == "v":
                # const (<|<=) v + bc  =>  v >= ac - bc (+1)
                out.append(("lb", bb[1], ac - bc + (1 if strict else 0)))
            elif ab is None and bb and bb[0] == "len":
                out.append(("lenge", bb[1], ac - bc + (1 if strict else 0)))
            elif ab and ab[0] == "len" and bb and bb[0] == "v":
                pass
            elif ab and ab[0] == "v" and bb and bb[0] == "v":
                # i + ac < j + bc : transfer an upper bound of j to i
                for f in st:
                    if f[0] == "ub" and f[1] == bb[1]:
                        out.append(("ub", ab[1], f[2], f[3] + ac - bc + (1 if strict else 0)))
        elif opt is ast.Eq:
            if ab and bb and ab[0] == "len" and bb[0] == "len" and ac == bc:
                out.append(("eqlen", ab[1], bb[1]))
                out.append(("eqlen", bb[1], ab[1]))
            for (x, xc), (y, yc) in (((ab, ac), (bb, bc)), ((bb, bc), (ab, ac))):
                if x and x[0] == "v" and y and y[0] == "len":
                    out.append(("ub", x[1], y[1], xc - yc))
                if x and x[0] == "v" and y is None:
                    out.append(("lb", x[1], yc - xc))
                if x and x[0] == "len" and y is None:
                    out.append(("lenge", x[1], yc - xc))
        elif opt is ast.NotEq:
            for (x, xc), (y, yc) in (((ab, ac), (bb, bc)), ((bb, bc), (ab, ac))):
                if x and x[0] == "v" and y and y[0] == "len" and xc == yc and ("inv", x[1], y[1]) in st:
                    out.append(("ub", x[1], y[1], 1))
                if x and x[0] == "len" and y is None and yc - xc == 0:
                    out.append(("lenge", x[1], 1))
        return F.add(st, *out) if out else st

    # --------------------------------------------------------------- binding
    def bind_for(self, target, it, st, flow, comp):
        st = self._kill_target(target, st)
        ip = self.path(it)
        it_t = self.type_of(it)
        out = []
        if isinstance(target, ast.Name):
            v = target.id
            self.loopvars[v] = ip or ""
            out.append(("nn", v)) if it_t in (T_NLIST, T_DICT, T_NDICT, T_STR, T_SPEC, T_LIST) else None
            if it_t == T_SPEC and self.eng.spec_ok:
                out.append(("lenge", v, 1))  # C10-R2: every sub-spec and every attribute spec is a non-empty list
            if ip is not None:
                if it_t in (T_DICT, T_NDICT, T_SPEC) or ip == STORE:
                    out.append(("haskey", ip, v))
                if it_t in (T_NLIST, T_LIST):
                    out.append(("member", v, ip))
                    for f in st:
                        if f[0] == "snap" and f[1] == ip:
                            out.append(("member", v, f[2]))
                if it_t == T_NLIST:
                    if self.eng.tree_invariant and (ip.endswith("._children") or ("desclist", ip) in st):
                        out.append(("desc", v))
                    if self.eng.registry_invariant:
                        out.append(("reg", v))
            if ip is None and it_t == T_NLIST:
                # a child list reached through an expression without a path (the children of a call result): its elements
                # are nodes of some tree all the same
                if self.eng.registry_invariant:
                    out.append(("reg", v))
                if self.eng.tree_invariant and isinstance(it, ast.Attribute) and self.nm.canon(it.attr) == "_children":
                    out.append(("desc", v))
            # d.keys() / snapshots
            if isinstance(it, ast.Call) and isinstance(it.func, ast.Attribute):
                bp = self.path(it.func.value)
                bt = self.type_of(it.func.value)
                if it.func.attr == "keys" and bp is not None:
                    out.append(("haskey", bp, v))
                if it.func.attr == "copy" and bp is not None and bt in (T_NLIST, T_LIST):
                    out.append(("member", v, bp))
                    out.append(("nn", v))
                    if bt == T_NLIST and bp.endswith("._children") and self.eng.tree_invariant:
                        out.append(("desc", v))
                    if bt == T_NLIST and self.eng.registry_invariant:
                        out.append(("reg", v))
            # list(x) / reversed(x) / tuple(x) / x[:] : a snapshot (or a view) of the same elements
            snap_of = None
            if isinstance(it, ast.Call) and isinstance(it.func, ast.Name) and it.func.id in ("list", "reversed", "tuple") and len(it.args) == 1 and not it.keywords:
                snap_of = it.args[0]
            elif isinstance(it, ast.Subscript) and isinstance(it.slice, ast.Slice) and it.slice.lower is None and it.slice.upper is None and it.slice.step is None:
                snap_of = it.value
            if snap_of is not None:
                bp = self.path(snap_of)
                bt = self.type_of(snap_of)
                if bp is not None and bt in (T_NLIST, T_LIST):
                    out.append(("member", v, bp))
                    out.append(("nn", v))
                    if bt == T_NLIST and bp.endswith("._children") and self.eng.tree_invariant:
                        out.append(("desc", v))
                    if bt == T_NLIST and self.eng.registry_invariant:
                        out.append(("reg", v))
            if isinstance(it, ast.Call) and isinstance(it.func, ast.Name) and it.func.id == "range":
                out.extend(self._range_facts(v, it, st))
            out.extend(self._elem_facts_of(v, it, st))
        elif isinstance(target, ast.Tuple) and ip is not None and "." not in ip:
            for i, x in enumerate(target.elts):
                if isinstance(x, ast.Name):
                    for g in st:
                        if g[0] == "elem" and g[1] == ip and g[2] == i:
                            out.append((g[3], x.id))
        elif isinstance(target, ast.Tuple) and isinstance(it, ast.Call):
            f = it.func
            if isinstance(f, ast.Attribute) and f.attr == "items" and len(target.elts) == 2 and isinstance(target.elts[0], ast.Name):
                bp = self.path(f.value)
                if bp is not None:
                    out.append(("haskey", bp, target.elts[0].id))
                for x in target.elts:
                    if isinstance(x, ast.Name):
                        out.append(("nn", x.id))
            if isinstance(f, ast.Name) and f.id == "enumerate" and it.args and len(target.elts) == 2:
                lp = self.path(it.args[0])
                i, x = target.elts
                if isinstance(i, ast.Name):
                    out.append(("lb", i.id, 0))
                    if lp is not None:
                        out.append(("ub", i.id, lp, 1))
                if isinstance(x, ast.Name):
                    out.append(("nn", x.id))
                    if lp is not None and self.type_of(it.args[0]) == T_NLIST:
                        out.append(("member", x.id, lp))
                        if lp.endswith("._children") and self.eng.tree_invariant:
                            out.append(("desc", x.id))
        return F.add(st, *[o for o in out if o])

    def _iter_elem_facts(self, x, value, st):
        """facts about every element of the iterable a variable is bound to (a range): ('rub', x, L, k), ('rlb', x, c)"""
        out = []
        if isinstance(value, ast.Call) and isinstance(value.func, ast.Name) and value.func.id == "range" and not value.keywords:
            for f in self._range_facts("$r", value, st):
                if f[0] == "ub":
                    out.append(("rub", x, f[2], f[3]))
                elif f[0] == "lb":
                    out.append(("rlb", x, f[2]))
        return out

    def _elem_facts_of(self, v, it, st):
        """facts for a variable bound to some element of the iterable expression ``it`` (a Name carrying rub / rlb facts,
        possibly wrapped in iter())"""
        if isinstance(it, ast.Call) and isinstance(it.func, ast.Name) and it.func.id in ("iter", "reversed", "list", "tuple", "sorted") and len(it.args) == 1:
            it = it.args[0]
        out = []
        if isinstance(it, ast.Name):
            for f in st:
                if f[0] == "rub" and f[1] == it.id:
                    out.append(("ub", v, f[2], f[3]))
                elif f[0] == "rlb" and f[1] == it.id:
                    out.append(("lb", v, f[2]))
        return out

    def _range_facts(self, v, call, st):
        out = []
        args = call.args
        if len(args) == 1:
            start, stop, step = ast.Constant(value=0), args[0], 1
        elif len(args) >= 2:
            start, stop = args[0], args[1]
            step = 1
            if len(args) == 3:
                sc = self.const(args[2])
                step = sc if isinstance(sc, int) else None
        else:
            return out
        ts, te = self.term(start, st), self.term(stop, st)
        if step == 1:
            if ts is not None:
                if ts[0] is None:
                    out.append(("lb", v, ts[1]))
                elif ts[0][0] == "v":
                    lb = F.best(st, "lb", ts[0][1])
                    if lb is not None:
                        out.append(("lb", v, lb + ts[1]))
            if te is not None and te[0] is not None and te[0][0] == "len":
                out.append(("ub", v, te[0][1], 1 - te[1]))
            elif te is not None and te[0] is not None and te[0][0] == "v":
                for f in st:
                    if f[0] == "ub" and f[1] == te[0][1]:
                        out.append(("ub", v, f[2], f[3] - te[1] + 1))
        elif step == -1:
            # range(a, b, -1): b < v <= a
            if te is not None and te[0] is None:
                out.append(("lb", v, te[1] + 1))
            if ts is not None and ts[0] is not None and ts[0][0] == "v":
                for f in st:
                    if f[0] == "ub" and f[1] == ts[0][1]:
                        out.append(("ub", v, f[2], f[3] - ts[1]))
        return out

    def bind_handler(self, hd, st, flow):
        # facts holding at the raise points this handler catches (more precise than the meet of all states)
        fr = None
        caught = []
        for ev in flow.events:
            if ev.caught_by is hd:
                caught.append(ev)
        if caught and not self._broad(hd):
            m = None
            for ev in caught:
                s = ev.state
                m = s if m is None else F.meet(m, s)
            st = m
        if hd.name:
            st = F.kill_path(st, hd.name)
            st = F.add(st, ("nn", hd.name))
        return st

    def _broad(self, hd):
        if hd.type is None:
            return True
        types = hd.type.elts if isinstance(hd.type, ast.Tuple) else [hd.type]
        for t in types:
            if isinstance(t, ast.Name) and t.id in ("Exception", "BaseException"):
                return True
        return False

    def bind_with(self, item, st, flow):
        if item.optional_vars is not None:
            st = self._kill_target(item.optional_vars, st)
            p = self.path(item.optional_vars)
            if p:
                st = F.add(st, ("nn", p))
        return st

    def _kill_target(self, t, st):
        if isinstance(t, (ast.Tuple, ast.List)):
            for x in t.elts:
                st = self._kill_target(x, st)
            return st
        if isinstance(t, ast.Starred):
            return self._kill_target(t.value, st)
        p = self.path(t)
        if p is not None:
            return frozenset(f for f in st if f[0] == "inv" or not F.mentions(f, p))
        return st

    # ------------------------------------------------------------ statements
    def stmt(self, s, st, flow):
        if not flow.quiet:
            old = self.summ.pre.get(id(s))
            self.summ.pre[id(s)] = st if old is None else F.meet(old, st)
        if isinstance(s, ast.Assign):
            for t in s.targets:
                st = self._store(t, s.value, st, flow)
            return st
        if isinstance(s, ast.AnnAssign):
            if s.value is not None:
                return self._store(s.target, s.value, st, flow)
            return st
        if isinstance(s, ast.AugAssign):
            return self._aug(s, st, flow)
        if isinstance(s, ast.Delete):
            for t in s.targets:
                st = self._delete(t, st, flow)
            return st
        if isinstance(s, ast.Raise):
            self._raise(s, st, flow)
            return None
        if isinstance(s, ast.Return):
            if s.value is not None:
                return self.assign_path(RET, s.value, st, flow)
            return self.assign_path(RET, ast.Constant(value=None), st, flow)
        return st

    def _raise(self, s, st, flow):
        if s.exc is None:
            # re-raise inside a handler: the classes the handler catches
            flow.raise_event(["Exception"], s, st, "re-raise", "raise")
            if not flow.quiet:
                self._escape("Exception", (self.fi.qname, "raise", "re-raise"), (self.fi.qname,), st, self.fi.loc(s), "raise")
            return
        env = {}
        for f in st:
            if f[0] == "clsval" and f[1] in self.fi.params:
                env[f[1]] = ("class", f[2])
            if f[0] == "constval" and f[1] in self.fi.params:
                env[f[1]] = f[2]
        classes = resolve_exc_classes(self.eng.prog, self.fi.module, s.exc, env)
        if classes is None:
            raise AnalysisError(f"{self.fi.loc(s)}: cannot resolve the class raised by `{norm(s)}`")
        for cls in classes:
            esc = flow.raise_event([cls], s, st, "raise", "raise")
            if not flow.quiet:
                self.summ.ledger.append({"func": self.fi.qname, "construct": norm(s.exc)[:80], "op": "raise",
                                         "may_raise": [self.eng.h.short(cls)], "discharge": "ESCAPES" if esc else "D-TRY",
                                         "loc": self.fi.loc(s)})
                for c in esc:
                    self._escape(c, (self.fi.qname, f"raise {self.eng.h.short(cls)}", "raise"), (self.fi.qname,), st, self.fi.loc(s),
                                 f"raise {self.eng.h.short(cls)}")

    def _store(self, t, value, st, flow):
        if isinstance(t, (ast.Tuple, ast.List)):
            if isinstance(value, (ast.Tuple, ast.List)) and len(value.elts) == len(t.elts):
                # simultaneous assignment (swap idiom): element stores do not change lengths
                for a, b in zip(t.elts, value.elts):
                    if isinstance(a, ast.Subscript):
                        st = self._subscript_store(a, st, flow)
                    else:
                        st = self._kill_target(a, st)
                return st
            for a in t.elts:
                st = self._kill_target(a, st)
                p = self.path(a)
                if p is not None and isinstance(value, ast.Call):
                    st = F.add(st, ("nn", p)) if isinstance(value.func, ast.Attribute) and value.func.attr in ("popitem",) else st
            return st
        if isinstance(t, ast.Subscript):
            return self._subscript_store(t, st, flow)
        p = self.path(t)
        if p is None:
            return st
        if isinstance(t, ast.Attribute):
            # nullable receiver
            if self.nullable(t.value, st):
                self.oblige(t, "attribute store on nullable", ["AttributeError"], st, None)
        return self.assign_path(p, value, st, flow)

    def _subscript_store(self, t, st, flow):
        bt = self.type_of(t.value)
        bp = self.path(t.value)
        if self.nullable(t.value, st):
            self.oblige(t, "subscript store on nullable", ["TypeError"], st, None)
        if bt in (T_NLIST, T_LIST) and not isinstance(t.slice, ast.Slice):
            d = self._index_discharge(t.value, t.slice, st)
            self.oblige(t, "list element store", ["IndexError"], st, d)
            if bp is not None:
                st = self._tree_kill(st, [("overwrite_path", bp)])  # an element store changes membership, not the length
        elif bt in (T_DICT, T_NDICT) or bp == STORE:
            kp = self.path(t.slice)
            if bp is not None and kp is not None:
                st = F.add(st, ("haskey", bp, kp))
        return st

    def _delete(self, t, st, flow):
        if isinstance(t, ast.Subscript):
            bt = self.type_of(t.value)
            bp = self.path(t.value)
            if bt in (T_DICT, T_NDICT) or bp == STORE:
                kp = self.path(t.slice)
                kc = self.const(t.slice)
                ok = (bp is not None and ((kp is not None and ("haskey", bp, kp) in st) or
                                          (isinstance(kc, str) and ("haskey", bp, "#" + repr(kc)) in st)))
                self.oblige(t, "del d[k]", ["KeyError"], st, "D-GUARD haskey" if ok else None)
                if bp is not None:
                    st = frozenset(f for f in st if not (f[0] == "haskey" and f[1] == bp))
            elif bt in (T_NLIST, T_LIST):
                d = self._index_discharge(t.value, t.slice, st) if not isinstance(t.slice, ast.Slice) else "slice"
                self.oblige(t, "del L[i]", ["IndexError"], st, d)
                if bp is not None:
                    st = self._shrink_list(st, bp)
            else:
                self.oblige(t, "del x[k] on untyped container", ["KeyError", "IndexError"], st, None)
            return st
        return self._kill_target(t, st)

    def _aug(self, s, st, flow):
        p = self.path(s.target)
        if p is None:
            return st
        c = self.term(s.value)
        if isinstance(s.op, (ast.Add, ast.Sub)) and c is not None and c[0] is None:
            d = c[1] if isinstance(s.op, ast.Add) else -c[1]
            out = set()
            for f in st:
                if f[0] == "ub" and f[1] == p:
                    k = f[3] - d
                    if k >= 1:  # weaker bounds are useless and would descend for ever around a loop
                        out.add(("ub", p, f[2], k))
                elif f[0] == "lb" and f[1] == p:
                    if f[2] + d >= -2:
                        out.add(("lb", p, f[2] + d))
                elif f[0] == "inv" or not F.mentions(f, p):
                    out.add(f)
                elif f[0] == "nn" and f[1] == p:
                    out.add(f)
            return frozenset(out)
        # strict use of a nullable operand
        if isinstance(s.op, (ast.Add, ast.Mod)) and self.nullable(s.value, st):
            self.oblige(s, "nullable operand of +=", ["TypeError"], st, None)
        t = self.type_of(s.target)
        if t in (T_LIST, T_NLIST, T_STR):
            return frozenset(f for f in st if f[0] in ("nn", "inv", "lenge", "ub", "lb") or not F.mentions(f, p))
        return self._kill_target(s.target, st)

    def assign_path(self, p: str, value, st, flow):
        st = frozenset(f for f in st if f[0] == "inv" or not F.mentions(f, p))
        out = []
        vp = self.path(value)
        if vp is not None and vp != p:
            for f in st:
                k = f[0]
                if k in ("nn", "none", "known", "rulekey", "desc", "reg", "isstr") and f[1] == vp:
                    out.append((k, p))
                elif k == "parses" and f[2] == vp:
                    out.append((k, f[1], p))
                elif k == "lenge" and f[1] == vp:
                    out.append((k, p, f[2]))
                elif k == "member" and f[1] == vp:
                    out.append((k, p, f[2]))
                elif k in ("ub",) and f[1] == vp:
                    out.append((k, p, f[2], f[3]))
                elif k == "lb" and f[1] == vp:
                    out.append((k, p, f[2]))
                elif k == "rub" and f[1] == vp:
                    out.append((k, p, f[2], f[3]))
                elif k == "rlb" and f[1] == vp:
                    out.append((k, p, f[2]))
            if p != RET:
                out.append(("alias", p, vp))
        if not self.nullable(value, st):
            out.append(("nn", p))
        elif isinstance(value, ast.Constant) and value.value is None:
            out.append(("none", p))
        if isinstance(value, ast.Constant):
            v = value.value
            if not v:
                out.append(("falsy", p))
            elif v is True:
                for f in st:
                    if f[0] == "conv":
                        out.append(("imp", p, f))
            if isinstance(v, int) and not isinstance(v, bool):
                out.append(("lb", p, v))
                out.append(("eqc", p, v))
        if isinstance(value, (ast.List, ast.Tuple)):
            out.append(("lenge", p, len(value.elts)))
        if (isinstance(value, ast.List) and not value.elts) or (isinstance(value, ast.Call) and isinstance(value.func, ast.Name)
                                                                and value.func.id == "list" and not value.args):
            if "." not in p:
                out.append(("elemall", p))
        if isinstance(value, ast.Subscript):
            out.extend(self._subscript_value_facts(p, value, st))
        if isinstance(value, ast.ListComp) and len(value.generators) == 1 and isinstance(value.elt, ast.Name) \
                and isinstance(value.generators[0].target, ast.Name) and value.elt.id == value.generators[0].target.id:
            # [x for x in L if ...]: a (filtered) snapshot -- every element was an element of L when it was taken
            src = value.generators[0].iter
            if isinstance(src, ast.Call) and isinstance(src.func, ast.Attribute) and src.func.attr == "copy" and not src.args:
                src = src.func.value
            elif isinstance(src, ast.Call) and isinstance(src.func, ast.Name) and src.func.id in ("list", "tuple") and len(src.args) == 1:
                src = src.args[0]
            sp = self.path(src)
            if sp is not None and self.type_of(src) in (T_NLIST, T_LIST):
                out.append(("snap", p, sp))
        lv = F.is_len_call(value)
        if lv is not None and self.path(lv) is not None:
            out.append(("islen", p, self.path(lv)))
            out.append(("lb", p, 0))
        if isinstance(value, ast.Call):
            out.extend(self._call_value_facts(p, value, st))
            if "." not in p:
                out.extend(self._iter_elem_facts(p, value, st))
                # x = next(iter(R), None) / next(iter(R)): some element of R (or the default; bounds are about the int case)
                if isinstance(value.func, ast.Name) and value.func.id == "next" and value.args and not value.keywords:
                    out.extend(self._elem_facts_of(p, value.args[0], st))
        if isinstance(value, ast.Attribute):
            # x.parent with desc(x)
            pass
        return F.add(st, *out)

    def _subscript_value_facts(self, p, value, st):
        out = []
        tbl = self._is_table(value.value)
        kp = self.path(value.slice)
        if tbl == "node_mappings" and kp is not None and ("known", kp) in st and self.eng.closure_ok:
            out.append(("rulekey", p))
        bp = self.path(value.value)
        bt = self.type_of(value.value)
        if isinstance(value.slice, ast.Slice) and bp is not None:
            if value.slice.lower is None and value.slice.upper is None and value.slice.step is None:
                out.append(("snap", p, bp))
        if bt == T_NLIST and not isinstance(value.slice, ast.Slice) and bp is not None:
            if bp.endswith("._children") and self.eng.tree_invariant:
                out.append(("desc", p))
            out.append(("member", p, bp))
            if self.eng.registry_invariant:
                out.append(("reg", p))
        return out

    def _call_value_facts(self, p, call, st):
        out = []
        f = call.func
        if isinstance(f, ast.Attribute):
            bp = self.path(f.value)
            bt = self.type_of(f.value)
            if f.attr == "index" and bp is not None and bt in (T_NLIST, T_LIST) and len(call.args) == 1:
                out += [("lb", p, 0), ("ub", p, bp, 1)]
            if f.attr == "copy" and bp is not None and bt in (T_NLIST, T_LIST):
                out += [("snap", p, bp)]
            if f.attr == "get" and bp is not None and call.args:
                kp = self.path(call.args[0])
                tbl = self._is_table(f.value)
                if kp is not None and ("haskey", bp, kp) in st and len(call.args) == 1:
                    out.append(("nn", p))
                if tbl == "node_mappings" and kp is not None and ("known", kp) in st and self.eng.closure_ok:
                    out += [("rulekey", p), ("nn", p)]
                if bp == STORE and kp is not None and ("haskey", STORE, kp) in st:
                    out += [("nn", p), ("reg", p)]
        if isinstance(f, ast.Name) and f.id in ("list", "tuple") and len(call.args) == 1:
            ap = self.path(call.args[0])
            if ap is not None and self.type_of(call.args[0]) in (T_NLIST, T_LIST):
                out.append(("snap", p, ap))
        info = self.call_info.get(id(call))
        tg0 = self.w.resolve_call(self.ft, call)
        if tg0 and all(t.kind == "class" for t in tg0):
            info = None
        if info:
            common = None
            for (s, back) in info:
                rf = s.ret_facts or frozenset()
                g = set()
                for fact in rf:
                    tf = back(fact, ret=p)
                    if tf is not None:
                        g.add(tf)
                common = g if common is None else (common & g)
            out.extend(common or [])
            # constructor / copy results are fresh registered nodes
        t = self.type_of(call)
        if t == T_NODE:
            tg = self.w.resolve_call(self.ft, call)
            if tg and (tg[0].kind == "class" or (tg[0].func is not None and tg[0].func.name == "copy")):
                if self.eng.registry_invariant:
                    out.append(("reg", p))
        return out

    # ----------------------------------------------------------- expressions
    def expr(self, e, st, flow):
        if isinstance(e, ast.Attribute) and isinstance(e.ctx, ast.Load):
            r = self.eng.prog.resolve_name_expr(self.fi.module, e.value) if isinstance(e.value, (ast.Name, ast.Attribute)) else None
            if r and r[0] == "class" and not (isinstance(e.value, ast.Name) and e.value.id in self.ft.env):
                ci = r[1]
                if self.eng.prog.is_enum(ci) and e.attr not in ci.class_attrs and e.attr not in ci.methods \
                        and e.attr not in ("name", "value", "__members__"):
                    self.oblige(e, "undeclared enum member", ["AttributeError"], st, None,
                                why=f"{ci.name} declares no member {e.attr}")
                return st
            if self.nullable(e.value, st):
                self.oblige(e, "attribute of nullable", ["AttributeError"], st, None, why=f"`{norm(e.value)}` may be None")
            else:
                t = self.type_of(e.value)
                if t in NULLABLE_TYPES or (isinstance(e.value, ast.Name) and e.value.id in self.nullable_params):
                    self.oblige(e, "attribute of nullable", ["AttributeError"], st, "D-GUARD nonnull")
            return st
        if isinstance(e, ast.Subscript) and isinstance(e.ctx, ast.Load):
            return self._subscript_load(e, st, flow)
        if isinstance(e, ast.Call):
            return self._call(e, st, flow)
        if isinstance(e, ast.BinOp):
            if isinstance(e.op, (ast.Add, ast.Sub, ast.Mult, ast.Mod, ast.Div)):
                for side in (e.left, e.right):
                    if isinstance(e.op, ast.Mod) and side is e.right:
                        continue
                    if self.nullable(side, st):
                        self.oblige(e, "nullable operand", ["TypeError"], st, None, why=f"`{norm(side)}` may be None")
                    elif self.type_of(side) in NULLABLE_TYPES:
                        self.oblige(e, "nullable operand", ["TypeError"], st, "D-GUARD nonnull")
            if isinstance(e.op, ast.Mod) and not isinstance(e.left, ast.Constant) and self.type_of(e.left) in (T_STR, T_OPTSTR):
                self.oblige(e, "% with non-constant format", ["TypeError", "ValueError"], st, None)
            return st
        if isinstance(e, ast.Compare):
            left = e.left
            for op, c in zip(e.ops, e.comparators):
                if isinstance(op, (ast.Lt, ast.LtE, ast.Gt, ast.GtE)):
                    for side in (left, c):
                        if self.nullable(side, st):
                            self.oblige(e, "ordered comparison with nullable", ["TypeError"], st, None, why=f"`{norm(side)}` may be None")
                        elif self.type_of(side) in NULLABLE_TYPES:
                            self.oblige(e, "ordered comparison with nullable", ["TypeError"], st, "D-GUARD nonnull")
                if isinstance(op, (ast.In, ast.NotIn)):
                    if self.nullable(c, st):
                        self.oblige(e, "membership test in nullable", ["TypeError"], st, None, why=f"`{norm(c)}` may be None")
                left = c
            return st
        return st

    def _index_discharge(self, base, idx, st) -> Optional[str]:
        bp = self.path(base)
        if bp is None:
            return None
        t = self.term(idx, st)
        if t is None:
            return None
        lists = {bp} | {f[2] for f in st if f[0] == "eqlen" and f[1] == bp}
        lists |= {f[2] for f in st if f[0] == "alias" and f[1] in lists} | {f[1] for f in st if f[0] == "alias" and f[2] in lists}
        if t[0] is None:
            c = t[1]
            need = c + 1 if c >= 0 else -c
            for L in lists:
                n = F.best(st, "lenge", L)
                if n is not None and n >= need:
                    return "D-GUARD len"
            # a non-negative constant below a proven in-bounds index
            return None
        if t[0][0] != "v":
            return None
        i, d = t[0][1], t[1]
        for L in lists:
            k = F.best(st, "ub", i, L)
            if k is None or k < d + 1:
                continue
            lb = F.best(st, "lb", i)
            if (lb is not None and lb + d >= 0) or (("inv", i, L) in st and d >= 0):
                return "D-GUARD inbounds"
        return None

    def _subscript_load(self, e, st, flow):
        base, idx = e.value, e.slice
        bt = self.type_of(base)
        bp = self.path(base)
        if self.nullable(base, st):
            self.oblige(e, "subscript of nullable", ["TypeError"], st, None, why=f"`{norm(base)}` may be None")
            return st
        if isinstance(idx, ast.Slice):
            return st
        tbl = self._is_table(base)
        if tbl is not None:
            kp = self.path(idx)
            ok = kp is not None and ((tbl == "node_mappings" and ("known", kp) in st) or (tbl == "rules_dict" and ("rulekey", kp) in st)
                                     or ("haskey", bp, kp) in st)
            self.oblige(e, f"{tbl}[k]", ["KeyError"], st, "D-KNOWN" if ok and self.eng.closure_ok else None,
                        why="key not proven to be in the table")
            return st
        if bt == T_SPEC:
            c = self.const(idx)
            if isinstance(c, bool):
                c = UNKNOWN
            ok = None
            if isinstance(c, int) and c in SPEC_OK_INDEX:
                ok = "D-SPEC position"
            elif isinstance(c, str) and c in SPEC_OK_KEYS:
                ok = "D-SPEC key"
            elif isinstance(c, str) and bp is not None and ("haskey", bp, "#" + repr(c)) in st:
                ok = "D-GUARD haskey"
            else:
                kp = self.path(idx)
                if kp is not None and bp is not None and ("haskey", bp, kp) in st:
                    ok = "D-ITER/haskey"
            if ok and ok.startswith("D-SPEC") and not self.eng.spec_ok:
                ok = None
            self.oblige(e, "spec subscript", ["IndexError", "KeyError"], st, ok,
                        why="index is not a layout position guaranteed by the rule-table shape")
            return st
        if bt in (T_DICT, T_NDICT) or bp == STORE:
            kp = self.path(idx)
            kc = self.const(idx)
            ok = None
            if bp is not None and kp is not None and ("haskey", bp, kp) in st:
                ok = "D-ITER/haskey"
            elif bp is not None and isinstance(kc, str) and ("haskey", bp, "#" + repr(kc)) in st:
                ok = "D-GUARD haskey"
            self.oblige(e, "d[k]", ["KeyError"], st, ok, why="key not proven present")
            return st
        if bt in (T_NLIST, T_LIST, T_STR, "tuple"):
            ok = self._index_discharge(base, idx, st)
            if ok is None and bt == T_STR:
                pass
            self.oblige(e, "L[i]", ["IndexError"], st, ok, why="index not proven in bounds")
            return st
        if bt is None or bt == T_ANY:
            ok = self._index_discharge(base, idx, st)
            if ok is None and bp is not None:
                kp = self.path(idx)
                if kp is not None and ("haskey", bp, kp) in st:
                    ok = "D-ITER/haskey"
            self.oblige(e, "x[k] on untyped value", ["IndexError", "KeyError"], st, ok, why="untyped container, index not proven")
            return st
        return st

    # ------------------------------------------------------------------ calls
    def _shrink_list(self, st, lp):
        return frozenset(f for f in st if not (
            (f[0] in ("ub", "rub", "eqlen", "member", "snap", "islen") and lp in F.paths_of(f)) or (f[0] == "lenge" and f[1] == lp)))

    def _tree_kill(self, st, effects):
        out = set(st)
        for fx in effects:
            k = fx[0]
            if k == "elem":  # a particular node (path) leaves its parent's list
                x = fx[1]
                out = {f for f in out if not ((f[0] == "member" and f[1] == x) or (f[0] in ("desc", "listed") and f[1] == x))}
            elif k == "shrink_path":  # the list at this path loses unknown elements
                lp = fx[1]
                out = {f for f in out if not ((f[0] in ("member", "snap") and f[2] == lp) or (f[0] in ("ub", "rub", "eqlen") and lp in F.paths_of(f))
                                              or (f[0] == "lenge" and f[1] == lp))}
            elif k == "overwrite_path":
                lp = fx[1]
                out = {f for f in out if not (f[0] in ("member", "snap") and f[2] == lp)}
            elif k == "below":  # lists at or below this root variable shrink
                r = fx[1]
                out = {f for f in out if not ((f[0] in ("member", "snap") and f[2].split(".")[0] == r)
                                              or (f[0] in ("ub", "rub", "eqlen", "lenge") and any(q.split(".")[0] == r and "_children" in q for q in F.paths_of(f)))
                                              or (f[0] == "desc" and f[1].split(".")[0] != r and False))}
            elif k == "any":
                out = {f for f in out if not (f[0] == "elem" and f[3] in ("desc", "listed"))}
                out = {f for f in out if f[0] not in ("member", "snap", "desc", "listed") and not (f[0] in ("ub", "rub", "eqlen", "lenge") and any("_children" in q for q in F.paths_of(f)))}
            elif k == "unreg":
                x = fx[1]
                out = {f for f in out if not (f[0] == "reg" and f[1] == x) and not (f[0] == "haskey" and f[1] == STORE and f[2] in (x + "._id",))}
            elif k == "unreg_below":
                pass
            elif k == "unreg_any":
                out = {f for f in out if f[0] != "reg" and not (f[0] == "haskey" and f[1] == STORE) and not (f[0] == "elem" and f[3] == "reg")}
        return frozenset(out)

    def _ctx_for(self, tgt, call, st):
        """facts about the callee's parameters implied by the caller's state"""
        fi = tgt.func
        am = self.w.arg_map(tgt, call)
        out = set()
        mapping = []  # (actual path, param)
        for p in fi.params:
            a = am.get(p)
            if a is None:
                d = fi.default_of(p)
                if d is not None:
                    if isinstance(d, ast.Constant) and d.value is None:
                        out.add(("none", p))
                    else:
                        out.add(("nn", p))
                    if isinstance(d, ast.Constant) and not d.value:
                        out.add(("falsy", p))
                elif tgt.kind == "class" and p == fi.params[0]:
                    out.add(("nn", p))
                continue
            if isinstance(a, ast.Constant) and a.value is None:
                out.add(("none", p))
            elif not self.nullable(a, st):
                out.add(("nn", p))
            if isinstance(a, ast.Constant) and not a.value:
                out.add(("falsy", p))
            ap = self.path(a)
            if ap is not None:
                mapping.append((ap, p))
                if ("none", ap) in st:
                    out.add(("none", p))
                # X.id of a registered node
                if ap.endswith("._id") and ("reg", ap[:-4]) in st:
                    out.add(("haskey", STORE, p))
            if isinstance(a, (ast.Tuple, ast.List)):
                out.add(("lenge", p, len(a.elts)))
            if isinstance(a, ast.BinOp):
                # index arithmetic in the actual: bounds of i carry over to i + d, shifted
                ta = self.term(a, st)
                if ta is not None and ta[0] is not None and ta[0][0] == "v":
                    iv, dd = ta[0][1], ta[1]
                    lin_pending = getattr(self, "_lin_pending", None)
                    for f in st:
                        if f[0] == "ub" and f[1] == iv and f[3] - dd >= 1:
                            out.add(("ub", p, "\0" + f[2], f[3] - dd))
                        if f[0] == "lb" and f[1] == iv:
                            out.add(("lb", p, f[2] + dd))
            if isinstance(a, ast.Call) and id(a) not in self.call_info:
                # a table look-up written in the argument itself -- Rule(node_mappings.get(name)) -- says about the parameter what it would say
                # about a local it was first assigned to
                try:
                    vf = self._call_value_facts(p, a, st)
                except Exception:
                    vf = st
                for tf in (set(vf) - set(st)) if vf is not None else ():
                    if tf[0] in TRANSFER and all(q == p for q in F.paths_of(tf)):
                        out.add(tf)
            if isinstance(a, ast.Subscript):
                try:
                    vf = self._subscript_value_facts(p, a, st)
                except Exception:
                    vf = st
                for tf in (set(vf) - set(st)) if vf is not None else ():
                    if tf[0] in TRANSFER and all(q == p for q in F.paths_of(tf)):
                        out.add(tf)
            if isinstance(a, ast.Call) and id(a) in self.call_info:
                # facts about the value an inner call returns travel with it into the parameter
                common = None
                for (s_in, back_in) in self.call_info[id(a)]:
                    g = set()
                    for fact in (s_in.ret_facts or frozenset()):
                        tf = back_in(fact, ret=p)
                        if tf is not None and tf[0] in TRANSFER and all(q == p for q in F.paths_of(tf)):
                            g.add(tf)
                    common = g if common is None else (common & g)
                out |= (common or set())
            if isinstance(a, (ast.Name, ast.Attribute)) and not (isinstance(a, ast.Name) and a.id in self.ft.env):
                rc = resolve_exc_class(self.eng.prog, self.fi.module, a)
                if rc is not None and self.eng.h.known(rc):
                    out.add(("clsval", p, rc))
                else:
                    cv = self.const(a)
                    from .model import EnumMember as _EM
                    if isinstance(cv, (_EM, str, int)) and not isinstance(cv, bool):
                        out.add(("constval", p, cv))
            if isinstance(a, (ast.Name, ast.Attribute)):
                c = self.const(a)
                if isinstance(c, (tuple, list)):
                    out.add(("lenge", p, len(c)))
        mapping.sort(key=lambda x: -len(x[0]))
        if self.eng.tree_invariant:
            extra = set()
            for f in st:
                if f[0] == "desc" or (f[0] == "listed" and ("nn", f[1] + "._parent") in st):
                    x = f[1]
                    par = x + "._parent"
                    extra.add(("member", x, par + "._children"))
                    extra.add(("nn", par))
                    for g in st:
                        if g[0] == "alias" and par in (g[1], g[2]):
                            other = g[2] if g[1] == par else g[1]
                            extra.add(("member", x, other + "._children"))
            st = st | extra

        def fwd(q):
            if q == STORE or q.startswith("#"):
                return q
            for ap, p in mapping:
                if q == ap:
                    return p
                if q.startswith(ap + "."):
                    return p + q[len(ap):]
            return None

        for f in st:
            if f[0] not in TRANSFER:
                continue
            k = f[0]
            if k == "parses":
                q = fwd(f[2])
                if q is not None:
                    out.add((k, f[1], q))
                continue
            if k == "lenge":
                q = fwd(f[1])
                if q is not None:
                    out.add((k, q, f[2]))
                continue
            qs = [fwd(x) if isinstance(x, str) else x for x in f[1:]]
            if all(q is not None for q in qs):
                out.add((k,) + tuple(qs))
        fixed = set()
        for f in out:
            if f[0] == "ub" and isinstance(f[2], str) and f[2].startswith("\0"):
                q = fwd(f[2][1:])
                if q is not None:
                    fixed.add(("ub", f[1], q, f[3]))
            else:
                fixed.add(f)
        out = fixed
        # keep only facts that mention a parameter
        params = set(fi.params)
        out = {f for f in out if any(q.split(".")[0] in params for q in F.paths_of(f))}
        out = {f for f in out if all(q.split(".")[0] in params or q == STORE or q.startswith("#") for q in F.paths_of(f))}

        rev = sorted(((p, ap) for ap, p in mapping), key=lambda x: -len(x[0]))

        def back(fact, ret=None):
            def b(q):
                if q == STORE or q.startswith("#"):
                    return q
                if q == RET:
                    return ret
                for p, ap in rev:
                    if q == p:
                        return ap
                    if q.startswith(p + "."):
                        return ap + q[len(p):]
                return None
            k = fact[0]
            if k in ("parses", "conv"):
                q = b(fact[2])
                return ("parses", fact[1], q) if q is not None else None
            if k == "lenge":
                q = b(fact[1])
                return (k, q, fact[2]) if q is not None else None
            qs = [b(x) if isinstance(x, str) else x for x in fact[1:]]
            if all(q is not None for q in qs):
                return (k,) + tuple(qs)
            return None

        return frozenset(out), back, am

    def _call(self, e, st, flow):
        tgts = self.w.resolve_call(self.ft, e, count=not flow.quiet and id(e) not in self.call_info)
        f = e.func
        # method call on a nullable receiver is caught by the Attribute rule already
        infos = []
        for tg in tgts:
            if tg.func is not None:
                cf, back, am = self._ctx_for(tg, e, st)
                s = self.eng.summary(tg.func, cf)
                infos.append((s, back))
                spec_total = False
                mode_t = self.eng.spec_total.get(tg.func.qname)
                if mode_t and self.eng.spec_ok and len(e.args) == 1 and self.type_of(e.args[0]) == T_SPEC:
                    a0 = e.args[0]
                    a0p = self.path(a0)
                    if mode_t == "all":
                        spec_total = True
                    elif a0p is not None and (F.best(st, "lenge", a0p) or 0) >= 1:
                        spec_total = True
                if spec_total and s.escapes and not flow.quiet:
                    self.summ.ledger.append({"func": self.fi.qname, "construct": norm(e), "op": "call of spec-total helper",
                                             "may_raise": sorted({self.eng.h.short(x.cls) for x in s.escapes.values()}),
                                             "discharge": "D-SPEC (folded over every spec node of rules.json)", "loc": self.fi.loc(e)})
                # escapes
                for key, esc in ([] if spec_total else s.escapes.items()):
                    est = st
                    tf = [back(x) for x in esc.facts]
                    est = F.add(st, *[x for x in tf if x is not None])
                    left = flow.raise_event([esc.cls], e, est, esc.origin[2], "call")
                    if not flow.quiet:
                        for c in left:
                            self._escape(c, esc.origin, (self.fi.qname,) + esc.chain, est, esc.loc, norm(e))
                # nullable actual for a parameter declared non-null
                for p, a in am.items():
                    d = tg.func.default_of(p)
                    declared_nullable = isinstance(d, ast.Constant) and d.value is None
                    if not declared_nullable and self.nullable(a, st) and not (isinstance(a, ast.Constant)):
                        ann = tg.func.annotation_of(p)
                        if ann is not None and self.ft._ann_type(ann) in (T_NODE, T_STR):
                            self.oblige(e, "nullable actual for non-null parameter", ["AttributeError", "TypeError"], st, None,
                                        why=f"`{norm(a)}` may be None but parameter `{p}` of {tg.func.name} is declared {norm(ann)}")
            else:
                st = self._external_call(e, tg, st, flow)
        if infos:
            self.call_info[id(e)] = infos
            st = self._apply_callee_effects(e, tgts, infos, st)
        return st

    def _apply_callee_effects(self, e, tgts, infos, st):
        fx_all = set()
        for tg in tgts:
            if tg.func is None:
                continue
            fi = tg.func
            am = self.w.arg_map(tg, e)
            if tg.kind == "class":
                continue  # a constructor writes its fresh object (and registers it)
            w = self.eng.fx.writes(fi)
            fields = {x for x in w if not x.startswith("$")}
            tree_fields = {"_children"}
            plain = fields - tree_fields
            if "$any" in w:
                st = frozenset(f for f in st if f[0] in ("inv",) or all("." not in q for q in F.paths_of(f)))
            st = frozenset(f for f in st if f[0] == "inv" or f[0] in ("member", "snap", "desc", "reg") or not any(F.mentions_field(f, x) for x in plain))
            # containers passed as arguments and mutated by the callee
            for x in w:
                if x.startswith("$param:"):
                    a = am.get(x[7:])
                    ap = self.path(a) if a is not None else None
                    if ap is not None:
                        st = frozenset(f for f in st if f[0] in ("inv", "nn", "none", "alias", "isstr") or not F.mentions(f, ap))
            # tree effects
            for fx in self.eng.fx.tree_effects(fi):
                k = fx[0]
                if k in ("detach",):
                    ap = self.path(am.get(fx[1])) if am.get(fx[1]) is not None else None
                    fx_all.add(("elem", ap) if ap else ("any",))
                elif k == "detach_id":
                    ap = self.path(am.get(fx[1])) if am.get(fx[1]) is not None else None
                    fx_all.add(("elem", ap[:-4]) if ap and ap.endswith("._id") else ("any",))
                elif k == "detach_local":
                    fx_all.add(("any",))
                elif k == "remove":
                    ae = am.get(fx[2])
                    ep = self.path(ae) if ae is not None else None
                    fx_all.add(("elem", ep) if ep else ("any",))
                    ao = am.get(fx[1])
                    op = self.path(ao) if ao is not None else None
                    if op:
                        # the owner's list shrinks by exactly that element: bounds on it are lost
                        lp = op + "._children"
                        st = frozenset(f for f in st if not (f[0] in ("ub", "rub", "eqlen", "lenge") and lp in F.paths_of(f)))
                elif k == "shrink_self":
                    ao = am.get(fx[1])
                    op = self.path(ao) if ao is not None else None
                    fx_all.add(("shrink_path", op + "._children") if op else ("any",))
                elif k == "shrink_below":
                    a = am.get(fx[1])
                    ap = self.path(a) if a is not None else None
                    if ap:
                        fx_all.add(("below", ap.split(".")[0]))
                        fx_all.add(("elem_unknown_below", ap))
                    else:
                        fx_all.add(("any",))
                elif k == "shrink_any":
                    fx_all.add(("any",))
                elif k in ("unreg", "unreg_id"):
                    a = am.get(fx[1])
                    ap = self.path(a) if a is not None else None
                    if ap and k == "unreg_id" and ap.endswith("._id"):
                        ap = ap[:-4]
                        fx_all.add(("unreg", ap))
                    elif ap and k == "unreg":
                        fx_all.add(("unreg", ap))
                    else:
                        fx_all.add(("unreg_any",))
                elif k == "unreg_below":
                    pass
                elif k == "unreg_any":
                    fx_all.add(("unreg_any",))
            if "$store" in w and not any(x[0].startswith("unreg") for x in self.eng.fx.tree_effects(fi)):
                pass  # registration only adds keys
        st = self._tree_kill(st, fx_all)
        # facts established on normal return
        common = None
        for (s, back) in infos:
            g = set()
            for fact in (s.exit_facts or frozenset()):
                tf = back(fact)
                if tf is not None:
                    g.add(tf)
            common = g if common is None else (common & g)
        if common:
            st = self._gen(st, *common)
        # out-parameters filled by descent
        for tg in tgts:
            if tg.func is None:
                continue
            fills = self.w.fills_nodes(tg.func)
            if fills and tg.func.cls is not None and tg.func.cls.qname == NODE_Q and tg.func.name.startswith("find_"):
                am = self.w.arg_map(tg, e)
                for pn in fills:
                    a = am.get(pn)
                    ap = self.path(a) if a is not None else None
                    if ap is not None:
                        st = F.add(st, ("desclist", ap))
        return st

    def _external_call(self, e, tg, st, flow):
        f = e.func
        name = tg.name
        args = e.args
        h = self.eng.h
        kind = tg.kind
        if kind == "unknown":
            self.eng.assumed_total.add(f"unresolved:{norm(f)}")
            return st
        # ----- builtins
        if kind == "builtin":
            if name in ("float", "int") and len(args) == 1:
                a = args[0]
                at = self.type_of(a)
                ap = self.path(a)
                if at in (T_INT, "float", T_BOOL_T) or F.is_len_call(a) is not None:
                    return st
                ok = None
                if ap is not None and ("parses", name, ap) in st:
                    ok = "D-GUARD parses"
                classes = ["ValueError"]
                if self.nullable(a, st) or at not in (T_STR, T_OPTSTR):
                    classes.append("TypeError")
                self.oblige(e, f"{name}(x)", classes, st, ok, why=f"`{norm(a)}` not proven to parse as {name}")
                if ap is not None:
                    st = F.add(st, ("conv", name, ap))
                return st
            if name == "len" and len(args) == 1:
                if self.nullable(args[0], st):
                    self.oblige(e, "len(nullable)", ["TypeError"], st, None, why=f"`{norm(args[0])}` may be None")
                elif self.type_of(args[0]) in NULLABLE_TYPES:
                    self.oblige(e, "len(nullable)", ["TypeError"], st, "D-GUARD nonnull")
                return st
            if name in ("next",) and len(args) == 1:
                self.oblige(e, "next() without default", ["StopIteration"], st, "D-GUARD non-empty" if self._next_has_element(e) else None)
                return st
            if name in ("min", "max") and len(args) == 1:
                self.oblige(e, f"{name}() of possibly empty sequence", ["ValueError"], st, None)
                return st
            if name in ("sorted", "sum", "iter", "reversed", "enumerate", "zip", "list", "tuple", "set", "dict", "any", "all"):
                for a in args:
                    if self.nullable(a, st):
                        self.oblige(e, f"{name}(nullable)", ["TypeError"], st, None, why=f"`{norm(a)}` may be None")
                return st
            if name in ("setattr", "delattr"):
                return frozenset(f for f in st if f[0] == "inv" or all("." not in q for q in F.paths_of(f)))
            if name in ("open", "eval", "exec", "__import__"):
                self.oblige(e, f"{name}()", ["Exception"], st, None)
                return st
            self.eng.assumed_total.add(f"builtin:{name}")
            return st
        # ----- methods of builtin containers / strings
        if kind == "method":
            bt = tg.recv_type
            recv = f.value
            bp = self.path(recv)
            m = name
            if bt in (T_NLIST, T_LIST, None) and m in ("index", "remove") and len(args) == 1 and bt is not None:
                xp = self.path(args[0])
                ok = "D-GUARD member" if (bp is not None and xp is not None and ("member", xp, bp) in st) else None
                if ok is None and bp is not None and xp is not None and self.eng.tree_invariant:
                    # D-TREE: x obtained by descent is listed by x.parent
                    owner = bp[: -len("._children")] if bp.endswith("._children") else None
                    if owner is not None and (("desc", xp) in st or (("listed", xp) in st and ("nn", xp + "._parent") in st)):
                        if owner == xp + "._parent" or any(g[0] == "alias" and ((g[1] == owner and g[2] == xp + "._parent") or (g[2] == owner and g[1] == xp + "._parent")) for g in st):
                            ok = "D-TREE"
                self.oblige(e, f"list.{m}(x)", ["ValueError"], st, ok, why=f"`{norm(args[0])}` not proven to be in `{norm(recv)}`")
                if m == "remove" and bp is not None:
                    st = self._shrink_list_keep(st, bp, xp)
                return st
            if bt in (T_NLIST, T_LIST) and m == "pop":
                n = F.best(st, "lenge", bp) if bp else None
                self.oblige(e, "list.pop()", ["IndexError"], st, "D-GUARD len" if (n or 0) >= 1 and not args else None)
                if bp:
                    st = self._shrink_list(st, bp)
                return st
            if bt in (T_NLIST, T_LIST) and m in ("clear",):
                if bp:
                    st = self._shrink_list(st, bp)
                return st
            if bt in (T_NLIST, T_LIST) and m in ("append", "insert", "extend"):
                if bp:
                    st = frozenset(g for g in st if not (g[0] in ("eqlen", "islen") and bp in F.paths_of(g)))
                if bp and "." not in bp and m == "append" and args and isinstance(args[0], ast.Tuple):
                    new = set()
                    for i, x in enumerate(args[0].elts):
                        xp = self.path(x)
                        if not self.nullable(x, st):
                            new.add(("elem", bp, i, "nn"))
                        if xp is not None:
                            for kd in ("desc", "listed", "reg"):
                                if (kd, xp) in st:
                                    new.add(("elem", bp, i, kd))
                    if ("elemall", bp) in st:
                        st = frozenset(g for g in st if g != ("elemall", bp)) | frozenset(new)
                    else:
                        st = frozenset(g for g in st if not (g[0] == "elem" and g[1] == bp and g not in new))
                elif bp and "." not in bp:
                    st = frozenset(g for g in st if not (g[0] in ("elem", "elemall") and g[1] == bp))
                return st
            if bt in (T_DICT, T_NDICT) and m == "pop":
                kp = self.path(args[0]) if args else None
                ok = "has default" if len(args) >= 2 else ("D-GUARD haskey" if (bp and kp and ("haskey", bp, kp) in st) else None)
                self.oblige(e, "dict.pop(k)", ["KeyError"], st, ok)
                if bp:
                    st = frozenset(g for g in st if not (g[0] == "haskey" and g[1] == bp))
                return st
            if bt in (T_DICT, T_NDICT) and m == "popitem":
                n = F.best(st, "lenge", bp) if bp else None
                self.oblige(e, "dict.popitem()", ["KeyError"], st, "D-GUARD len" if (n or 0) >= 1 else None)
                return st
            if bt in (T_DICT, T_NDICT) and m in ("clear",):
                if bp:
                    st = frozenset(g for g in st if not (g[0] in ("haskey", "lenge") and g[1] == bp))
                return st
            if bt in (T_STR, T_OPTSTR) and m == "encode":
                strict = True
                for k in e.keywords:
                    if k.arg == "errors":
                        v = self.const(k.value)
                        strict = v == "strict"
                self.oblige(e, "str.encode(strict)", ["UnicodeError"], st, None if strict else "errors!=strict")
                return st
            if bt in (T_STR, T_OPTSTR) and m == "format":
                if not isinstance(recv, ast.Constant):
                    self.oblige(e, "str.format with non-constant format", ["IndexError", "KeyError"], st, None)
                return st
            if bt in (T_STR, T_OPTSTR) and m in ("index",):
                self.oblige(e, "str.index", ["ValueError"], st, None)
                return st
            if m in ("encode", "decode") and bt in (T_STR, T_OPTSTR, "bytes", None):
                lenient = any(isinstance(self.const(a), str) and self.const(a) in ("ignore", "replace", "backslashreplace", "xmlcharrefreplace", "surrogatepass",
                                                                                    "surrogateescape", "namereplace") for a in list(args[1:]) + [k.value for k in e.keywords if k.arg == "errors"])
                if not lenient:
                    self.oblige(e, f"str.{m}", ["UnicodeError"], st, None, why="a lone surrogate / undecodable byte raises UnicodeError (a ValueError)")
                return st
            if m in ("join",):
                for a in args:
                    if self.nullable(a, st):
                        self.oblige(e, "join(nullable)", ["TypeError"], st, None)
                return st
            if m in ("replace", "split", "strip", "startswith", "endswith", "find", "lstrip", "rstrip") and bt in (T_STR, T_OPTSTR):
                for a in args:
                    if self.nullable(a, st):
                        self.oblige(e, f"str.{m}(nullable)", ["TypeError"], st, None, why=f"`{norm(a)}` may be None")
                return st
            self.eng.assumed_total.add(f"method:{bt}.{m}")
            return st
        # ----- externals
        if kind == "ext":
            base = name.split("(")[0]
            if name.endswith(".strptime") or name.endswith(".fromisoformat"):
                a = args[0] if args else None
                ap = self.path(a) if a is not None else None
                cls = ["ValueError"]
                if a is not None and not (ap and (("isstr", ap) in st)):
                    cls.append("TypeError")
                self.oblige(e, name.rsplit(".", 1)[-1], cls, st, None, why="format not proven")
                if ap:
                    st = F.add(st, ("conv", name.rsplit(".", 1)[-1], ap))
                return st
            if name.endswith("().validate") and "rfc3986" in name or (name.endswith(".validate") and "alidator" in name):
                classes = [c for c in RFC_VALIDATE if not c.endswith("PasswordForbidden") or "forbid_use_of_password" in name]
                self.oblige(e, "rfc3986 Validator.validate", classes, st, None)
                return st
            if name in ("json.loads", "json.load"):
                self.oblige(e, name, ["ValueError", "TypeError"], st, None)
                return st
            if name.startswith("lxml.etree.fromstring") or name in ("lxml.etree.XML", "xml.etree.ElementTree.fromstring"):
                self.oblige(e, name, ["SyntaxError", "ValueError"], st, None)
                return st
            if base in STDLIB_PARTIAL and name == base and not (base == "re.compile" and args and isinstance(self.const(args[0]), str)):
                classes, why = STDLIB_PARTIAL[base]
                self.oblige(e, base, list(classes), st, None, why=why)
                return st
            short = name.split(".")[-1]
            tolerant = name in NONE_TOLERANT or short in ("debug", "info", "warning", "error", "exception", "getLogger") or "getLogger" in name
            if not tolerant:
                for a in args:
                    if self.nullable(a, st):
                        self.oblige(e, f"{name}(nullable)", ["TypeError", "AttributeError"], st, None,
                                    why=f"`{norm(a)}` may be None and {name} is not known to accept None")
            self.eng.assumed_total.add(f"ext:{name}")
            return st
        return st

    def _shrink_list_keep(self, st, lp, removed_path):
        """L.remove(x): L loses exactly x; membership of other variables is kept
        (distinct variables iterating a duplicate-free child list denote distinct nodes)"""
        out = set()
        for f in st:
            if f[0] == "member" and f[2] == lp:
                if removed_path is None or f[1] == removed_path or any(
                        g[0] == "alias" and {g[1], g[2]} == {f[1], removed_path} for g in st):
                    continue
            if f[0] in ("desc", "listed") and removed_path is not None and f[1] == removed_path:
                continue
            if f[0] in ("ub", "rub", "eqlen", "islen") and lp in F.paths_of(f):
                continue
            if f[0] == "lenge" and f[1] == lp:
                continue
            out.add(f)
        return frozenset(out)


T_BOOL_T = "bool"
