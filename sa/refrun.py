"""Developer tool: run every check against a behaviour-preserving refactoring (patch.diff) applied to /repo; every
check must stay silent.  The patch is reverted at once; nothing is committed to /repo."""
from __future__ import annotations

import json
import os
import subprocess
import sys

from .check import PROPS
from .core import VERIF


def sh(cmd, cwd=None):
    r = subprocess.run(cmd, shell=True, cwd=cwd, capture_output=True, text=True)
    return r.returncode, r.stdout + r.stderr


def main():
    patch = os.path.abspath(sys.argv[1])
    rc, out = sh("git -C /repo status --porcelain")
    if out.strip():
        print("/repo is not clean; refusing")
        return 3
    res = {}
    try:
        rc, out = sh(f"git -C /repo apply {patch}")
        if rc:
            print("patch does not apply:", out[:300])
            return 3
        rc, out = sh("/venv/bin/python -m pytest -q -p no:cacheprovider 2>&1 | tail -1", cwd="/repo")
        res["tests"] = out.strip()
        for pid in PROPS:
            r = subprocess.run([sys.executable, "-m", "sa.check", pid, "--no-evidence"], cwd=VERIF, capture_output=True, text=True)
            if r.returncode != 0:
                lines = [l.strip()[:400] for l in r.stdout.splitlines() if l.startswith("  ") or l.startswith("ANALYSIS")]
                res[pid] = {"exit": r.returncode, "lines": lines[:4]}
    finally:
        sh("git -C /repo checkout -- .")
        sh("git -C /repo clean -fdq -- src utils")
    print(json.dumps(res, indent=1))
    return 0


if __name__ == "__main__":
    sys.exit(main())
