"""Write-sets and tree effects of functions (part of E4), derived syntactically
and propagated over the call graph.

writes(fi)        canonical attribute names that fi (transitively) assigns or
                  mutates in place, on any receiver; plus '$param:<name>' for
                  parameters whose container is mutated directly.
tree_effects(fi)  how fi may shrink child lists / the registry, expressed
                  relative to its parameters:
                    ('detach', p)          removes p from p.parent's child list
                    ('remove', o, e)       removes parameter e from parameter o's own child list
                    ('shrink_self', o)     removes/overwrites some element of o's own child list
                    ('shrink_below', p)    shrinks child lists at or below p
                    ('shrink_any',)        shrinks child lists it cannot relate to a parameter
                    ('unreg', p)           unregisters node p (and, unless told otherwise, its subtree)
                    ('unreg_id', p)        unregisters the node whose id is parameter p
                    ('unreg_any',)
"""
from __future__ import annotations

import ast
from typing import Dict, Optional, Set, Tuple

from .model import FuncInfo, norm
from .types import (LIST_METHODS, MUTATING_METHODS, NODE_Q, T_NLIST, T_NODE, T_OPT, T_RULE, World)

SHRINKERS = {"remove", "pop", "clear"}


class TreeFx:
    def __init__(self, world: World):
        self.w = world
        self.nm = world.nm
        self._writes: Dict[str, Set[str]] = {}
        self._fx: Dict[str, Set[tuple]] = {}
        self._busy_w: Set[str] = set()
        self._busy_f: Set[str] = set()
        self._roots: Dict[str, Dict[str, Set[str]]] = {}

    # ------------------------------------------------------------------ canon
    def canon_attr(self, ft, recv: ast.expr, attr: str) -> str:
        t = ft.type_of(recv)
        if t in (T_NODE, T_OPT):
            return self.nm.canon(attr) or attr
        if t == T_RULE or (isinstance(recv, ast.Name) and recv.id == "self" and ft.fi.cls is not None):
            return self.class_canon(ft.fi.cls if not t == T_RULE else self.w.prog.classes.get("metapype.eml.rule.Rule"), attr)
        if t is None and (self.nm.canon(attr) is not None):
            # untyped receiver: Node state names are canonicalised so that kills stay conservative
            return self.nm.canon(attr)
        return attr

    def class_canon(self, ci, attr: str) -> str:
        if ci is None:
            return attr
        if ci.qname == NODE_Q:
            return self.nm.canon(attr) or attr
        m = ci.methods.get(attr)
        if m is not None and m.kind == "property":
            body = [s for s in m.node.body if not (isinstance(s, ast.Expr) and isinstance(s.value, ast.Constant))]
            if len(body) == 1 and isinstance(body[0], ast.Return):
                v = body[0].value
                if isinstance(v, ast.Attribute) and isinstance(v.value, ast.Name) and v.value.id == "self":
                    return v.attr
        return attr

    # ----------------------------------------------------------------- writes
    def writes(self, fi: FuncInfo) -> Set[str]:
        if fi.qname in self._writes:
            return self._writes[fi.qname]
        if fi.qname in self._busy_w:
            return set()
        self._busy_w.add(fi.qname)
        ft = self.w.types(fi)
        out: Set[str] = set()

        def store(t):
            if isinstance(t, ast.Subscript) and self.is_store(ft, t.value):
                out.add("$store")
                return
            if isinstance(t, ast.Attribute):
                out.add(self.canon_attr(ft, t.value, t.attr))
            elif isinstance(t, ast.Subscript):
                b = t.value
                if isinstance(b, ast.Attribute):
                    out.add(self.canon_attr(ft, b.value, b.attr))
                elif isinstance(b, ast.Name) and b.id in fi.params:
                    out.add("$param:" + b.id)
            elif isinstance(t, (ast.Tuple, ast.List)):
                for x in t.elts:
                    store(x)
            elif isinstance(t, ast.Starred):
                store(t.value)

        for n in ast.walk(fi.node):
            if isinstance(n, ast.Assign):
                for t in n.targets:
                    store(t)
            elif isinstance(n, (ast.AugAssign, ast.AnnAssign)):
                store(n.target)
            elif isinstance(n, ast.Delete):
                for t in n.targets:
                    store(t)
            elif isinstance(n, ast.Call):
                f = n.func
                if isinstance(f, ast.Attribute) and f.attr in MUTATING_METHODS:
                    b = f.value
                    if isinstance(b, ast.Attribute):
                        out.add(self.canon_attr(ft, b.value, b.attr))
                    elif isinstance(b, ast.Name) and b.id in fi.params:
                        out.add("$param:" + b.id)
                if isinstance(f, ast.Name) and f.id == "setattr":
                    out.add("$any")
                for tg in self.w.resolve_call(ft, n):
                    if tg.func is not None and tg.kind != "class":
                        sub = self.writes(tg.func)
                        am = self.w.arg_map(tg, n)
                        for x in sub:
                            if x.startswith("$param:"):
                                a = am.get(x[7:])
                                if isinstance(a, ast.Attribute):
                                    out.add(self.canon_attr(ft, a.value, a.attr))
                                elif isinstance(a, ast.Name) and a.id in fi.params:
                                    out.add("$param:" + a.id)
                            else:
                                out.add(x)
                    elif tg.kind == "class" and tg.func is not None:
                        # constructor writes only the fresh object (plus the registry for Node)
                        sub = self.writes(tg.func)
                        if "store" in sub or "$store" in sub:
                            out.add("$store")
        # registry
        for n in ast.walk(fi.node):
            if isinstance(n, (ast.Subscript,)) and isinstance(n.ctx, (ast.Store, ast.Del)):
                if self.is_store(ft, n.value):
                    out.add("$store")
        self._busy_w.discard(fi.qname)
        self._writes[fi.qname] = out
        return out

    def is_store(self, ft, e) -> bool:
        if isinstance(e, ast.Attribute) and e.attr == self.nm.registry:
            t = ft.type_of(e.value)
            if t is not None and t.startswith("class:") and t[6:] == NODE_Q:
                return True
            if t in (T_NODE, T_OPT):
                return True
        return False

    # ------------------------------------------------------------- local roots
    def roots(self, fi: FuncInfo) -> Dict[str, Set[str]]:
        """local variable -> set of parameter names it is reached from ('?' = unknown, 'F' = fresh)"""
        if fi.qname in self._roots:
            return self._roots[fi.qname]
        ft = self.w.types(fi)
        env: Dict[str, Set[str]] = {p: {p} for p in fi.params}
        if fi.kind == "class" and fi.params:
            env[fi.params[0]] = set()
        local_names = {n.id for n in ast.walk(fi.node) if isinstance(n, ast.Name) and isinstance(n.ctx, ast.Store)}

        def root_of(e) -> Set[str]:
            if isinstance(e, ast.Name):
                if e.id in env:
                    return set(env[e.id])
                return {"?"} if e.id in local_names else set()
            if isinstance(e, (ast.Attribute, ast.Subscript, ast.Starred)):
                return root_of(e.value)
            if isinstance(e, ast.Call):
                f = e.func
                if isinstance(f, ast.Name) and f.id in ("list", "tuple", "sorted", "reversed", "enumerate", "zip", "iter"):
                    s = set()
                    for a in e.args:
                        s |= root_of(a)
                    return s or {"F"}
                if isinstance(f, ast.Name) and f.id in ("dict", "set", "str", "int", "float", "len", "bool"):
                    return {"F"}
                tg = self.w.resolve_call(ft, e)
                if tg and tg[0].kind == "class":
                    return {"F"}
                if isinstance(f, ast.Attribute):
                    if f.attr == "copy" and ft.type_of(f.value) in (T_NODE, T_OPT):
                        return {"F"}
                    if tg and tg[0].kind == "ext" and tg[0].name in ("copy.copy", "copy.deepcopy"):
                        return {"F"}
                    s = root_of(f.value)
                    for a in e.args:
                        s |= root_of(a)
                    return s
                s = set()
                for a in e.args:
                    s |= root_of(a)
                return s or {"?"}
            if isinstance(e, ast.IfExp):
                return root_of(e.body) | root_of(e.orelse)
            if isinstance(e, (ast.List, ast.Tuple, ast.Set)):
                s = set()
                for x in e.elts:
                    s |= root_of(x)
                return s or {"F"}
            if isinstance(e, (ast.ListComp, ast.GeneratorExp)):
                return root_of(e.generators[0].iter)
            if isinstance(e, ast.Constant):
                return set()
            if isinstance(e, ast.BoolOp):
                s = set()
                for x in e.values:
                    s |= root_of(x)
                return s
            return {"?"}

        def bind(t, s):
            if isinstance(t, ast.Name) and t.id not in fi.params:
                if not s <= env.get(t.id, set()):
                    env.setdefault(t.id, set()).update(s)
                    return True
            elif isinstance(t, (ast.Tuple, ast.List)):
                ch = False
                for x in t.elts:
                    ch |= bind(x, s)
                return ch
            return False

        for _ in range(10):
            changed = False
            for n in ast.walk(fi.node):
                if isinstance(n, ast.Assign):
                    s = root_of(n.value)
                    for t in n.targets:
                        changed |= bind(t, s)
                elif isinstance(n, (ast.For, ast.comprehension)):
                    changed |= bind(n.target, root_of(n.iter))
                elif isinstance(n, ast.AugAssign) and isinstance(n.target, ast.Name):
                    changed |= bind(n.target, root_of(n.value))
                if isinstance(n, ast.Assign):
                    # what is stored into a local container is reachable from it
                    for t in n.targets:
                        if isinstance(t, ast.Subscript) and isinstance(t.value, ast.Name):
                            changed |= bind(t.value, root_of(n.value) - {"F"})
                if isinstance(n, ast.Call) and isinstance(n.func, ast.Attribute) and isinstance(n.func.value, ast.Name) and n.func.value.id in local_names \
                        and n.func.attr in ("append", "insert", "extend", "add", "update", "setdefault", "appendleft", "extendleft"):
                    s = set()
                    for a in n.args:
                        s |= root_of(a)
                    changed |= bind(n.func.value, s - {"F"})
                if isinstance(n, ast.Call):
                    for tg in self.w.resolve_call(ft, n):
                        if tg.func is None:
                            continue
                        fills = self.w.fills_nodes(tg.func)
                        if not fills:
                            continue
                        am = self.w.arg_map(tg, n)
                        src = set()
                        for p, a in am.items():
                            if p not in fills:
                                src |= root_of(a)
                        for p in fills:
                            a = am.get(p)
                            if isinstance(a, ast.Name):
                                changed |= bind(a, src)
            if not changed:
                break
        self._roots[fi.qname] = env
        return env

    # ------------------------------------------------------------ tree effects
    def tree_effects(self, fi: FuncInfo) -> Set[tuple]:
        if fi.qname in self._fx:
            return self._fx[fi.qname]
        if fi.qname in self._busy_f:
            return set()
        self._busy_f.add(fi.qname)
        prev = None
        out: Set[tuple] = set()
        for _ in range(6):
            out = self._tree_effects_once(fi)
            if out == prev:
                break
            prev = out
            self._fx[fi.qname] = out  # let recursive calls see the approximation
        self._busy_f.discard(fi.qname)
        self._fx[fi.qname] = out
        return out

    def _pathof(self, ft, e) -> Optional[str]:
        if isinstance(e, ast.Name):
            return e.id
        if isinstance(e, ast.Attribute):
            b = self._pathof(ft, e.value)
            if b is None:
                return None
            return f"{b}.{self.canon_attr(ft, e.value, e.attr)}"
        return None

    def _classify_remove(self, fi, ft, owner: ast.expr, elem: Optional[ast.expr]):
        """owner: expression of the node whose child list shrinks"""
        params = fi.params
        op = self._pathof(ft, owner)
        ep = self._pathof(ft, elem) if elem is not None else None
        roots = self.roots(fi)
        # aliases: local = X.parent
        if op is not None and "." not in op and op not in params:
            for n in ast.walk(fi.node):
                if isinstance(n, ast.Assign) and len(n.targets) == 1 and isinstance(n.targets[0], ast.Name) and n.targets[0].id == op:
                    ap = self._pathof(ft, n.value)
                    if ap is not None and ap.endswith("._parent") and ep is not None and ap[: -len("._parent")] == ep:
                        op = ap
        if op is not None and ep is not None and op == ep + "._parent":
            if ep in params:
                return {("detach", ep)}
            # the node was looked up in the registry by an id parameter: detaches the node with that id
            for n in ast.walk(fi.node):
                if isinstance(n, ast.Assign) and len(n.targets) == 1 and isinstance(n.targets[0], ast.Name) and n.targets[0].id == ep \
                        and isinstance(n.value, ast.Call) and n.value.args and isinstance(n.value.args[0], ast.Name) and n.value.args[0].id in params:
                    f = n.value.func
                    if isinstance(f, ast.Attribute) and (f.attr == "get_node_instance" or (f.attr == "get" and self.is_store(ft, f.value))):
                        return {("detach_id", n.value.args[0].id)}
            r = roots.get(ep.split(".")[0], {"?"})
            return {("shrink_below", x) if x in params else ("shrink_any",) for x in (r or {"?"}) if x != "F"}
        if op in params:
            if ep in params:
                return {("remove", op, ep)}
            if ep is None:
                return {("shrink_self", op)}
            return {("shrink_below", op)}
        base = op.split(".")[0] if op else (owner.id if isinstance(owner, ast.Name) else None)
        r = roots.get(base, {"?"}) if base else {"?"}
        out = set()
        for x in (r or {"?"}):
            if x == "F":
                continue
            out.add(("shrink_below", x) if x in params else ("shrink_any",))
        return out

    def _tree_effects_once(self, fi: FuncInfo) -> Set[tuple]:
        ft = self.w.types(fi)
        nm = self.nm
        out: Set[tuple] = set()
        params = fi.params
        roots = self.roots(fi)

        def is_children(e) -> Optional[ast.expr]:
            """if e denotes some node's child list, return the owner expression"""
            if isinstance(e, ast.Attribute) and nm.canon(e.attr) == "_children" and ft.type_of(e.value) in (T_NODE, T_OPT, None):
                return e.value
            return None

        for n in ast.walk(fi.node):
            if isinstance(n, ast.Call) and isinstance(n.func, ast.Attribute):
                f = n.func
                owner = is_children(f.value)
                if owner is not None and f.attr in SHRINKERS:
                    elem = n.args[0] if (f.attr == "remove" and n.args) else None
                    out |= self._classify_remove(fi, ft, owner, elem)
                    continue
            if isinstance(n, (ast.Assign, ast.Delete, ast.AugAssign)):
                ts = n.targets if isinstance(n, (ast.Assign, ast.Delete)) else [n.target]
                for t in ts:
                    if isinstance(t, ast.Subscript):
                        owner = is_children(t.value)
                        if owner is not None:
                            out |= self._classify_remove(fi, ft, owner, None)
                        if self.is_store(ft, t.value) and isinstance(n, ast.Delete):
                            k = t.slice
                            kp = self._pathof(ft, k)
                            if kp in params:
                                out.add(("unreg_id", kp))
                            elif kp is not None and kp.endswith("._id") and kp[:-4] in params:
                                out.add(("unreg", kp[:-4]))
                            elif kp is not None and kp.endswith("._id"):
                                out |= self._unreg_local(fi, kp[:-4])
                            else:
                                out.add(("unreg_any",))
                    elif isinstance(t, ast.Attribute) and nm.canon(t.attr) == "_children" and isinstance(n, ast.Assign) \
                            and ft.type_of(t.value) in (T_NODE, T_OPT, None):
                        # re-binding the child list of an existing node drops its elements
                        r = self._pathof(ft, t.value)
                        rr = roots.get(r.split(".")[0], {"?"}) if r else {"?"}
                        if r in params:
                            out.add(("shrink_self", r))
                        elif rr == {"F"}:
                            pass
                        else:
                            for x in rr or {"?"}:
                                out.add(("shrink_below", x) if x in params else ("shrink_any",))
            if isinstance(n, ast.Call):
                if isinstance(n.func, ast.Attribute) and n.func.attr in ("pop", "popitem", "clear") and self.is_store(ft, n.func.value):
                    kp = self._pathof(ft, n.args[0]) if (n.func.attr == "pop" and n.args and not n.keywords) else None
                    if kp in params:  # registry.pop(id) unregisters exactly the key it is given, as `del registry[id]` does
                        out.add(("unreg_id", kp))
                    elif kp is not None and kp.endswith("._id") and kp[:-4] in params:
                        out.add(("unreg", kp[:-4]))
                    elif kp is not None and kp.endswith("._id"):
                        out |= self._unreg_local(fi, kp[:-4])
                    else:
                        out.add(("unreg_any",))
                for tg in self.w.resolve_call(ft, n):
                    if tg.func is None or tg.kind == "class":
                        continue
                    sub = self.tree_effects(tg.func)
                    if not sub:
                        continue
                    am = self.w.arg_map(tg, n)
                    for fx in sub:
                        out |= self._map_effect(fi, ft, fx, am)
        return out

    def _map_effect(self, fi, ft, fx, am) -> Set[tuple]:
        params = fi.params
        roots = self.roots(fi)

        def rooted(a) -> Set[str]:
            p = self._pathof(ft, a) if a is not None else None
            if p is None:
                return {"?"}
            return roots.get(p.split(".")[0], {"?"}) or {"?"}

        def below(a) -> Set[tuple]:
            return {("shrink_below", x) if x in params else ("shrink_any",) for x in rooted(a) if x != "F"}

        k = fx[0]
        if k == "detach":
            a = am.get(fx[1])
            p = self._pathof(ft, a) if a is not None else None
            if p in params:
                return {("detach", p)}
            return below(a)
        if k == "detach_id":
            a = am.get(fx[1])
            p = self._pathof(ft, a) if a is not None else None
            if p in params:
                return {("detach_id", p)}
            if p is not None and p.endswith("._id"):
                q = p[:-4]
                if q in params:
                    return {("detach", q)}
                return {("detach_local", q)} | below(a)
            return {("shrink_any",)}
        if k == "detach_local":
            return below(None)
        if k == "remove":
            ao, ae = am.get(fx[1]), am.get(fx[2])
            if ao is None:
                return {("shrink_any",)}
            return self._classify_remove(fi, ft, ao, ae)
        if k == "shrink_self":
            a = am.get(fx[1])
            p = self._pathof(ft, a) if a is not None else None
            if p in params:
                return {("shrink_self", p)}
            return below(a)
        if k == "shrink_below":
            a = am.get(fx[1])
            return below(a)
        if k == "shrink_any":
            return {fx}
        if k == "unreg_id":
            a = am.get(fx[1])
            p = self._pathof(ft, a) if a is not None else None
            if p in params:
                return {("unreg_id", p)}
            if p is not None and p.endswith("._id"):
                q = p[:-4]
                if q in params:
                    return {("unreg", q)}
                return self._unreg_local(fi, q)
            return {("unreg_any",)}
        if k in ("unreg", "unreg_below"):
            a = am.get(fx[1])
            p = self._pathof(ft, a) if a is not None else None
            if p in params:
                return {("unreg", p)}
            if p is not None:
                if p.endswith("._id"):
                    p = p[:-4]
                    if p in params:
                        return {("unreg" if k == "unreg" else "unreg_below", p)}
                return self._unreg_local(fi, p)
            return {("unreg_any",)}
        return {fx}

    def _unreg_local(self, fi, p) -> Set[tuple]:
        r = self.roots(fi).get(p.split(".")[0], {"?"}) or {"?"}
        out = set()
        for x in r:
            if x == "F":
                continue
            out.add(("unreg_below", x) if x in fi.params else ("unreg_any",))
        return out
