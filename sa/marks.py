"""E8 -- pairing and ordering on the flow interpreter: a tiny domain of
*markers*.  A state is a pair (must, may) of frozensets of labels: ``must``
holds the labels passed on every path to the point, ``may`` those passed on
some path.  The caller says which AST nodes drop which label, and which
branch outcomes do; queries are made at probe nodes and at exits."""
from __future__ import annotations

import ast
from typing import Callable, Dict, List, Optional, Tuple

from .exc import resolve_exc_class
from .flow import Flow
from .model import FuncInfo

State = Tuple[frozenset, frozenset]


class MarkDomain:
    def __init__(self):
        self.node_marks: Dict[int, List[str]] = {}  # id(node) -> labels added when the node is evaluated/executed
        self.node_unmarks: Dict[int, List[str]] = {}
        self.test_marks: Dict[int, Tuple[List[str], List[str]]] = {}  # id(test) -> (labels if true, labels if false)
        self.probes: Dict[int, List[State]] = {}
        self.probe_ids: set = set()
        self.infeasible: Dict[int, bool] = {}  # id(test) -> outcome that is infeasible
        self.flow: Optional[Flow] = None

    # -- configuration
    def mark(self, node, *labels):
        self.node_marks.setdefault(id(node), []).extend(labels)

    def unmark(self, node, *labels):
        self.node_unmarks.setdefault(id(node), []).extend(labels)

    def mark_test(self, test, if_true=(), if_false=()):
        self.test_marks[id(test)] = (list(if_true), list(if_false))

    def probe(self, node):
        self.probe_ids.add(id(node))

    # -- domain protocol
    def meet(self, a, b):
        return (a[0] & b[0], a[1] | b[1])

    def enter_function(self, fi, st, flow):
        return st

    def _apply(self, node, st):
        i = id(node)
        if i in self.probe_ids and not self.flow.quiet:
            self.probes.setdefault(i, []).append(st)
        add = self.node_marks.get(i)
        rem = self.node_unmarks.get(i)
        if rem:
            st = (st[0] - frozenset(rem), st[1] - frozenset(rem))
        if add:
            st = (st[0] | frozenset(add), st[1] | frozenset(add))
        return st

    def assume_atom(self, test, outcome, st):
        if self.infeasible.get(id(test)) is outcome and id(test) in self.infeasible:
            return None
        tm = self.test_marks.get(id(test))
        if tm:
            add = tm[0] if outcome else tm[1]
            if add:
                st = (st[0] | frozenset(add), st[1] | frozenset(add))
        return st

    def stmt(self, s, st, flow):
        return self._apply(s, st)

    def expr(self, e, st, flow):
        return self._apply(e, st)

    def bind_for(self, target, it, st, flow, comp):
        return st

    def bind_handler(self, hd, st, flow):
        return self._apply(hd, st)

    def bind_with(self, item, st, flow):
        return st


def run_marks(ctx, fi: FuncInfo, dom: MarkDomain, init=(frozenset(), frozenset())):
    flow = Flow(fi, dom, ctx.hier, lambda e: resolve_exc_class(ctx.prog, fi.module, e) or "Exception")
    dom.flow = flow
    flow.run(init)
    exits = [st for (_r, st) in flow.returns]
    if flow.end_state is not None:
        exits.append(flow.end_state)
    return flow, exits


def must_at(dom: MarkDomain, node) -> Optional[frozenset]:
    """labels that hold on every path reaching ``node`` (None if never reached)"""
    sts = dom.probes.get(id(node))
    if not sts:
        return None
    m = sts[0][0]
    for s in sts[1:]:
        m = m & s[0]
    return m


def may_at(dom: MarkDomain, node) -> Optional[frozenset]:
    sts = dom.probes.get(id(node))
    if not sts:
        return None
    m = sts[0][1]
    for s in sts[1:]:
        m = m | s[1]
    return m
