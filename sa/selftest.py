"""Thorough tier: the live-rule self-test.

For every catalogued single edit of the *current* /repo sources (a scratch copy
under $TMPDIR, removed at once) the property's check must FIRE (a breaking
edit, naming the expected rule when one is given) or stay SILENT (a behaviour-
preserving twin).  Seeded changes kept under /verif/seeded/<id>/ whose meta.json
lists this property under "checks_fired" are replayed the same way, and every
behaviour-preserving refactoring kept under /verif/refactorings/<id>/ is replayed
as a twin for every property.  An edit
whose anchor text no longer exists in /repo is skipped and counted, never a
failure.  The self-test decides nothing about /repo: it shows that a silent rule
is silent because the code is right, not because the rule matches nothing."""
from __future__ import annotations

import json
import os
import shutil
import subprocess
import sys
import tempfile
from concurrent.futures import ThreadPoolExecutor

from .core import VERIF
from .selftest_catalogue import CATALOGUE

JOBS = int(os.environ.get("SA_JOBS", "16"))


def _scratch():
    d = tempfile.mkdtemp(prefix="sa_self_")
    for sub in ("src", "utils"):
        shutil.copytree(os.path.join("/repo", sub), os.path.join(d, sub), ignore=shutil.ignore_patterns("__pycache__", "*.pyc", "*.log"))
    return d


def _run_check(pid, root):
    r = subprocess.run([sys.executable, "-m", "sa.check", pid, "--root", root, "--no-evidence"], capture_output=True, text=True, cwd=VERIF)
    rules = []
    for l in r.stdout.splitlines():
        l = l.strip()
        if f"{pid}-" in l and l.split(f"{pid}-", 1)[1][:1] in "RT":
            rules.append(l.split(f"{pid}-", 1)[1].split()[0])
    return r.returncode, rules, r.stdout[-600:]


def _one(entry):
    pid = entry["prop"]
    d = _scratch()
    try:
        if "patch" in entry:
            r = subprocess.run(["git", "apply", entry["patch"]], cwd=d, capture_output=True, text=True)
            if r.returncode != 0:
                return dict(entry, outcome="skipped", why="patch no longer applies")
        else:
            p = os.path.join(d, entry["file"])
            s = open(p, encoding="utf-8").read()
            if s.count(entry["old"]) != 1:
                return dict(entry, outcome="skipped", why="anchor text not found exactly once")
            open(p, "w", encoding="utf-8").write(s.replace(entry["old"], entry["new"]))
        rc, rules, tail = _run_check(pid, d)
        if entry["kind"] == "break":
            ok = rc == 1 and (not entry.get("rule") or entry["rule"] in rules)
        else:
            ok = rc == 0
        return dict(entry, outcome="ok" if ok else "FAILED", exit=rc, rules=rules, tail=tail if not ok else "")
    finally:
        shutil.rmtree(d, ignore_errors=True)


def entries_for(pid):
    out = [dict(e) for e in CATALOGUE if e["prop"] == pid]
    sd = os.path.join(VERIF, "seeded")
    if os.path.isdir(sd):
        for name in sorted(os.listdir(sd)):
            mp = os.path.join(sd, name, "meta.json")
            pp = os.path.join(sd, name, "patch.diff")
            if os.path.exists(mp) and os.path.exists(pp):
                try:
                    meta = json.load(open(mp))
                except ValueError:
                    continue
                if pid in (meta.get("checks_fired") or {}):
                    out.append({"prop": pid, "name": f"seeded/{name}", "kind": "break", "patch": pp})
    rd = os.path.join(VERIF, "refactorings")
    if os.path.isdir(rd):
        for name in sorted(os.listdir(rd)):
            pp = os.path.join(rd, name, "patch.diff")
            if os.path.exists(pp):
                out.append({"prop": pid, "name": f"refactoring/{name}", "kind": "twin", "patch": pp})
    return out


def run_for(pid):
    es = entries_for(pid)
    with ThreadPoolExecutor(max_workers=JOBS) as ex:
        res = list(ex.map(_one, es))
    fired = [r["name"] for r in res if r["outcome"] == "ok" and r["kind"] == "break"]
    silent = [r["name"] for r in res if r["outcome"] == "ok" and r["kind"] == "twin"]
    skipped = [r["name"] for r in res if r["outcome"] == "skipped"]
    failed = [f"{r['name']} (exit {r.get('exit')}, rules {r.get('rules')}, expected {'fire ' + str(r.get('rule') or '') if r['kind'] == 'break' else 'silence'})"
              for r in res if r["outcome"] == "FAILED"]
    return {"selftest_fired": fired, "selftest_silent": silent, "selftest_skipped": skipped, "selftest_failed": failed,
            "selftest_total": len(es)}


if __name__ == "__main__":
    pids = sys.argv[1:] or sorted({e["prop"] for e in CATALOGUE})
    bad = 0
    for pid in pids:
        r = run_for(pid)
        print(pid, "fired", len(r["selftest_fired"]), "silent", len(r["selftest_silent"]), "skipped", len(r["selftest_skipped"]), "FAILED", r["selftest_failed"])
        bad += len(r["selftest_failed"])
    sys.exit(1 if bad else 0)
