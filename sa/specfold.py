"""Which helper functions of rule.py are total on every children-spec value
the table can produce (D-SPEC for explicit raises and subscripts inside the
helpers): each candidate is constant-folded over every spec node of
rules.json, every choice's alternatives slice, and the empty list."""
from __future__ import annotations

from typing import Dict

from .peval import PEval, PEvalUnsupported, Raised
from .tables import SpecError
from .types import RULE_Q, T_SPEC


def spec_domain(tables):
    dom = []
    for rname in sorted(tables.rules):
        try:
            sp = tables.spec(rname)
        except (SpecError, Exception):
            return None
        if sp is None:
            continue
        for node in sp.walk():
            dom.append(node.raw)
            if node.kind == "choice":
                dom.append(node.raw[:-2])
    return dom


def spec_total(ctx) -> Dict[str, str]:
    def make():
        w = ctx.world
        w.param_types_from_calls()
        tables = ctx.tables
        dom = spec_domain(tables)
        out: Dict[str, str] = {}
        if dom is None:
            return out
        ci = ctx.prog.classes.get(RULE_Q)
        if ci is None:
            return out
        for m in ci.methods.values():
            if m.kind != "static" or len(m.params) != 1:
                continue
            if w.types(m).env.get(m.params[0]) != T_SPEC:
                continue
            pe = PEval(w)
            ok = True
            try:
                for v in dom:
                    try:
                        pe.call(m, [v])
                    except Raised:
                        ok = False
                        break
            except PEvalUnsupported:
                continue
            if not ok:
                continue
            try:
                pe.call(m, [[]])
                out[m.qname] = "all"
            except Raised:
                out[m.qname] = "nonempty"
            except PEvalUnsupported:
                out[m.qname] = "nonempty"
        return out
    return ctx.get("spec_total", make)
