"""E7 -- the three shipped tables (names.py constants, node_mappings,
rules.json) as static data, the children-spec grammar, and the productivity
fixpoint.  Nothing is imported from the repository: node_mappings and the name
constants are folded from the AST, rules.json is read as JSON."""
from __future__ import annotations

import ast
from dataclasses import dataclass
from typing import Any, Dict, List, Optional, Tuple

from .model import UNKNOWN, AnalysisError, Program, norm

RULE_MOD = "metapype.eml.rule"
NAMES_MOD = "metapype.eml.names"


@dataclass
class Spec:
    kind: str  # leaf | seq | choice
    raw: Any
    name: Optional[str] = None
    items: Optional[List["Spec"]] = None
    min: Optional[int] = None
    max: Optional[int] = None  # None = unbounded

    def names(self) -> List[str]:
        if self.kind == "leaf":
            return [self.name]
        out = []
        for it in self.items:
            out.extend(it.names())
        return out

    def walk(self):
        yield self
        for it in self.items or []:
            yield from it.walk()


class SpecError(Exception):
    pass


def _is_int(x):
    return isinstance(x, int) and not isinstance(x, bool)


def parse_spec(s, path="") -> Spec:
    """The declared grammar of a children spec:
         leaf   := [name:str, min:int, max:int|null]
         choice := [item+, min:int, max:int|null]
         seq    := [item+]
    """
    if not isinstance(s, list) or len(s) == 0:
        raise SpecError(f"{path}: expected a non-empty list, got {s!r}"[:200])
    if isinstance(s[0], str):
        if len(s) != 3:
            raise SpecError(f"{path}: leaf must be [name, min, max], got {s!r}"[:200])
        name, lo, hi = s
        _check_minmax(lo, hi, f"{path}/{name}")
        return Spec("leaf", s, name=name, min=lo, max=hi)
    if not isinstance(s[0], list):
        raise SpecError(f"{path}: first element is neither a name nor a sub-spec: {s[0]!r}")
    if isinstance(s[-1], list):
        items = [parse_spec(x, f"{path}/s{i}") for i, x in enumerate(s)]
        return Spec("seq", s, items=items)
    if len(s) < 3:
        raise SpecError(f"{path}: choice needs at least one alternative and min, max: {s!r}"[:200])
    lo, hi = s[-2], s[-1]
    _check_minmax(lo, hi, f"{path}/choice")
    for x in s[:-2]:
        if not isinstance(x, list):
            raise SpecError(f"{path}: choice alternative is not a sub-spec: {x!r}")
    items = [parse_spec(x, f"{path}/c{i}") for i, x in enumerate(s[:-2])]
    return Spec("choice", s, items=items, min=lo, max=hi)


def _check_minmax(lo, hi, path):
    if not _is_int(lo) or lo < 0:
        raise SpecError(f"{path}: minimum must be a non-negative int, got {lo!r}")
    if hi is not None and not _is_int(hi):
        raise SpecError(f"{path}: maximum must be an int or null, got {hi!r}")
    if hi is not None and hi < lo:
        raise SpecError(f"{path}: maximum {hi} below minimum {lo}")


class Tables:
    def __init__(self, prog: Program):
        self.prog = prog
        self.rule_mod = prog.module(RULE_MOD)
        self.names_mod = prog.module(NAMES_MOD)
        self.rules = prog.load_rules_json()
        if not isinstance(self.rules, dict):
            raise AnalysisError("rules.json is not an object")
        nm_expr = self.rule_mod.consts.get("node_mappings")
        if not isinstance(nm_expr, ast.Dict) or any(k is None for k in nm_expr.keys):
            from .astutil import as_dict_literal
            nm_expr = as_dict_literal(prog, self.rule_mod, nm_expr)  # dict(<pairs>), A | B, {**A, **B}, a comprehension over pairs
        if not isinstance(nm_expr, ast.Dict):
            raise AnalysisError("anchor vanished: rule.node_mappings is not a dict literal")
        if self.rule_mod.const_multi.get("node_mappings") != 1:
            raise AnalysisError("rule.node_mappings is assigned more than once")
        self.nm_expr = nm_expr
        self.mapping: Dict[str, str] = {}
        self.mapping_problems: List[Tuple[ast.AST, str]] = []
        self.mapping_dups: List[str] = []
        for k, v in zip(nm_expr.keys, nm_expr.values):
            if k is None:
                self.mapping_problems.append((v, "dict unpacking in node_mappings is not folded"))
                continue
            kk = prog.const(self.rule_mod, k)
            vv = prog.const(self.rule_mod, v)
            if not isinstance(kk, str):
                self.mapping_problems.append((k, f"key `{norm(k)}` does not fold to a string"))
                continue
            if not isinstance(vv, str):
                self.mapping_problems.append((v, f"value `{norm(v)}` for '{kk}' does not fold to a string"))
                continue
            if kk in self.mapping:
                self.mapping_dups.append(kk)
            self.mapping[kk] = vv
        # every module-level write to node_mappings / rules_dict outside the literal would invalidate the fold
        self.name_consts: Dict[str, str] = {}
        for n, e in self.names_mod.consts.items():
            v = prog.const(self.names_mod, e)
            if isinstance(v, str) and n.isupper():
                self.name_consts[n] = v
        self._specs: Dict[str, Optional[Spec]] = {}

    def spec(self, rule_name: str) -> Optional[Spec]:
        """parsed children spec of a rule; None for an empty children list;
        raises SpecError when malformed"""
        if rule_name not in self._specs:
            ch = self.rules[rule_name][1]
            self._specs[rule_name] = parse_spec(ch, rule_name) if ch else None
        return self._specs[rule_name]

    def reachable_rules(self):
        return sorted(set(self.mapping.values()))

    def table_writers(self):
        """statements anywhere in the program that write node_mappings or
        rules_dict after their definition (would invalidate the static fold)"""
        out = []
        for mi in self.prog.modules.values():
            for n in ast.walk(mi.tree):
                tgt = None
                if isinstance(n, (ast.Assign, ast.AugAssign, ast.Delete)):
                    ts = n.targets if isinstance(n, (ast.Assign, ast.Delete)) else [n.target]
                    for t in ts:
                        if isinstance(t, ast.Subscript):
                            tgt = t.value
                            if self._is_table(mi, tgt):
                                out.append((mi, n))
                elif isinstance(n, ast.Call) and isinstance(n.func, ast.Attribute) and n.func.attr in (
                        "update", "pop", "popitem", "clear", "setdefault", "__setitem__", "__delitem__"):
                    if self._is_table(mi, n.func.value):
                        out.append((mi, n))
        return out

    def _is_table(self, mi, e):
        r = self.prog.resolve_name_expr(mi, e)
        return bool(r and r[0] == "const" and r[1].name == RULE_MOD and r[2] in ("node_mappings", "rules_dict"))
