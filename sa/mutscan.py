"""Developer tool: systematic mutation scan.  Enumerates classic single-site mutants of the library sources, keeps the ones
the repository's own test suite does NOT kill (those are the changes the checks are there for), runs all 18 checks against
each, and lists the survivors that no check reports -- to be triaged by hand into equivalent mutants and genuine gaps.

    python -m sa.mutscan <relative file> [--max N] [--out file.json]

Nothing is written to /repo; every mutant lives in a scratch copy that is removed at once."""
from __future__ import annotations

import ast
import copy
import json
import os
import shutil
import subprocess
import sys
import tempfile
from concurrent.futures import ThreadPoolExecutor

from .check import PROPS
from .core import VERIF

FLIP = {ast.Lt: ast.LtE, ast.LtE: ast.Lt, ast.Gt: ast.GtE, ast.GtE: ast.Gt, ast.Eq: ast.NotEq, ast.NotEq: ast.Eq, ast.Is: ast.IsNot, ast.IsNot: ast.Is,
        ast.In: ast.NotIn, ast.NotIn: ast.In}


def sites(tree):
    """[(description, mutator(tree_copy) -> None)] one per mutation site; the mutator finds its node by a running index"""
    out = []
    nodes = list(ast.walk(tree))
    for i, n in enumerate(nodes):
        ln = getattr(n, "lineno", 0)
        if isinstance(n, ast.Compare) and len(n.ops) == 1 and type(n.ops[0]) in FLIP:
            out.append((f"L{ln} flip {type(n.ops[0]).__name__}", i, "flip"))
            if isinstance(n.ops[0], (ast.Lt, ast.LtE, ast.Gt, ast.GtE)):
                out.append((f"L{ln} reverse {type(n.ops[0]).__name__}", i, "reverse"))
        elif isinstance(n, ast.BoolOp):
            out.append((f"L{ln} and<->or", i, "boolop"))
        elif isinstance(n, ast.UnaryOp) and isinstance(n.op, ast.Not):
            out.append((f"L{ln} drop not", i, "dropnot"))
        elif isinstance(n, ast.If):
            out.append((f"L{ln} if -> always", i, "iftrue"))
            out.append((f"L{ln} if -> never", i, "iffalse"))
        elif isinstance(n, ast.Constant) and isinstance(n.value, bool):
            out.append((f"L{ln} {n.value} -> {not n.value}", i, "boolconst"))
        elif isinstance(n, ast.Constant) and isinstance(n.value, int) and not isinstance(n.value, bool):
            out.append((f"L{ln} {n.value} -> {n.value + 1}", i, "intplus"))
            out.append((f"L{ln} {n.value} -> {n.value - 1}", i, "intminus"))
        elif isinstance(n, (ast.Expr, ast.Assign, ast.AugAssign)) and not (isinstance(n, ast.Expr) and isinstance(n.value, ast.Constant)):
            if not (isinstance(n, ast.Expr) and isinstance(n.value, ast.Call) and isinstance(n.value.func, ast.Attribute) and n.value.func.attr in ("debug", "info", "warning")):
                out.append((f"L{ln} delete `{ast.unparse(n)[:50]}`", i, "delete"))
        elif isinstance(n, (ast.Break, ast.Continue)):
            out.append((f"L{ln} drop {type(n).__name__.lower()}", i, "delete"))
        elif isinstance(n, ast.Return) and n.value is not None and not (isinstance(n.value, ast.Constant) and n.value.value is None):
            out.append((f"L{ln} return None", i, "retnone"))
        elif isinstance(n, ast.Call) and len(n.args) == 2 and not n.keywords and not any(isinstance(a, ast.Starred) for a in n.args):
            out.append((f"L{ln} swap args of `{ast.unparse(n.func)[:30]}`", i, "swapargs"))
        elif isinstance(n, ast.AugAssign) and isinstance(n.op, (ast.Add, ast.Sub)):
            out.append((f"L{ln} += <-> -=", i, "augflip"))
        elif isinstance(n, ast.Slice):
            out.append((f"L{ln} slice bounds dropped", i, "slice"))
    return out


def apply(tree, idx, kind):
    nodes = list(ast.walk(tree))
    n = nodes[idx]

    class Repl(ast.NodeTransformer):
        def visit(self, x):
            if x is n:
                return self.mut(x)
            return self.generic_visit(x)

        def mut(self, x):
            if kind == "flip":
                x.ops = [FLIP[type(x.ops[0])]()]
            elif kind == "reverse":
                x.ops = [{ast.Lt: ast.Gt, ast.Gt: ast.Lt, ast.LtE: ast.GtE, ast.GtE: ast.LtE}[type(x.ops[0])]()]
            elif kind == "boolop":
                x.op = ast.Or() if isinstance(x.op, ast.And) else ast.And()
            elif kind == "dropnot":
                return x.operand
            elif kind == "iftrue":
                x.test = ast.Constant(value=True)
            elif kind == "iffalse":
                x.test = ast.Constant(value=False)
            elif kind == "boolconst":
                return ast.Constant(value=not x.value)
            elif kind == "intplus":
                return ast.Constant(value=x.value + 1)
            elif kind == "intminus":
                return ast.Constant(value=x.value - 1)
            elif kind == "delete":
                return ast.Pass()
            elif kind == "retnone":
                x.value = ast.Constant(value=None)
            elif kind == "swapargs":
                x.args = [x.args[1], x.args[0]]
            elif kind == "augflip":
                x.op = ast.Sub() if isinstance(x.op, ast.Add) else ast.Add()
            elif kind == "slice":
                x.lower, x.upper = None, None
            return x
    t = Repl().visit(tree)
    ast.fix_missing_locations(t)
    return t


def one(job):
    rel, desc, idx, kind = job
    d = tempfile.mkdtemp(prefix="sa_mut_")
    try:
        for sub in ("src", "utils", "tests"):
            shutil.copytree(os.path.join("/repo", sub), os.path.join(d, sub), ignore=shutil.ignore_patterns("__pycache__", "*.pyc", "*.log"))
        p = os.path.join(d, rel)
        tree = ast.parse(open(p).read())
        try:
            src = ast.unparse(apply(tree, idx, kind))
            compile(src, p, "exec")
        except Exception as e:
            return {"desc": desc, "status": "invalid"}
        open(p, "w").write(src)
        env = dict(os.environ, PYTHONPATH=os.path.join(d, "src"), PYTHONDONTWRITEBYTECODE="1")
        try:
            r = subprocess.run(["/venv/bin/python", "-m", "pytest", "-q", "-x", "-p", "no:cacheprovider", "tests"], cwd=d, env=env, capture_output=True, text=True, timeout=180)
        except subprocess.TimeoutExpired:
            return {"desc": desc, "status": "tests-timeout"}
        if r.returncode != 0:
            return {"desc": desc, "status": "killed-by-tests"}
        fired, errs = [], []
        for pid in (ONLY or PROPS):
            try:
                c = subprocess.run([sys.executable, "-m", "sa.check", pid, "--root", d, "--no-evidence"], cwd=VERIF, capture_output=True, text=True, timeout=300)
            except subprocess.TimeoutExpired:
                errs.append(pid + ":timeout")
                continue
            if c.returncode == 1:
                fired.append(pid)
            elif c.returncode != 0:
                errs.append(pid)
        return {"desc": desc, "status": "reported" if fired else ("analysis-error" if errs else "SURVIVED"), "fired": fired, "errors": errs,
                "line": ast.unparse(list(ast.walk(ast.parse(open(os.path.join('/repo', rel)).read())))[idx])[:120] if False else ""}
    finally:
        shutil.rmtree(d, ignore_errors=True)


ONLY = None


def main():
    global ONLY
    rel = sys.argv[1]
    if "--checks" in sys.argv:
        ONLY = sys.argv[sys.argv.index("--checks") + 1].split(",")
    recheck = None
    if "--recheck" in sys.argv:
        # only the mutants a previous scan (its --out file) left as SURVIVED / analysis-error
        recheck = {r["desc"] for r in json.load(open(sys.argv[sys.argv.index("--recheck") + 1])) if r["status"] in ("SURVIVED", "analysis-error")}
    mx = int(sys.argv[sys.argv.index("--max") + 1]) if "--max" in sys.argv else 100000
    outp = sys.argv[sys.argv.index("--out") + 1] if "--out" in sys.argv else None
    only_lines = None
    if "--lines" in sys.argv:
        a, b = sys.argv[sys.argv.index("--lines") + 1].split("-")
        only_lines = (int(a), int(b))
    tree = ast.parse(open(os.path.join("/repo", rel)).read())
    jobs = []
    for desc, idx, kind in sites(tree):
        ln = int(desc.split()[0][1:])
        if only_lines and not (only_lines[0] <= ln <= only_lines[1]):
            continue
        if recheck is not None and desc not in recheck:
            continue
        jobs.append((rel, desc, idx, kind))
    jobs = jobs[:mx]
    print(len(jobs), "mutants of", rel, flush=True)
    with ThreadPoolExecutor(max_workers=16) as ex:
        res = list(ex.map(one, jobs))
    tally = {}
    for r in res:
        tally[r["status"]] = tally.get(r["status"], 0) + 1
    print(tally)
    for r in res:
        if r["status"] in ("SURVIVED", "analysis-error"):
            print(r["status"], r["desc"], r.get("errors") or "")
    if outp:
        json.dump(res, open(outp, "w"), indent=1)


if __name__ == "__main__":
    main()
