"""Developer tool: run checks against a scratch copy of /repo with one textual edit.
    python -m sa.mutate <PROPS|all> <relative file> <old> <new> [--count N]
The copy lives under $TMPDIR and is removed at once.  Decides nothing about /repo."""
from __future__ import annotations

import os
import shutil
import subprocess
import sys
import tempfile


def scratch_copy(root="/repo"):
    d = tempfile.mkdtemp(prefix="sa_mut_")
    for sub in ("src", "utils", "tests"):
        if os.path.isdir(os.path.join(root, sub)):
            shutil.copytree(os.path.join(root, sub), os.path.join(d, sub), ignore=shutil.ignore_patterns("__pycache__", "*.pyc", "*.log"))
    return d


def main():
    props, rel, old, new = sys.argv[1:5]
    d = scratch_copy()
    try:
        p = os.path.join(d, rel)
        s = open(p).read()
        n = s.count(old)
        if n != 1:
            print(f"edit matches {n} times (need exactly 1)")
            return 3
        open(p, "w").write(s.replace(old, new))
        from .check import PROPS
        ids = PROPS if props == "all" else props.split(",")
        for pid in ids:
            r = subprocess.run([sys.executable, "-m", "sa.check", pid, "--root", d, "--no-evidence"], capture_output=True, text=True,
                               cwd=os.path.dirname(os.path.dirname(os.path.abspath(__file__))))
            lines = [l for l in r.stdout.splitlines() if l.startswith(("VIOLATION", "  ", "ANALYSIS", "KNOWN"))]
            print(f"[{pid}] exit={r.returncode}")
            for l in lines:
                print("   ", l.replace(d + "/", "")[:400])
            if r.returncode not in (0, 1, 2) or (r.returncode == 2 and not lines):
                print(r.stdout[-2000:], r.stderr[-2000:])
    finally:
        shutil.rmtree(d, ignore_errors=True)


if __name__ == "__main__":
    sys.exit(main())
